# distr_lib.py — helpers shared by the checks of builder group "distr"
# (C14, C15, C16): Coq literals for Distributions arguments/attributes, case
# generators, exact-model images.
from fractions import Fraction

import numpy as np

import vlib

RMAX_KW = ['hor', 'ver', 'HOR', 'VER', 'min', 'max', 'MIN', 'MAX', 'all']
RMAX_COQ = {'hor': 'Rhor', 'ver': 'Rver', 'HOR': 'RHOR', 'VER': 'RVER', 'min': 'Rmin',
            'max': 'Rmax', 'MIN': 'RMIN', 'MAX': 'RMAX', 'all': 'Rall'}

# location strings: (vertical, horizontal) words and their resolved meaning
VWORDS = {'top': 't', 'upper': 't', 'center': 'c', 'bottom': 'b', 'lower': 'b'}
HWORDS = {'left': 'l', 'center': 'c', 'right': 'r'}
ORIGIN_STRINGS = (['%s %s' % (v, h) for v in VWORDS for h in HWORDS] +
                  ['%s%s' % (v[0], h[0]) for v in VWORDS for h in HWORDS] +
                  ['c', 'center', 'top  left', ' lower right ', 'u l', 'center\tright'])
BAD_ORIGIN_STRINGS = ['x', 'abc', 'a b c', 'cx', 'c ', 'xl', 'top', 'top middle', '', 'bottom left corner']


def origin_coq(o):
    if isinstance(o, str):
        if '"' in o:
            raise ValueError('quote in origin string')
        return '(OStr "%s"%%string)' % o
    return '(OTuple %s %s)' % (vlib.z_lit(int(o[0])), vlib.z_lit(int(o[1])))


def rmax_coq(r):
    if isinstance(r, str):
        return RMAX_COQ.get(r, 'RBad')
    return '(RInt %s)' % vlib.z_lit(int(r))


def sl_coq(s):
    step = 1 if s.step is None else s.step
    if s.start is None or s.stop is None:
        raise ValueError('slice with None bound: %r' % (s,))
    return '(Sl %s %s %s)' % (vlib.z_lit(int(s.start)), vlib.z_lit(int(s.stop)), vlib.z_lit(int(step)))


def nat_rows(a):
    return '[' + '; '.join('[' + '; '.join(str(int(v)) for v in row) + ']' for row in a) + ']%nat'


def bools(a):
    return vlib.list_lit([vlib.bool_lit(bool(b)) for b in a])


def obs_coq(d):
    """geom_obs record of a Distributions object after _precalc."""
    if d.fold:
        regions = vlib.list_lit(['((%s, %s), (%s, %s))' % (sl_coq(src[0]), sl_coq(src[1]), sl_coq(dst[0]), sl_coq(dst[1]))
                                 for src, dst in d.regions])
        flip = '(Sl 0 0 1, Sl 0 0 1)'
    else:
        regions = '[]'
        flip = '(%s, %s)' % (sl_coq(d.flip_row), sl_coq(d.flip_col))
    return ('{| o_row := %d; o_col := %d; o_VER := %d; o_HOR := %d; o_rmax := %d; o_odd := %s; o_N := %d; '
            'o_Qh := %d; o_Qw := %d; o_fold := %s; o_flip := %s; o_regions := %s; o_bin := %s; o_valid := %s |}'
            % (d.row, d.col, d.VER, d.HOR, d.rmax, vlib.bool_lit(d.odd), d.N, d.Qheight, d.Qwidth,
               vlib.bool_lit(d.fold), flip, regions, nat_rows(d.bin), bools(d.valid)))


def folded(d, X):
    """The folded quadrant of array X, through the object's own slices
    (what Distributions.image does at vmi.py:1470-1475)."""
    if d.fold:
        Q = np.zeros((d.Qheight, d.Qwidth))
        for src, dst in d.regions:
            Q[dst] += X[src]
        return Q
    return np.array(X[d.flip_row, d.flip_col], dtype=float)


def sqrt_table(d):
    """(n, numpy.sqrt(n)) for every r^2 of the quadrant."""
    y0 = min(d.row, d.rmax) if d.odd else 0
    ns = sorted({b * b + (y0 - a) ** 2 for a in range(d.Qheight) for b in range(d.Qwidth)})
    return vlib.list_lit(['(%d%%nat, %s)' % (n, vlib.q_lit(float(np.sqrt(float(n))))) for n in ns])


def parse_tuple_result(s):
    """'(a, b, c)' printed by Eval -> list of stripped components (top level)."""
    s = s.strip()
    assert s[0] == '(' and s[-1] == ')', s
    parts, depth, cur = [], 0, ''
    for ch in s[1:-1]:
        if ch in '([':
            depth += 1
        if ch in ')]':
            depth -= 1
        if ch == ',' and depth == 0:
            parts.append(cur.strip())
            cur = ''
        else:
            cur += ch
    parts.append(cur.strip())
    return parts


# ---------------------------------------------------------------------------
# exact-model images  sum_n c_n(r) cos^n(theta)
# ---------------------------------------------------------------------------

def orders_of(order, odd):
    odd = False if order == 0 else (True if order % 2 else odd)
    return list(range(0, order + 1, 1 if odd else 2)), odd


def polar(shape, row, col):
    """r and cos(theta) of every pixel about (row, col); theta from the
    upward vertical, as in Distributions (y = row - i)."""
    i = np.arange(shape[0], dtype=float)[:, None]
    j = np.arange(shape[1], dtype=float)[None, :]
    y = row - i
    x = j - col
    r = np.sqrt(x * x + y * y)
    with np.errstate(all='ignore'):
        cos = np.where(r > 0, y / np.where(r > 0, r, 1), 0.0)
    return r, cos + 0 * r


def model_image(shape, row, col, orders, coef, method):
    """Image equal to sum_n c_n cos^n theta; coef[k] is either a scalar
    (constant over r) or an array indexed by the nearest-integer radius."""
    r, cos = polar(shape, row, col)
    IM = np.zeros(shape)
    rb = np.rint(r).astype(int)
    for n, c in zip(orders, coef):
        c = np.asarray(c, dtype=float)
        cv = c if c.ndim == 0 else c[np.minimum(rb, len(c) - 1)]
        IM = IM + cv * cos ** n
    return IM


def resolve_origin(shape, origin):
    """Reference resolution of an origin specification to (row, col)."""
    h, w = shape
    if isinstance(origin, str):
        s = origin
        if len(s) == 2:
            r, c = s
        elif s in ('c', 'center'):
            r, c = 'c', 'c'
        else:
            r, c = [x[0] for x in s.split()]
        row = {'t': 0, 'u': 0, 'c': h // 2, 'b': h - 1, 'l': h - 1}[r]
        col = {'l': 0, 'c': w // 2, 'r': w - 1}[c]
        return row, col
    row, col = origin
    return (row + h if row < 0 else row), (col + w if col < 0 else col)


def hankel_cond(shape, row, col, W, orders, odd, meth, sin, rmax):
    """Condition number of the normal (Hankel) matrix of every radius,
    computed from the unfolded image pixels (independent of the folding)."""
    r, cos = polar(shape, row, col)
    x = cos if odd else cos * cos
    wt = np.ones(shape) if W is None else W
    if sin:
        with np.errstate(all='ignore'):
            s = np.where(r > 0, np.abs(np.arange(shape[1])[None, :] - col) / np.where(r > 0, r, 1), 1.0)
        wt = wt * s
    N = len(orders)
    conds = np.full(rmax + 1, np.inf)
    if meth == 'nearest':
        parts = [(np.rint(r).astype(int), wt)]
    else:
        fl = np.floor(r).astype(int)
        parts = [(fl, wt * (1 - (r - fl))), (fl + 1, wt * (r - fl))]
    for k in range(rmax + 1):
        H = np.zeros((N, N))
        for b, ww in parts:
            m = (b == k)
            if m.any():
                xs, ws = x[m], ww[m]
                P = np.array([np.sum(ws * xs ** p) for p in range(2 * N - 1)])
                H += np.array([[P[i + j] for j in range(N)] for i in range(N)])
        if np.all(np.isfinite(H)) and np.linalg.matrix_rank(H) == N:
            conds[k] = np.linalg.cond(H)
    return conds




# ---------------------------------------------------------------------------
# dtype independence: integer / float32 images and weights must give the result of
# their float64 copies
# ---------------------------------------------------------------------------
DTYPES = ['uint8', 'int8', 'uint16', 'int16', 'int32', 'uint32', 'int64', 'float32']


def dtype_array(rng, dt, shape, signed_values=False):
    """Array of the given dtype with values up to the type's maximum (and down to its
    minimum for signed types when signed_values); float32: positive values ~1e3."""
    d = np.dtype(dt)
    if d.kind == 'f':
        a = rng.uniform(0.5, 1.5, shape) * 1e3
        if signed_values:
            a = a * rng.choice([-1.0, 1.0], shape)
        return a.astype(d)
    info = np.iinfo(d)
    a = rng.integers(info.max // 2, info.max, shape, endpoint=True, dtype=np.int64 if d != np.uint64 else np.uint64)
    k = rng.random(shape)
    a = np.where(k < 0.15, info.max, a)                       # the maximum itself
    a = np.where(k > 0.9, rng.integers(0, 4, shape), a)       # and a few small values
    if signed_values and info.min < 0:
        neg = rng.random(shape) < 0.3
        a = np.where(neg, -a - 1, a)                           # down to the minimum
    return a.astype(d)


def dtype_exact(dti, dtw, method, folds):
    """True when the native-dtype computation performs, after exact conversions, the same
    binary64 operations as the float64 copies (so results must be bit-identical).  Not so when
    numpy evaluates weights * image in float32 (float32 with float32 or a narrow integer type),
    and for 'remap' of an unfolded float32 image / float32 weights (scipy resamples in the
    precision of its input)."""
    if method == 'remap' and not folds and 'float32' in (dti, dtw):
        return False
    if dtw in (None, 'float64'):
        return True
    ki, kw = np.dtype(dti).kind, np.dtype(dtw).kind
    if ki in 'iu' and kw in 'iu':
        return True                      # (integers: exact once the product is taken in binary64)
    return np.result_type(np.dtype(dti), np.dtype(dtw)) == np.float64


def dtype_key(dti, dtw, method, folds, what):
    """Classification of a dtype disagreement: the candidate defects of the current tree get
    their own keys, anything else a key naming the dtypes."""
    ki = np.dtype(dti).kind
    kw = None if dtw in (None, 'float64') else np.dtype(dtw).kind
    if kw in ('i', 'u') and method == 'remap':
        return 'dtype:remap-integer-weights'
    if kw in ('i', 'u') and ki in ('i', 'u'):
        return 'dtype:integer-weights-times-integer-image-wrap'
    if ki in ('i', 'u') and method == 'remap' and not folds:
        return 'dtype:remap-unfolded-integer-image-rounded'
    return 'dtype:image=%s:weights=%s:method=%s:%s' % (dti, dtw, method, 'fold' if folds else 'nofold')


DTYPE_COMPUTE = '''
def compute(mode, IM, W, cfg):
    import numpy as np
    import abel.tools.vmi as vmi
    origin = tuple(cfg['origin']) if isinstance(cfg['origin'], list) else cfg['origin']
    if mode == 'rbasex':
        from abel.rbasex import rbasex_transform, cache_cleanup
        cache_cleanup()
        rec, d = rbasex_transform(IM, origin=origin, rmax=cfg['rmax'], order=cfg['order'], odd=cfg['odd'], weights=W,
                                  out=cfg.get('out', 'same'))
        return {'image': rec, 'cos': d.cos(), 'valid': np.asarray(d.valid, float)}
    kw = dict(odd=cfg['odd'], use_sin=cfg['use_sin'], weights=W, method=cfg['method'])
    res = vmi.Distributions(origin, cfg['rmax'], cfg['order'], **kw).image(IM)
    if mode == 'distributions':
        return {'cos': res.cos(), 'valid': np.asarray(res.valid, float)}
    win = cfg.get('window', 1)
    return {'cossin': res.cossin(), 'harmonics': res.harmonics(), 'Ibeta': res.Ibeta(win), 'rIbeta': res.rIbeta(win),
            'vmi.harmonics': vmi.harmonics(IM, origin, cfg['rmax'], cfg['order'], **kw),
            'vmi.Ibeta': vmi.Ibeta(IM, origin, cfg['rmax'], cfg['order'], win, **kw)}
'''
exec(DTYPE_COMPUTE)     # defines compute()

SNIPPET_DTYPE = '''
import json, sys, warnings
import numpy as np
warnings.simplefilter('ignore')
''' + DTYPE_COMPUTE + '''
p = json.loads(%(params)r)
cfg = p['cfg']; mode = p['mode']
IM = np.array(p['IM'], dtype=np.float64 if p['dti'] == 'float32' else object).astype(p['dti'])
W = None if p['W'] is None else np.array(p['W'], dtype=np.float64 if p['dtw'] in ('float32', 'float64') else object).astype(p['dtw'])
try:
    nat = compute(mode, IM, W, cfg)
except Exception as e:
    print('dtype independence FAILS:', p['dti'], 'image /', p['dtw'], 'weights raise', type(e).__name__, e); sys.exit(1)
ref = compute(mode, IM.astype(float), None if W is None else W.astype(float), cfg)
bad = []
for k in ref:
    a, b = np.asarray(nat[k], float), np.asarray(ref[k], float)
    if a.shape != b.shape:
        bad.append(k + ' (shape)'); continue
    if p['exact']:
        ok = np.array_equal(a, b, equal_nan=True)
    elif k == 'image' or cfg['method'] == 'remap' or mode == 'rbasex':
        ok = True
    else:
        sel = p['radii'] if a.shape[-1] == p['nr'] else slice(None)
        a, b = a[..., sel], b[..., sel]
        ok = np.allclose(a, b, rtol=p['tol'], atol=p['tol'] * (np.nanmax(np.abs(b)) if b.size else 0.0), equal_nan=True)
    if not ok: bad.append(k)
print('dtype independence (%%s image, %%s weights, %%s)' %% (p['dti'], p['dtw'], mode), 'holds' if not bad else 'FAILS for ' + ', '.join(bad))
sys.exit(0 if not bad else 1)
'''


def dtype_search(rng, budget, mode, prefix, methods=('nearest', 'linear', 'remap')):
    """Random images/weights of every dtype of DTYPES (values up to the type's extremes) through
    `mode` in {'distributions', 'representations', 'rbasex'}; the result must equal that of the
    float64 copies (bit for bit when dtype_exact, else to float32 accuracy at well-conditioned
    radii).  Returns (failures, n_eval, distinct); a failure is (key, what, snippet, data)."""
    import json
    import warnings
    fails, n_eval, distinct = [], 0, set()
    for it in range(budget):
        meth = methods[rng.integers(len(methods))]
        lo = 12 if meth == 'remap' else 4
        h, w = [int(v) for v in rng.integers(lo, lo + 12, 2)]
        k = rng.random()
        if k < 0.5:
            o = (int(rng.integers(h)), int(rng.integers(w)))
        elif k < 0.75:
            o = ORIGIN_STRINGS[rng.integers(len(ORIGIN_STRINGS))]
        else:
            o = ([0, h - 1][rng.integers(2)], [0, w - 1][rng.integers(2)])
        row, col = resolve_origin((h, w), o)
        rm = RMAX_KW[rng.integers(9)] if rng.random() < 0.7 else int(rng.integers(1, max(h, w)))
        order = int(rng.integers(0, 5)) if rng.random() < 0.8 else int(rng.integers(0, 9))
        odd = bool(rng.integers(2))
        orders, odd_r = orders_of(order, odd)
        sin = bool(rng.integers(2)) if mode != 'rbasex' else False
        dti = DTYPES[rng.integers(len(DTYPES))]
        dtw = [None, None, 'float64'][rng.integers(3)] if rng.random() < 0.5 else DTYPES[rng.integers(len(DTYPES))]
        IM = dtype_array(rng, dti, (h, w), signed_values=bool(rng.integers(2)))
        W = None if dtw is None else (rng.uniform(0.2, 3, (h, w)) if dtw == 'float64' else dtype_array(rng, dtw, (h, w)))
        folds = not ((row in (0, h - 1) or odd_r) and col in (0, w - 1)) if not odd_r else col not in (0, w - 1)
        if mode == 'rbasex':
            meth = 'linear'
        cfg = dict(origin=o if isinstance(o, str) else [int(o[0]), int(o[1])], rmax=rm, order=order, odd=odd, use_sin=sin,
                   method=meth, window=int([1, 1, 2, 3, 5][rng.integers(5)]),
                   out=['same', 'fold', 'unfold', 'full', 'full-unique'][rng.integers(5)])
        exact = dtype_exact(dti, dtw, meth, folds)
        n_eval += 1
        distinct.add((mode, dti, dtw, meth if mode != 'rbasex' else 'rbasex', folds))
        what, radii, nr, tol = None, [], 0, (1e-3 if meth == 'remap' else 1e-4)
        with warnings.catch_warnings(), np.errstate(all='ignore'):
            warnings.simplefilter('ignore')
            try:
                ref = compute(mode, IM.astype(float), None if W is None else W.astype(float), cfg)
            except Exception:     # noqa  (an invalid request also for float64: not a dtype question)
                continue
            try:
                nat = compute(mode, IM, W, cfg)
            except Exception as e:     # noqa
                what = 'exception %s: %s' % (type(e).__name__, str(e)[:100])
                nat = None
        if nat is not None:
            nr = ref['cos'].shape[-1] if 'cos' in ref else ref['harmonics'].shape[-1]
            if not exact:
                conds = hankel_cond((h, w), row, col, None if W is None else W.astype(float), orders, odd_r,
                                    'linear' if meth == 'remap' else meth, sin, nr - 1)
                radii = [int(r) for r in range(nr) if conds[r] <= 1e3]
            bad = []
            for name in ref:
                a, b = np.asarray(nat[name], float), np.asarray(ref[name], float)
                if a.shape != b.shape:
                    bad.append(name + ' (shape)')
                    continue
                if exact:
                    ok = np.array_equal(a, b, equal_nan=True)
                elif name == 'image' or meth == 'remap' or mode == 'rbasex':
                    ok = True       # (float32 resampling of 'remap', float32 products amplified by the Abel inversion:
                    #                  only "no exception", shape and output dtype are required)
                else:
                    sel = radii if a.shape[-1] == nr else slice(None)
                    a, b = a[..., sel], b[..., sel]
                    ok = np.allclose(a, b, rtol=tol, atol=tol * (np.nanmax(np.abs(b)) if b.size else 0.0), equal_nan=True)
                if not ok:
                    bad.append(name)
            if mode == 'rbasex' and nat['image'].dtype != np.float64:
                bad.append('image dtype %s' % nat['image'].dtype)
            if bad:
                what = 'differs from the float64 copy in ' + ', '.join(bad)
        if what:
            key = prefix + ':' + dtype_key(dti, dtw, meth, folds, what)
            params = dict(cfg=cfg, mode=mode, dti=dti, dtw=dtw, exact=bool(exact), radii=radii, nr=nr, tol=tol,
                          IM=[[(float(v) if dti == 'float32' else int(v)) for v in r_] for r_ in IM],
                          W=None if W is None else [[(float(v) if dtw in ('float32', 'float64') else int(v)) for v in r_] for r_ in W])
            fails.append((key, '%s image %dx%d, %s weights, origin %r, rmax %r, order %d, odd %s, %s, use_sin %s: %s'
                          % (dti, h, w, dtw, o, rm, order, odd, meth if mode != 'rbasex' else 'rbasex out=%s' % cfg['out'], sin, what),
                          SNIPPET_DTYPE % dict(params=json.dumps(params)),
                          dict(image_dtype=dti, weights_dtype=dtw, method=meth, folds=bool(folds), shape=[h, w], mode=mode)))
    return fails, n_eval, len(distinct)


# ---------------------------------------------------------------------------
# memory-layout independence: the same values in another memory layout must give
# bit-identical results
# ---------------------------------------------------------------------------
LAYOUTS = ['C', 'F', 'transposed-view', 'strided-view', 'negative-strides', 'read-only', 'F-read-only']

LAYOUT_CODE = '''
def with_layout(A, kind):
    import numpy as np
    A = np.ascontiguousarray(A, dtype=float)
    if kind == 'C':
        B = A.copy()
    elif kind in ('F', 'F-read-only'):
        B = np.asfortranarray(A)
    elif kind == 'transposed-view':
        B = np.ascontiguousarray(A.T).T
    elif kind == 'strided-view':
        big = np.full((2 * A.shape[0] + 1, 3 * A.shape[1] + 2), -7.5)
        big[1::2, 2::3] = A
        B = big[1::2, 2::3]
    elif kind == 'negative-strides':
        B = np.ascontiguousarray(A[::-1, ::-1])[::-1, ::-1]
    elif kind == 'read-only':
        B = A.copy()
    else:
        raise ValueError(kind)
    if kind.endswith('read-only'):
        B.setflags(write=False)
    assert B.shape == A.shape and np.array_equal(A, B)
    return B
'''
exec(LAYOUT_CODE)       # defines with_layout()

SNIPPET_LAYOUT = '''
import json, sys, warnings
import numpy as np
warnings.simplefilter('ignore')
''' + DTYPE_COMPUTE + LAYOUT_CODE + '''
p = json.loads(%(params)r)
cfg = p['cfg']; mode = p['mode']
IM = np.array(p['IM']); W = None if p['W'] is None else np.array(p['W'])
ref = compute(mode, IM.copy(), None if W is None else W.copy(), cfg)
IMv = with_layout(IM, p['layout_image']); Wv = None if W is None else with_layout(W, p['layout_weights'])
im0 = IMv.copy(); w0 = None if Wv is None else Wv.copy()
try:
    nat = compute(mode, IMv, Wv, cfg)
except Exception as e:
    print('layout independence FAILS:', p['layout_image'], 'image /', p['layout_weights'], 'weights raise', type(e).__name__, e); sys.exit(1)
bad = [k for k in ref if not (np.asarray(nat[k]).shape == np.asarray(ref[k]).shape
                               and np.array_equal(np.asarray(nat[k], float), np.asarray(ref[k], float), equal_nan=True))]
if not np.array_equal(IMv, im0) or (Wv is not None and not np.array_equal(Wv, w0)): bad.append('argument modified')
print('layout independence (%%s image, %%s weights, %%s)' %% (p['layout_image'], p['layout_weights'], mode),
      'holds' if not bad else 'FAILS for ' + ', '.join(bad))
sys.exit(0 if not bad else 1)
'''


def layout_search(rng, budget, mode, prefix, methods=('nearest', 'linear', 'remap')):
    """Images / weights as C-contiguous, Fortran-contiguous, transposed view, strided view of a
    larger array, negative-stride view and read-only arrays: every result must be bit-identical
    to that of the C-contiguous copies (and the arguments left intact)."""
    import json
    import warnings
    fails, n_eval, distinct = [], 0, set()
    for it in range(budget):
        meth = methods[rng.integers(len(methods))] if mode != 'rbasex' else 'linear'
        lo = 12 if meth == 'remap' else 4
        h, w = [int(v) for v in rng.integers(lo, lo + 12, 2)]
        if h == w and rng.random() < 0.8:
            w += 1 + int(rng.integers(4))                     # mostly non-square
        k = rng.random()
        if k < 0.35:
            o = (int(rng.integers(h)), int(rng.integers(w)))
        elif k < 0.55:
            o = ORIGIN_STRINGS[rng.integers(len(ORIGIN_STRINGS))]
        elif k < 0.8:
            o = ([0, h - 1][rng.integers(2)], [0, w - 1][rng.integers(2)])              # corner: no folding
        else:
            o = (int(rng.integers(h)), [0, w - 1][rng.integers(2)])                     # left/right edge
        row, col = resolve_origin((h, w), o)
        rm = RMAX_KW[rng.integers(9)] if rng.random() < 0.7 else int(rng.integers(1, max(h, w)))
        order = int(rng.integers(0, 5)) if rng.random() < 0.8 else int(rng.integers(0, 9))
        odd = bool(rng.integers(2))
        orders, odd_r = orders_of(order, odd)
        sin = bool(rng.integers(2)) if mode != 'rbasex' else False
        folds = (col not in (0, w - 1)) if odd_r else not (row in (0, h - 1) and col in (0, w - 1))
        li = LAYOUTS[1 + rng.integers(len(LAYOUTS) - 1)]
        has_w = rng.random() < 0.4
        lw = LAYOUTS[rng.integers(len(LAYOUTS))] if has_w else None
        IM = rng.normal(size=(h, w)) + 2
        W = rng.uniform(0.2, 3, (h, w)) if has_w else None
        cfg = dict(origin=o if isinstance(o, str) else [int(o[0]), int(o[1])], rmax=rm, order=order, odd=odd, use_sin=sin,
                   method=meth, window=int([1, 1, 2, 3][rng.integers(4)]),
                   out=['same', 'fold', 'unfold', 'full', 'full-unique'][rng.integers(5)])
        n_eval += 1
        distinct.add((mode, li, lw, meth if mode != 'rbasex' else 'rbasex', folds, sin, odd_r))
        what = None
        with warnings.catch_warnings(), np.errstate(all='ignore'):
            warnings.simplefilter('ignore')
            try:
                ref = compute(mode, IM.copy(), None if W is None else W.copy(), cfg)
            except Exception:     # noqa  (invalid request also in C order)
                continue
            IMv = with_layout(IM, li)
            Wv = None if W is None else with_layout(W, lw)
            try:
                nat = compute(mode, IMv, Wv, cfg)
                bad = [name for name in ref if not (np.asarray(nat[name]).shape == np.asarray(ref[name]).shape and
                                                     np.array_equal(np.asarray(nat[name], float), np.asarray(ref[name], float),
                                                                    equal_nan=True))]
                if not np.array_equal(IMv, IM) or (Wv is not None and not np.array_equal(Wv, W)):
                    bad.append('argument modified')
                if bad:
                    what = 'differs from the C-contiguous copy in ' + ', '.join(bad)
            except Exception as e:     # noqa
                what = 'exception %s: %s' % (type(e).__name__, str(e)[:100])
        if what:
            key = '%s:layout:image=%s:weights=%s:method=%s:%s' % (prefix, li, lw, meth if mode != 'rbasex' else 'rbasex',
                                                                 'fold' if folds else 'nofold')
            params = dict(cfg=cfg, mode=mode, layout_image=li, layout_weights=lw, IM=IM.tolist(), W=None if W is None else W.tolist())
            fails.append((key, '%s image %dx%d, %s weights, origin %r, rmax %r, order %d, odd %s, %s, use_sin %s: %s'
                          % (li, h, w, lw, o, rm, order, odd, meth if mode != 'rbasex' else 'rbasex out=%s' % cfg['out'], sin, what),
                          SNIPPET_LAYOUT % dict(params=json.dumps(params)),
                          dict(layout_image=li, layout_weights=lw, method=meth, folds=bool(folds), shape=[h, w], mode=mode)))
    return fails, n_eval, len(distinct)
