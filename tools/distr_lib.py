# distr_lib.py — helpers shared by the checks of builder group "distr"
# (C14, C15, C16): Coq literals for Distributions arguments/attributes, case
# generators, exact-model images.
from fractions import Fraction

import numpy as np

import vlib

RMAX_KW = ['hor', 'ver', 'HOR', 'VER', 'min', 'max', 'MIN', 'MAX', 'all']
RMAX_COQ = {'hor': 'Rhor', 'ver': 'Rver', 'HOR': 'RHOR', 'VER': 'RVER', 'min': 'Rmin',
            'max': 'Rmax', 'MIN': 'RMIN', 'MAX': 'RMAX', 'all': 'Rall'}

# location strings: (vertical, horizontal) words and their resolved meaning
VWORDS = {'top': 't', 'upper': 't', 'center': 'c', 'bottom': 'b', 'lower': 'b'}
HWORDS = {'left': 'l', 'center': 'c', 'right': 'r'}
ORIGIN_STRINGS = (['%s %s' % (v, h) for v in VWORDS for h in HWORDS] +
                  ['%s%s' % (v[0], h[0]) for v in VWORDS for h in HWORDS] +
                  ['c', 'center', 'top  left', ' lower right ', 'u l', 'center\tright'])
BAD_ORIGIN_STRINGS = ['x', 'abc', 'a b c', 'cx', 'c ', 'xl', 'top', 'top middle', '', 'bottom left corner']


def origin_coq(o):
    if isinstance(o, str):
        if '"' in o:
            raise ValueError('quote in origin string')
        return '(OStr "%s"%%string)' % o
    return '(OTuple %s %s)' % (vlib.z_lit(int(o[0])), vlib.z_lit(int(o[1])))


def rmax_coq(r):
    if isinstance(r, str):
        return RMAX_COQ.get(r, 'RBad')
    return '(RInt %s)' % vlib.z_lit(int(r))


def sl_coq(s):
    step = 1 if s.step is None else s.step
    if s.start is None or s.stop is None:
        raise ValueError('slice with None bound: %r' % (s,))
    return '(Sl %s %s %s)' % (vlib.z_lit(int(s.start)), vlib.z_lit(int(s.stop)), vlib.z_lit(int(step)))


def nat_rows(a):
    return '[' + '; '.join('[' + '; '.join(str(int(v)) for v in row) + ']' for row in a) + ']%nat'


def bools(a):
    return vlib.list_lit([vlib.bool_lit(bool(b)) for b in a])


def obs_coq(d):
    """geom_obs record of a Distributions object after _precalc."""
    if d.fold:
        regions = vlib.list_lit(['((%s, %s), (%s, %s))' % (sl_coq(src[0]), sl_coq(src[1]), sl_coq(dst[0]), sl_coq(dst[1]))
                                 for src, dst in d.regions])
        flip = '(Sl 0 0 1, Sl 0 0 1)'
    else:
        regions = '[]'
        flip = '(%s, %s)' % (sl_coq(d.flip_row), sl_coq(d.flip_col))
    return ('{| o_row := %d; o_col := %d; o_VER := %d; o_HOR := %d; o_rmax := %d; o_odd := %s; o_N := %d; '
            'o_Qh := %d; o_Qw := %d; o_fold := %s; o_flip := %s; o_regions := %s; o_bin := %s; o_valid := %s |}'
            % (d.row, d.col, d.VER, d.HOR, d.rmax, vlib.bool_lit(d.odd), d.N, d.Qheight, d.Qwidth,
               vlib.bool_lit(d.fold), flip, regions, nat_rows(d.bin), bools(d.valid)))


def folded(d, X):
    """The folded quadrant of array X, through the object's own slices
    (what Distributions.image does at vmi.py:1470-1475)."""
    if d.fold:
        Q = np.zeros((d.Qheight, d.Qwidth))
        for src, dst in d.regions:
            Q[dst] += X[src]
        return Q
    return np.array(X[d.flip_row, d.flip_col], dtype=float)


def sqrt_table(d):
    """(n, numpy.sqrt(n)) for every r^2 of the quadrant."""
    y0 = min(d.row, d.rmax) if d.odd else 0
    ns = sorted({b * b + (y0 - a) ** 2 for a in range(d.Qheight) for b in range(d.Qwidth)})
    return vlib.list_lit(['(%d%%nat, %s)' % (n, vlib.q_lit(float(np.sqrt(float(n))))) for n in ns])


def parse_tuple_result(s):
    """'(a, b, c)' printed by Eval -> list of stripped components (top level)."""
    s = s.strip()
    assert s[0] == '(' and s[-1] == ')', s
    parts, depth, cur = [], 0, ''
    for ch in s[1:-1]:
        if ch in '([':
            depth += 1
        if ch in ')]':
            depth -= 1
        if ch == ',' and depth == 0:
            parts.append(cur.strip())
            cur = ''
        else:
            cur += ch
    parts.append(cur.strip())
    return parts


# ---------------------------------------------------------------------------
# exact-model images  sum_n c_n(r) cos^n(theta)
# ---------------------------------------------------------------------------

def orders_of(order, odd):
    odd = False if order == 0 else (True if order % 2 else odd)
    return list(range(0, order + 1, 1 if odd else 2)), odd


def polar(shape, row, col):
    """r and cos(theta) of every pixel about (row, col); theta from the
    upward vertical, as in Distributions (y = row - i)."""
    i = np.arange(shape[0], dtype=float)[:, None]
    j = np.arange(shape[1], dtype=float)[None, :]
    y = row - i
    x = j - col
    r = np.sqrt(x * x + y * y)
    with np.errstate(all='ignore'):
        cos = np.where(r > 0, y / np.where(r > 0, r, 1), 0.0)
    return r, cos + 0 * r


def model_image(shape, row, col, orders, coef, method):
    """Image equal to sum_n c_n cos^n theta; coef[k] is either a scalar
    (constant over r) or an array indexed by the nearest-integer radius."""
    r, cos = polar(shape, row, col)
    IM = np.zeros(shape)
    rb = np.rint(r).astype(int)
    for n, c in zip(orders, coef):
        c = np.asarray(c, dtype=float)
        cv = c if c.ndim == 0 else c[np.minimum(rb, len(c) - 1)]
        IM = IM + cv * cos ** n
    return IM


def resolve_origin(shape, origin):
    """Reference resolution of an origin specification to (row, col)."""
    h, w = shape
    if isinstance(origin, str):
        s = origin
        if len(s) == 2:
            r, c = s
        elif s in ('c', 'center'):
            r, c = 'c', 'c'
        else:
            r, c = [x[0] for x in s.split()]
        row = {'t': 0, 'u': 0, 'c': h // 2, 'b': h - 1, 'l': h - 1}[r]
        col = {'l': 0, 'c': w // 2, 'r': w - 1}[c]
        return row, col
    row, col = origin
    return (row + h if row < 0 else row), (col + w if col < 0 else col)


def hankel_cond(shape, row, col, W, orders, odd, meth, sin, rmax):
    """Condition number of the normal (Hankel) matrix of every radius,
    computed from the unfolded image pixels (independent of the folding)."""
    r, cos = polar(shape, row, col)
    x = cos if odd else cos * cos
    wt = np.ones(shape) if W is None else W
    if sin:
        with np.errstate(all='ignore'):
            s = np.where(r > 0, np.abs(np.arange(shape[1])[None, :] - col) / np.where(r > 0, r, 1), 1.0)
        wt = wt * s
    N = len(orders)
    conds = np.full(rmax + 1, np.inf)
    if meth == 'nearest':
        parts = [(np.rint(r).astype(int), wt)]
    else:
        fl = np.floor(r).astype(int)
        parts = [(fl, wt * (1 - (r - fl))), (fl + 1, wt * (r - fl))]
    for k in range(rmax + 1):
        H = np.zeros((N, N))
        for b, ww in parts:
            m = (b == k)
            if m.any():
                xs, ws = x[m], ww[m]
                P = np.array([np.sum(ws * xs ** p) for p in range(2 * N - 1)])
                H += np.array([[P[i + j] for j in range(N)] for i in range(N)])
        if np.all(np.isfinite(H)) and np.linalg.matrix_rank(H) == N:
            conds[k] = np.linalg.cond(H)
    return conds




# ---------------------------------------------------------------------------
# dtype independence: integer / float32 images and weights must give the result of
# their float64 copies
# ---------------------------------------------------------------------------
DTYPES = ['uint8', 'int8', 'uint16', 'int16', 'int32', 'uint32', 'int64', 'float32']


def dtype_array(rng, dt, shape, signed_values=False):
    """Array of the given dtype with values up to the type's maximum (and down to its
    minimum for signed types when signed_values); float32: positive values ~1e3."""
    d = np.dtype(dt)
    if d.kind == 'f':
        a = rng.uniform(0.5, 1.5, shape) * 1e3
        if signed_values:
            a = a * rng.choice([-1.0, 1.0], shape)
        return a.astype(d)
    info = np.iinfo(d)
    a = rng.integers(info.max // 2, info.max, shape, endpoint=True, dtype=np.int64 if d != np.uint64 else np.uint64)
    k = rng.random(shape)
    a = np.where(k < 0.15, info.max, a)                       # the maximum itself
    a = np.where(k > 0.9, rng.integers(0, 4, shape), a)       # and a few small values
    if signed_values and info.min < 0:
        neg = rng.random(shape) < 0.3
        a = np.where(neg, -a - 1, a)                           # down to the minimum
    return a.astype(d)


def dtype_exact(dti, dtw, method, folds):
    """True when the native-dtype computation performs, after exact conversions, the same
    binary64 operations as the float64 copies (so results must be bit-identical):
    everything except a float32 weights array (the product weights * image is rounded to
    float32 for narrow images) and 'remap' of an unfolded float32 image (scipy resamples
    in the input's precision)."""
    if dtw == 'float32':
        return False
    if dti == 'float32' and method == 'remap' and not folds:
        return False
    return True


def dtype_key(dti, dtw, method, folds, what):
    """Classification of a dtype disagreement: the three candidate defects of the current
    tree get their own keys, anything else a key naming the dtypes."""
    ki = np.dtype(dti).kind
    kw = None if dtw in (None, 'float64') else np.dtype(dtw).kind
    if kw in ('i', 'u') and method == 'remap' and what.startswith('exception'):
        return 'dtype:remap-integer-weights-raise'
    if kw in ('i', 'u') and ki in ('i', 'u'):
        return 'dtype:integer-weights-times-integer-image-wrap'
    if ki in ('i', 'u') and method == 'remap' and not folds:
        return 'dtype:remap-unfolded-integer-image-rounded'
    return 'dtype:image=%s:weights=%s:method=%s:%s' % (dti, dtw, method, 'fold' if folds else 'nofold')
