# Rewrites sections 8.3-8.8 of /verif/DESIGN.md from KNOWN_FINDINGS.json, seeded/*/meta.json,
# the props files and the evidence (run by hand after integration work; result committed).
import glob
import io
import json
import re
import subprocess
import sys

sys.path.insert(0, '/verif/tools')
import vlib

out = io.StringIO()
w = lambda *a: print(*a, file=out)
kf = json.load(open('/verif/KNOWN_FINDINGS.json'))

w('### 8.3 Defects of PyAbel found')
w()
w('All of these were found by the checks on the tree as received (each with a concrete failing input / history),')
w('most of them predicted by the hand probes of section 4, several new.  Repaired by `fix:` commits in `/repo`')
w('(one per defect, minimal, test suite unedited and passing after each; listed in `KNOWN_FINDINGS.json` under')
w('`fixed`, where an entry suppresses nothing: the checks pass on the repaired tree and report the violation again')
w('if it returns -- reverting each fix in a scratch worktree was used as a regression mutant):')
w()
w('| commit | property | what failed (failing input) |')
w('|--------|----------|------------------------------|')
for f in kf['fixed']:
    m = re.match(r'fixed: property=(\S+) (\S+) (.*)', f)
    w('| %s | %s | %s |' % (m.group(2), m.group(1), m.group(3).replace('|', '\\|')))
w()
w('Recorded, not repaired (printed as `KNOWN-FINDING` by the owning check, matched by a key that identifies the')
w('specific failing input class; any other violation of the same property is still reported):')
w()
w('| key | property | what fails | why recorded |')
w('|-----|----------|------------|--------------|')
for f in kf['findings']:
    w('| `%s` | %s | %s | %s |' % (f['key'].replace('|', '\\|'), f['property'], f['what'].replace('|', '\\|'),
                                  f.get('why_not_fixed', '').replace('|', '\\|')))
w()
w('Disposition of the candidates of section 4: F1-F6, F8-F20 are repaired or recorded as above (F7, withdrawn in')
w('section 4, was re-opened by the C08 check: `numpy.save` issues three writes when the payload is not a multiple of')
w('4096 bytes, the refuted three-chunk schedule applies, and saving was made atomic); F21/F22 are the recorded')
w('refinement floors; F23 (theta grid of `reproject_image_into_polar`) is treated as a discretisation tolerance')
w('(O(1/size), documented in the C19 evidence), not as a finding.')
w()
w('### 8.4 Seeded changes (independent sub-agents, property text only)')
w()
w('Each sub-agent got only the text of one property and its own scratch worktree, and produced two changes that')
w('break the property while the test suite still passes, with a demonstration.  Confirmed here with')
w('`tools/selftest/try_seed.sh` (demo passes on the clean tree, fails with the change; checks run with')
w('`VERIF_REPO=<worktree>`); stored under `/verif/seeded/<id>/`.')
w()
w('| id | needs | caught by | missed at first |')
w('|----|-------|-----------|-----------------|')
n_missed = 0
metas = [json.load(open(p)) for p in sorted(glob.glob('/verif/seeded/*/meta.json'))]
for m in metas:
    n_missed += bool(m.get('missed_before_strengthening'))
    w('| %s | %s | %s | %s |' % (m['id'], m['needs_to_manifest'].replace('|', '\\|'),
                                '; '.join(m['caught_by']).replace('|', '\\|'),
                                'yes' if m.get('missed_before_strengthening') else 'no'))
w()
w('%d seeded changes; %d were missed by the first version of the owning check and led to a strengthening' % (len(metas), n_missed))
w('(call-sequence clause in C05, near-miss option values in C20, negative fractional origins in C12, non-default')
w('wrapper arguments in C17, interleaved calls and masked weights in C18, window clauses in C15, and whatever the')
w('table says for the later ones).  Besides these, every builder validated its check with 2-14 hand mutants and')
w('harmless refactors (listed in `/verif/agent_reports/*.md`).')
w()
w('### 8.5 False alarms of the machinery that were corrected')
w()
w('* C06 correspondence: relative-only tolerance flagged FFT round-off near zero; `qclose` now has an absolute floor')
w('  (2^-40 (1+max)).')
w('* C05 `centering_delegated`: `origin=\'slice\'` can produce an empty centred image on which any method fails;')
w('  degenerate centred images are skipped (centring itself is C12/C13).')
w('* C05/C06 case files depended on `.vo` files that were not dependencies of the property file (stale objects,')
w('  "inconsistent assumptions"); they are now explicit build targets of the check.')
w('* C13 search: scaling the convolution test by an arbitrary real factor can flip exact ties of float sums; the')
w('  generator now uses exactly representable factors.')
w('* `coqchk` re-checking Interval recursively took > 25 min and was reported as a broken proof; it now re-checks')
w('  only this development\'s modules (`-norec`), and a time-out is recorded, not reported as a violation.')
w('* Evidence `obligations` of C03/C04/C17 counted numeric validations; only Coq theorems/goals are counted now.')
w('* After the cache/poly fixes landed, the C18 alias translator and the C03/C04/C17 symbolic executor reported')
w('  "translator no longer checks ... no-failing-input-found" (new `IfExp`, `os.getpid`, nested `remember()`): the')
w('  code was right; the translators\' vocabularies were extended (still fail-closed).')
w()
w('### 8.6 Status per property (as built)')
w()
w('| prop | theorems in props/Cxx.v | partial / refuted statements | obligations counted on a quick run | tie | recorded findings |')
w('|------|------|------|------|------|------|')
man = {c['property_id']: c for c in json.load(open('/verif/MANIFEST.json'))['checks']}
for i in range(1, 21):
    pid = 'C%02d' % i
    th = vlib.theorems_in('props/%s.v' % pid)
    part = [t for t in th if 'partial' in t or 'refuted' in t]
    ev = json.load(open('/verif/evidence/%s.json' % pid))['coverage']
    kfs = [f['key'] for f in kf['findings'] if f['property'] == pid]
    w('| %s | %d | %s | %s | %s | %s |' % (pid, len(th), ', '.join('`%s`' % t for t in part) or '-',
                                         ev.get('obligations'), man[pid]['technique'], ', '.join('`%s`' % k.replace('|', '\\|') for k in kfs) or '-'))
w()
w('`_refuted` statements that remain are sensitivity or model-sanity theorems (C08 three-chunk in-place writer,')
w('C18 checker rejects a parameter write / a returned cache, C11 profile 4 is not exact), not unrepaired defects,')
w('except C11 profile 4 which is the recorded finding.  What each `_partial` leaves out is stated in the comment above')
w('it in the props file and in the MANIFEST `level_note`.')
w()
w('### 8.7 Trusted base as built')
w()
w('* Coq 8.16.1 kernel, `vm_compute` (correspondence files, finite-domain theorems, Interval); no `native_compute`;')
w('  `coqchk -o -norec` on the modules of this development in every thorough run (installed libraries are taken as')
w('  compiled).')
w('* Axioms reported by `Print Assumptions` (copied into each evidence file): the standard-library real-number')
w('  axioms (`ClassicalDedekindReals.sig_forall_dec`, `sig_not_dec`), `FunctionalExtensionality.functional_extensionality_dep`,')
w('  `Classical_Prop.classic` where Coquelicot is used, and the primitive-integer/float axioms Interval computes with')
w('  (C01, C02, C09-C11, C19 instances).  C03, C07, C08, C18, C20 are closed under the global context.  Nothing is')
w('  declared by this development (`scan_forbidden` runs on every check).')
w('* Translators (validated, not verified): `tools/translate/*.py` -- symmetry_src, transform_src, dir_guards,')
w('  matrix_expr (+ _symexec), dr_sites, formulas_basis, formulas_polar, formulas_pairs, angular_sub, approx_gaussian,')
w('  profile6_inst, vmi_inv, alias_prog (+ the committed numpy/scipy aliasing summaries `_alias_numpy.py`).')
w('* Correspondence harnesses and generators under `tools/props/`, oracles under `tools/oracle/`.')
w('* External code by specification: LAPACK/BLAS (`inv`, `solve_triangular` = multiplication by `invmx`), `nnls`,')
w('  `curve_fit`, `scipy.ndimage` (`shift` order 1 = linear interpolation, validated; orders 2-5 swept), FFT (DFT shift')
w('  identity for the Fourier symmetrisation), `numpy.save/load` (cross-checked byte for byte in C08).')
w('* Mathematical facts used but not proved: value of the Gaussian integral (enclosed by Interval on a finite range')
w('  plus a tail bound), equivalence of the proper and singular forms of the Abel integral.')
w('* binary64 arithmetic approximates the exact model (tolerances stated per check).')
w('* No extraction is used (no `Extract Constant` / `Extract Inductive`).')
w()
w('### 8.8 How the work was organised')
w()
w('The infrastructure and C05, C06, C20 were built first by hand; the other properties were built in parallel by')
w('eight builder sub-agents following `tools/BUILDER_GUIDE.md`, each with its own files, reports in')
w('`/verif/agent_reports/`, proposed patches in `/verif/patches/` (kept as a record; the applied ones are the `fix:`')
w('commits above).  Integration, all `/repo` commits, `KNOWN_FINDINGS.json`, `MANIFEST.json` and the seeded-change')
w('campaign were done centrally.')

s = open('/verif/DESIGN.md').read()
a = s.index('### 8.3 Defects of PyAbel found')
s = s[:a] + out.getvalue()
open('/verif/DESIGN.md', 'w').write(s)
print('ok', len(out.getvalue().splitlines()))
