# transform_src.py — fail-closed translator: abel/transform.py -> coq/gen/TransformGen.v
#
# Regenerates from the AST of the current source
#   verify_inputs_gen    : the input checks of Transform._verify_some_inputs that
#                          concern shape, quadrants and symmetry_axis
#   by_quadrant_gen      : Transform._abel_transform_image_by_quadrant (which
#                          quadrants are transformed, how the result is put together)
# in the vocabulary of coq/model/TransformPipe.v.  coq/proofs/TransformGenEq.v
# proves that their composition is the hand-written model transform_model.
#
# Everything outside the recognised statement patterns raises Unsupported.
import ast
import os

import vlib


class Unsupported(Exception):
    pass


def src(n):
    return ast.unparse(n)


def method(tree, cls, name):
    for c in tree.body:
        if isinstance(c, ast.ClassDef) and c.name == cls:
            for f in c.body:
                if isinstance(f, ast.FunctionDef) and f.name == name:
                    return f
    raise Unsupported('method %s.%s not found' % (cls, name))


def cond_axis(test):
    """X [not] in self._symmetry_axis"""
    if (isinstance(test, ast.Compare) and len(test.ops) == 1
            and src(test.comparators[0]) == 'self._symmetry_axis' and isinstance(test.left, ast.Constant)):
        v = test.left.value
        has = '(ax_has_none a)' if v is None else '(ax_has %d a)' % v
        if isinstance(test.ops[0], ast.NotIn):
            return '(negb %s)' % has
        if isinstance(test.ops[0], ast.In):
            return has
    raise Unsupported('condition: ' + src(test))


def gen_by_quadrant(f):
    lets = []
    seen_get = seen_put = False
    aq = {}
    for s in f.body:
        t = src(s)
        if isinstance(s, ast.Assign) and src(s.targets[0]) == 'abel_transform' and isinstance(s.value, ast.Dict):
            continue                                   # method-name table (dispatch: property C20)
        if isinstance(s, ast.Expr) and t.startswith('self._verboseprint('):
            continue
        if t.startswith('t0 = time.time()'):
            continue
        if isinstance(s, ast.FunctionDef) and s.name == 'selected_transform':
            body = src(s.body[0]) if len(s.body) == 1 else ''
            if body != 'return abel_transform[self.method](Z, direction=self.direction, **transform_options)':
                raise Unsupported('selected_transform changed: ' + body)
            continue
        if isinstance(s, ast.Assign) and src(s.targets[0]).strip('()') == 'Q0, Q1, Q2, Q3':
            want = ('tools.symmetry.get_image_quadrants(self.IM, reorient=True, use_quadrants=self._use_quadrants, '
                    'symmetry_axis=self._symmetry_axis, symmetrize_method=self._symmetrize_method)')
            if src(s.value) != want:
                raise Unsupported('get_image_quadrants call changed: ' + src(s.value))
            seen_get = True
            continue
        if isinstance(s, ast.Assign) and all(isinstance(x, ast.Name) and x.id.startswith('AQ') for x in s.targets):
            if isinstance(s.value, ast.Constant) and s.value.value is None:
                for x in s.targets:
                    aq[x.id] = '[]'                      # None: never used by put for this symmetry
                continue
            if (isinstance(s.value, ast.Call) and src(s.value.func) == 'selected_transform'
                    and len(s.targets) == 1 and len(s.value.args) == 1 and isinstance(s.value.args[0], ast.Name)):
                aq[s.targets[0].id] = '(T %s)' % s.value.args[0].id
                continue
        if isinstance(s, ast.If) and not s.orelse and len(s.body) == 1:
            b = s.body[0]
            if (isinstance(b, ast.Assign) and len(b.targets) == 1 and isinstance(b.targets[0], ast.Name)
                    and b.targets[0].id.startswith('AQ') and isinstance(b.value, ast.Call)
                    and src(b.value.func) == 'selected_transform' and isinstance(b.value.args[0], ast.Name)):
                name = b.targets[0].id
                aq[name] = '(if %s then (T %s) else %s)' % (cond_axis(s.test), b.value.args[0].id, aq.get(name, '[]'))
                continue
        if isinstance(s, ast.Assign) and src(s.targets[0]) == 'self.transform':
            want = ('tools.symmetry.put_image_quadrants((AQ0, AQ1, AQ2, AQ3), original_image_shape=self.IM.shape, '
                    'symmetry_axis=self._symmetry_axis)')
            if src(s.value) != want:
                raise Unsupported('put_image_quadrants call changed: ' + src(s.value))
            seen_put = True
            continue
        raise Unsupported('statement in _abel_transform_image_by_quadrant: ' + t[:90])
    if not (seen_get and seen_put and set(aq) == {'AQ0', 'AQ1', 'AQ2', 'AQ3'}):
        raise Unsupported('_abel_transform_image_by_quadrant: missing get/put/AQ assignments')
    return ('  Definition by_quadrant_gen (a : axis) (u : mask) (meth : smethod) (IM : list (list A)) : result (list (list A)) :=\n'
            '    match get_quadrants zero add divn IM true a u meth with\n'
            '    | ValueError => ValueError\n'
            '    | Ok (Q0, Q1, Q2, Q3) =>\n'
            '      let AQ0 := %s in let AQ1 := %s in let AQ2 := %s in let AQ3 := %s in\n'
            '      Ok (put_quadrants (AQ0, AQ1, AQ2, AQ3) (nrows IM) (ncols IM) a)\n'
            '    end.\n' % (aq['AQ0'], aq['AQ1'], aq['AQ2'], aq['AQ3']))


def gen_verify(f):
    """The checks of _verify_some_inputs that concern shape, quadrants and
    symmetry_axis (all raise ValueError, so their relative order with the
    other checks -- direction, rbasex options: property C20 -- does not matter
    to the model)."""
    found = set()
    for s in f.body:
        t = src(s)
        if isinstance(s, ast.If) and src(s.test) == 'self.IM.ndim == 1 or np.shape(self.IM)[0] <= 2':
            if not (len(s.body) == 1 and isinstance(s.body[0], ast.Raise) and not s.orelse):
                raise Unsupported('shape check changed')
            found.add('shape')
        elif isinstance(s, ast.If) and src(s.test) == 'not np.any(self._use_quadrants)':
            if not (len(s.body) == 1 and isinstance(s.body[0], ast.Raise) and not s.orelse):
                raise Unsupported('use_quadrants check changed')
            found.add('quadrants')
        elif isinstance(s, ast.If) and src(s.test) == 'not isinstance(self._symmetry_axis, (list, tuple))':
            ok = (src(s.body[0]) == 'self._symmetry_axis = [self._symmetry_axis]' and len(s.body) == 1
                  and len(s.orelse) == 1 and isinstance(s.orelse[0], ast.If)
                  and src(s.orelse[0].test) == 'len(self._symmetry_axis) == 0'
                  and src(s.orelse[0].body[0]) == 'self._symmetry_axis = [None]'
                  and len(s.orelse[0].body) == 1 and not s.orelse[0].orelse)
            if not ok:
                raise Unsupported('symmetry_axis normalisation changed')
            found.add('axis')
        else:
            # anything else must not touch the image shape, the quadrants or the axis
            for name in ('_use_quadrants', '_symmetry_axis', '_symmetrize_method', 'np.shape', '.ndim'):
                if name in t:
                    raise Unsupported('unexpected use of %s in _verify_some_inputs: %s' % (name, t[:80]))
    if found != {'shape', 'quadrants', 'axis'}:
        raise Unsupported('_verify_some_inputs: checks found: %s' % sorted(found))
    return ('  Definition verify_inputs_gen (a0 : axis) (u : mask) (IM : list (list A)) : result axis :=\n'
            '    if Nat.leb (nrows IM) 2 then ValueError else\n'
            '    if Nat.eqb (mask_count u) 0 then ValueError else\n'
            '    Ok (match ax_elems a0 with [] => ax_None | _ => a0 end).\n')


def check_dispatch(tree):
    """_abel_transform_image: linbasex / rbasex go to the full-image functions,
    everything else by quadrant."""
    f = method(tree, 'Transform', '_abel_transform_image')
    ifs = [s for s in f.body if isinstance(s, ast.If)]
    if len(ifs) != 1:
        raise Unsupported('_abel_transform_image structure changed')
    s = ifs[0]
    want = ("if self.method == 'linbasex':\n    self._abel_transform_image_full_linbasex(**transform_options)\n"
            "elif self.method == 'rbasex':\n    self._abel_transform_image_full_rbasex(**transform_options)\n"
            "else:\n    self._abel_transform_image_by_quadrant(**transform_options)")
    if src(s) != want:
        raise Unsupported('_abel_transform_image dispatch changed')


def generate():
    path = os.path.join(vlib.REPO, 'abel', 'transform.py')
    tree = ast.parse(open(path).read())
    check_dispatch(tree)
    text = ('(* GENERATED by tools/translate/transform_src.py from abel/transform.py -- do not edit. *)\n'
            'From Coq Require Import List Arith Bool ZArith.\n'
            'From PA Require Import base.Arr model.Symmetry model.TransformPipe.\nImport ListNotations.\n\n'
            'Section Gen.\n  Variable A : Type.\n  Variable zero : A.\n  Variable add : A -> A -> A.\n'
            '  Variable divn : A -> nat -> A.\n  Variable T : list (list A) -> list (list A).\n\n')
    text += gen_verify(method(tree, 'Transform', '_verify_some_inputs')) + '\n'
    text += gen_by_quadrant(method(tree, 'Transform', '_abel_transform_image_by_quadrant'))
    text += ('\n  Definition transform_gen (a0 : axis) (u : mask) (meth : smethod) (IM : list (list A)) : result (list (list A)) :=\n'
             '    match verify_inputs_gen a0 u IM with\n    | ValueError => ValueError\n'
             '    | Ok a => by_quadrant_gen a u meth IM\n    end.\nEnd Gen.\n')
    vlib.write_if_changed(os.path.join(vlib.COQ, 'gen', 'TransformGen.v'), text)
    return text


if __name__ == '__main__':
    print(generate())
