# symmetry_src.py — fail-closed translator: abel/tools/symmetry.py -> coq/gen/SymmetryGen.v
#
# Re-generates, from the Python AST of the *current* source, Gallina definitions
#   get_quadrants_gen   (get_image_quadrants, symmetry.py)
#   put_quadrants_gen   (put_image_quadrants)
# in the vocabulary of coq/base/Arr.v and coq/model/Symmetry.v.  The committed
# file coq/proofs/SymmetryGenEq.v proves that these generated functions are
# equal to the hand-written model the C06/C05 theorems are about, so a change
# to the source either leaves that proof intact (harmless rewrite inside the
# supported vocabulary) or breaks a proof obligation.
#
# Supported subset (anything else raises Unsupported = the tie is broken):
#   assignments (also chained and tuple targets), if/elif/else, return, raise,
#   docstrings, warnings.warn(...); image expressions built from 2-D basic
#   slices [:e] [-e:] [:-1] [1:] [:], np.fliplr/flipud/concatenate, +, /count,
#   *use_quadrants[k]; conditions on symmetry_axis / use_quadrants / reorient /
#   symmetrize_method / shape parity.  The nested helper real_components() must
#   have exactly the recorded AST (it is modelled by the DFT shift identity).
import ast
import os

import vlib


class Unsupported(Exception):
    pass


REAL_COMPONENTS_SRC = """def real_components(IM):
    m = IM.shape[1]
    phase = np.exp(1j * np.pi * np.arange(m) * (m - 1) / m)
    return fftpack.ifft((fftpack.fft(IM) * phase).real / phase).real"""


def src(node):
    return ast.unparse(node)


def is_name(n, name=None):
    return isinstance(n, ast.Name) and (name is None or n.id == name)


def const(n):
    if isinstance(n, ast.Constant):
        return n.value
    if isinstance(n, ast.UnaryOp) and isinstance(n.op, ast.USub) and isinstance(n.operand, ast.Constant):
        return -n.operand.value
    raise Unsupported('constant expected: ' + src(n))


def is_np(call, name):
    return (isinstance(call, ast.Call) and isinstance(call.func, ast.Attribute)
            and is_name(call.func.value, 'np') and call.func.attr == name)


class Tr:
    """Translator for one function body.  `mask` is the Python name of the
    use_quadrants parameter (None for put), `shape` the (rows, cols) Coq names of
    original_image_shape (put)."""

    def __init__(self, mask=None, shape=None, ret_ok=True):
        self.mask = mask
        self.shape = shape
        self.ret_ok = ret_ok

    # ---- scalars ---------------------------------------------------------
    def nat(self, n):
        if isinstance(n, ast.Constant) and isinstance(n.value, int) and n.value >= 0:
            return str(n.value)
        if isinstance(n, ast.Name):
            return n.id
        if isinstance(n, ast.BinOp):
            op = {ast.Add: '+', ast.FloorDiv: '/', ast.Mod: 'mod'}.get(type(n.op))
            if op:
                return '(%s %s %s)' % (self.nat(n.left), op, self.nat(n.right))
        if self.shape and isinstance(n, ast.Subscript) and is_name(n.value, 'original_image_shape'):
            return self.shape[const(n.slice)]
        raise Unsupported('nat expression: ' + src(n))

    def ubit(self, n):
        """use_quadrants[k] -> (uk use_quadrants)"""
        if (self.mask and isinstance(n, ast.Subscript) and is_name(n.value, self.mask)
                and const(n.slice) in (0, 1, 2, 3)):
            return '(u%d %s)' % (const(n.slice), self.mask)
        raise Unsupported('use_quadrants[k] expected: ' + src(n))

    def count(self, n):
        """number of enabled quadrants: np.sum(use_quadrants) or u[i] + u[j]"""
        if is_np(n, 'sum') and len(n.args) == 1 and is_name(n.args[0], self.mask):
            return '(mask_count %s)' % self.mask
        if isinstance(n, ast.BinOp) and isinstance(n.op, ast.Add):
            return '(b2n %s + b2n %s)' % (self.ubit(n.left), self.ubit(n.right))
        raise Unsupported('quadrant count expected: ' + src(n))

    # ---- conditions -----------------------------------------------------------
    def axis_literal(self, n):
        if isinstance(n, (ast.List, ast.Tuple)):
            els = []
            for e in n.elts:
                v = const(e)
                els.append('None' if v is None else 'Some %d%%Z' % v)
            return isinstance(n, ast.Tuple), '[' + '; '.join(els) + ']'
        raise Unsupported('axis literal: ' + src(n))

    def cond(self, n):
        if isinstance(n, ast.BoolOp):
            op = ' && ' if isinstance(n.op, ast.And) else ' || '
            return '(' + op.join(self.cond(v) for v in n.values) + ')'
        if isinstance(n, ast.UnaryOp) and isinstance(n.op, ast.Not):
            if is_np(n.operand, 'any') and is_name(n.operand.args[0], self.mask):
                return '(Nat.eqb (mask_count %s) 0)' % self.mask
            return '(negb %s)' % self.cond(n.operand)
        if isinstance(n, ast.Name) and n.id == 'reorient':
            return 'reorient'
        if isinstance(n, ast.Compare) and len(n.ops) == 1:
            l, op, r = n.left, n.ops[0], n.comparators[0]
            if isinstance(op, ast.Eq) and is_name(l, 'symmetry_axis'):
                tup, lit = self.axis_literal(r)
                if tup:
                    return '(ax_tuple symmetry_axis && oz_list_eqb (ax_elems symmetry_axis) %s)' % lit
                return '(ax_is_list %s symmetry_axis)' % lit
            if isinstance(op, ast.Eq) and is_name(l, 'symmetrize_method'):
                v = const(r)
                if v == 'fourier':
                    return '(is_fourier symmetrize_method)'
                if v == 'average':
                    return '(is_average symmetrize_method)'
            if isinstance(op, ast.Eq) and isinstance(r, ast.Constant) and r.value is False:
                return '(negb %s)' % self.ubit(l)
            if isinstance(op, ast.In) and is_name(r, 'symmetry_axis'):
                v = const(l)
                if v is None:
                    return '(existsb (oz_eqb None) (ax_elems symmetry_axis))'
                return '(ax_has %d symmetry_axis)' % v
            if isinstance(op, ast.Lt) and is_np(l, 'sum') and is_name(l.args[0], self.mask):
                return '(Nat.ltb (mask_count %s) %d)' % (self.mask, const(r))
        if is_np(n, 'any'):
            raise Unsupported('np.any outside not')
        if (isinstance(n, ast.Call) and is_name(n.func, 'isinstance') and is_name(n.args[0], 'symmetry_axis')
                and is_name(n.args[1], 'tuple')):
            return '(ax_tuple symmetry_axis)'
        # truth value of  <nat> % 2
        if isinstance(n, ast.BinOp) and isinstance(n.op, ast.Mod) and const(n.right) == 2:
            return '(Nat.eqb (%s mod 2) 1)' % self.nat(n.left)
        raise Unsupported('condition: ' + src(n))

    # ---- images ------------------------------------------------------------
    def slice1(self, s):
        """classify a 1-D basic slice: ('all',) ('first', e) ('last', e) ('droplast', k) ('dropfirst', k)"""
        if not isinstance(s, ast.Slice) or s.step is not None:
            raise Unsupported('slice: ' + src(s))
        lo, hi = s.lower, s.upper
        if lo is None and hi is None:
            return ('all',)
        if lo is None:
            if isinstance(hi, ast.UnaryOp) and isinstance(hi.op, ast.USub):
                return ('droplast', self.nat(hi.operand))
            return ('first', self.nat(hi))
        if hi is None:
            if isinstance(lo, ast.UnaryOp) and isinstance(lo.op, ast.USub):
                return ('last', self.nat(lo.operand))
            return ('dropfirst', self.nat(lo))
        raise Unsupported('slice with both bounds: ' + src(s))

    def img(self, n):
        if isinstance(n, ast.Name):
            return n.id
        if isinstance(n, ast.Subscript):
            base = self.img(n.value)
            sl = n.slice
            # flips written as slices: X[::-1] == flipud(X), X[:, ::-1] == fliplr(X)
            def is_rev(x):
                return (isinstance(x, ast.Slice) and x.lower is None and x.upper is None
                        and x.step is not None and src(x.step) == '-1')
            def is_all(x):
                return isinstance(x, ast.Slice) and x.lower is None and x.upper is None and x.step is None
            if is_rev(sl) or (isinstance(sl, ast.Tuple) and len(sl.elts) == 2 and is_rev(sl.elts[0]) and is_all(sl.elts[1])):
                return '(flipud %s)' % base
            if isinstance(sl, ast.Tuple) and len(sl.elts) == 2 and is_all(sl.elts[0]) and is_rev(sl.elts[1]):
                return '(fliplr %s)' % base
            if isinstance(sl, ast.Tuple) and len(sl.elts) == 2 and is_rev(sl.elts[0]) and is_rev(sl.elts[1]):
                return '(fliplr (flipud %s))' % base
            if isinstance(sl, ast.Tuple) and len(sl.elts) == 2:
                r, c = self.slice1(sl.elts[0]), self.slice1(sl.elts[1])
            else:
                r, c = self.slice1(sl), ('all',)
            rows = {'all': '%s', 'first': 'rows_first {0} (%s)', 'last': 'rows_last {0} (%s)',
                    'droplast': 'rows_droplast {0} (%s)'}
            cols = {'all': '%s', 'first': 'cols_first {0} (%s)', 'last': 'cols_last {0} (%s)',
                    'dropfirst': 'cols_dropfirst {0} (%s)'}
            if r[0] not in rows or c[0] not in cols:
                raise Unsupported('slice kind: ' + src(n))
            e = rows[r[0]].format(*r[1:]) % base
            return '(' + cols[c[0]].format(*c[1:]) % e + ')'
        if is_np(n, 'fliplr'):
            return '(fliplr %s)' % self.img(n.args[0])
        if is_np(n, 'flipud'):
            return '(flipud %s)' % self.img(n.args[0])
        if is_np(n, 'flip') and len(n.args) == 1 and len(n.keywords) == 1 and n.keywords[0].arg == 'axis':
            return '(%s %s)' % ({0: 'flipud', 1: 'fliplr'}[const(n.keywords[0].value)], self.img(n.args[0]))
        if is_np(n, 'flip') and len(n.args) == 2:
            return '(%s %s)' % ({0: 'flipud', 1: 'fliplr'}[const(n.args[1])], self.img(n.args[0]))
        if is_np(n, 'concatenate'):
            parts = n.args[0]
            ax = [k for k in n.keywords if k.arg == 'axis']
            if not (isinstance(parts, ast.Tuple) and len(parts.elts) == 2 and len(ax) == 1):
                raise Unsupported('concatenate: ' + src(n))
            f = {1: 'hcat', 0: 'vcat'}[const(ax[0].value)]
            return '(%s %s %s)' % (f, self.img(parts.elts[0]), self.img(parts.elts[1]))
        if isinstance(n, ast.BinOp):
            if isinstance(n.op, ast.Add):
                return '(imadd add %s %s)' % (self.img(n.left), self.img(n.right))
            if isinstance(n.op, ast.Div):
                return '(imdiv divn %s %s)' % (self.count(n.right), self.img(n.left))
            if isinstance(n.op, ast.Mult):
                return '(immask zero %s %s)' % (self.ubit(n.right), self.img(n.left))
        if (isinstance(n, ast.Call) and is_name(n.func, 'real_components') and len(n.args) == 1):
            return '(fourier_lr add divn %s)' % self.img(n.args[0])
        # real_components(IM.T).T
        if (isinstance(n, ast.Attribute) and n.attr == 'T' and isinstance(n.value, ast.Call)
                and is_name(n.value.func, 'real_components') and isinstance(n.value.args[0], ast.Attribute)
                and n.value.args[0].attr == 'T'):
            return '(fourier_ud add divn %s)' % self.img(n.value.args[0].value)
        raise Unsupported('image expression: ' + src(n))

    def value(self, n):
        """right-hand side of an assignment"""
        if (isinstance(n, ast.Tuple) and len(n.elts) == 4
                and all(isinstance(e, ast.Constant) and e.value is True for e in n.elts)):
            return 'mask_all'
        if isinstance(n, ast.BinOp) and isinstance(n.op, (ast.FloorDiv, ast.Mod)):
            return self.nat(n)
        if isinstance(n, ast.BinOp) and isinstance(n.op, ast.Add):
            try:
                return self.nat(n)
            except Unsupported:
                pass
        return self.img(n)

    # ---- statements ----------------------------------------------------------
    @staticmethod
    def terminates(stmts):
        if not stmts:
            return False
        s = stmts[-1]
        if isinstance(s, (ast.Return, ast.Raise)):
            return True
        if isinstance(s, ast.If):
            return Tr.terminates(s.body) and Tr.terminates(s.orelse)
        return False

    @staticmethod
    def assigned(stmts):
        out = []
        for s in stmts:
            if isinstance(s, ast.Assign):
                for t in s.targets:
                    for n in (t.elts if isinstance(t, ast.Tuple) else [t]):
                        if not isinstance(n, ast.Name):
                            raise Unsupported('assignment target: ' + src(t))
                        if n.id not in out:
                            out.append(n.id)
            elif isinstance(s, ast.If):
                for v in Tr.assigned(s.body) + Tr.assigned(s.orelse):
                    if v not in out:
                        out.append(v)
        return out

    @staticmethod
    def only_float_conversions(stmts):
        """every statement is  X = X.astype(float)  or
        A, B, .. = [Q.astype(float) for Q in (A, B, ..)]"""
        def is_astype_float(call, name):
            return (isinstance(call, ast.Call) and isinstance(call.func, ast.Attribute) and call.func.attr == 'astype'
                    and is_name(call.func.value, name) and len(call.args) == 1 and not call.keywords
                    and src(call.args[0]) in ('float', 'np.float64'))
        if not stmts:
            return False
        for st in stmts:
            if not (isinstance(st, ast.Assign) and len(st.targets) == 1):
                return False
            t, v = st.targets[0], st.value
            if isinstance(t, ast.Name) and is_astype_float(v, t.id):
                continue
            if (isinstance(t, ast.Tuple) and all(isinstance(e, ast.Name) for e in t.elts)
                    and isinstance(v, (ast.ListComp, ast.GeneratorExp)) and len(v.generators) == 1
                    and not v.generators[0].ifs and isinstance(v.generators[0].target, ast.Name)
                    and is_astype_float(v.elt, v.generators[0].target.id)
                    and isinstance(v.generators[0].iter, (ast.Tuple, ast.List))
                    and [src(e) for e in v.generators[0].iter.elts] == [e.id for e in t.elts]):
                continue
            return False
        return True

    def block(self, stmts, tail=None):
        """Coq expression for executing stmts; `tail` is what falling off the end
        evaluates to (None: falling off is unsupported)."""
        if not stmts:
            if tail is None:
                raise Unsupported('control falls off the end of the function')
            return tail
        s, rest = stmts[0], stmts[1:]
        if isinstance(s, ast.Expr):
            v = s.value
            if isinstance(v, ast.Constant) and isinstance(v.value, str):
                return self.block(rest, tail)              # docstring
            if (isinstance(v, ast.Call) and isinstance(v.func, ast.Attribute)
                    and is_name(v.func.value, 'warnings') and v.func.attr == 'warn'):
                return self.block(rest, tail)              # a warning has no effect on the value
            raise Unsupported('expression statement: ' + src(s))
        if isinstance(s, ast.FunctionDef):
            if s.name != 'real_components' or ast.unparse(s) != REAL_COMPONENTS_SRC:
                raise Unsupported('nested function %s differs from the recorded real_components()' % s.name)
            return self.block(rest, tail)
        if isinstance(s, ast.Return):
            v = s.value
            if isinstance(v, ast.Tuple):
                e = '(' + ', '.join(self.img(x) for x in v.elts) + ')'
            else:
                e = self.img(v)
            return 'Ok %s' % e if self.ret_ok else e
        if isinstance(s, ast.Raise):
            if not (isinstance(s.exc, ast.Call) and is_name(s.exc.func, 'ValueError')):
                raise Unsupported('raise: ' + src(s))
            return 'ValueError'
        if isinstance(s, ast.Assign):
            v = s.value
            # IM = np.atleast_2d(IM): identity on 2-D input
            if is_np(v, 'atleast_2d') and is_name(s.targets[0]) and is_name(v.args[0], s.targets[0].id):
                return self.block(rest, tail)
            # n, m = IM.shape
            if (isinstance(s.targets[0], ast.Tuple) and isinstance(v, ast.Attribute) and v.attr == 'shape'):
                a, b = [t.id for t in s.targets[0].elts]
                return 'let %s := nrows %s in let %s := ncols %s in\n  %s' % (
                    a, self.img(v.value), b, self.img(v.value), self.block(rest, tail))
            # a, b = x, y  (simultaneous assignment)
            if (len(s.targets) == 1 and isinstance(s.targets[0], ast.Tuple) and isinstance(v, ast.Tuple)
                    and len(v.elts) == len(s.targets[0].elts) and len(v.elts) >= 2
                    and all(isinstance(t, ast.Name) for t in s.targets[0].elts)):
                names = ', '.join(t.id for t in s.targets[0].elts)
                vals = ', '.join(self.value(x) for x in v.elts)
                return "let '(%s) := (%s) in\n  %s" % (names, vals, self.block(rest, tail))
            # Q0, Q1, Q2, Q3 = Q
            if isinstance(s.targets[0], ast.Tuple) and isinstance(v, ast.Name):
                names = ', '.join(t.id for t in s.targets[0].elts)
                return "let '(%s) := %s in\n  %s" % (names, v.id, self.block(rest, tail))
            e = self.value(v)
            out = ''
            first = None
            for t in reversed(s.targets):          # a = b = e  assigns right to left
                if not isinstance(t, ast.Name):
                    raise Unsupported('assignment target: ' + src(t))
                out += 'let %s := %s in ' % (t.id, e if first is None else first)
                if first is None:
                    first = t.id
            return out + '\n  ' + self.block(rest, tail)
        if isinstance(s, ast.If) and not s.orelse and self.only_float_conversions(s.body):
            # `if <any test>: X = X.astype(float)` -- a change of dtype is the
            # identity on the real values the model is about
            return self.block(rest, tail)
        if isinstance(s, ast.If):
            # if not isinstance(symmetry_axis, (list, tuple)): symmetry_axis = [symmetry_axis]
            # (the axis record of the model is the value after this normalisation)
            if src(s.test) == 'not isinstance(symmetry_axis, (list, tuple))':
                if src(s.body[0]) != 'symmetry_axis = [symmetry_axis]' or len(s.body) != 1 or s.orelse:
                    raise Unsupported('symmetry_axis normalisation changed')
                return self.block(rest, tail)
            c = self.cond(s.test)
            bt, et = self.terminates(s.body), self.terminates(s.orelse)
            if bt and s.orelse and et:
                return '(if %s then %s else %s)' % (c, self.block(s.body), self.block(s.orelse))
            if bt and not s.orelse:
                return '(if %s then %s else\n  %s)' % (c, self.block(s.body), self.block(rest, tail))
            if not bt and s.orelse and et:
                # else-branch leaves: run it first
                return '(if negb %s then %s else\n  %s)' % (c, self.block(s.orelse), self.block(s.body + rest, tail))
            vs = self.assigned(s.body) + [v for v in self.assigned(s.orelse) if v not in self.assigned(s.body)]
            tup = vs[0] if len(vs) == 1 else '(' + ', '.join(vs) + ')'
            pat = vs[0] if len(vs) == 1 else "'" + tup
            return 'let %s := if %s then %s else %s in\n  %s' % (
                pat, c, self.block(s.body, tup), self.block(s.orelse, tup) if s.orelse else tup,
                self.block(rest, tail))
        raise Unsupported('statement: ' + src(s)[:80])


HEADER = '''(* GENERATED by tools/translate/symmetry_src.py from %s -- do not edit.
   Regenerated from the current source on every run of the checks. *)
From Coq Require Import List Arith Bool ZArith.
From PA Require Import base.Arr model.Symmetry.
Import ListNotations.

Definition is_fourier (m : smethod) : bool := match m with Fourier => true | _ => false end.
Definition is_average (m : smethod) : bool := match m with Average => true | _ => false end.

Section Gen.
  Variable A : Type.
  Variable zero : A.
  Variable add : A -> A -> A.
  Variable divn : A -> nat -> A.

'''


def generate():
    path = os.path.join(vlib.REPO, 'abel', 'tools', 'symmetry.py')
    tree = ast.parse(open(path).read())
    fns = {f.name: f for f in tree.body if isinstance(f, ast.FunctionDef)}
    g, p = fns['get_image_quadrants'], fns['put_image_quadrants']
    gargs = [a.arg for a in g.args.args]
    if gargs != ['IM', 'reorient', 'symmetry_axis', 'use_quadrants', 'symmetrize_method']:
        raise Unsupported('get_image_quadrants signature changed: %r' % gargs)
    pargs = [a.arg for a in p.args.args]
    if pargs != ['Q', 'original_image_shape', 'symmetry_axis']:
        raise Unsupported('put_image_quadrants signature changed: %r' % pargs)
    gbody = Tr(mask='use_quadrants').block(g.body)
    pbody = Tr(shape=('rows', 'cols'), ret_ok=False).block(p.body)
    text = HEADER % 'abel/tools/symmetry.py'
    text += ('  Definition get_quadrants_gen (IM : list (list A)) (reorient : bool) (symmetry_axis : axis)\n'
             '             (use_quadrants : mask) (symmetrize_method : smethod) : result (quads A) :=\n  %s.\n\n' % gbody)
    text += ('  Definition put_quadrants_gen (Q : quads A) (rows cols : nat) (symmetry_axis : axis) : list (list A) :=\n'
             '  %s.\nEnd Gen.\n' % pbody)
    vlib.write_if_changed(os.path.join(vlib.COQ, 'gen', 'SymmetryGen.v'), text)
    return text


if __name__ == '__main__':
    print(generate())
