# opt_names.py — fail-closed translator: the sets of option NAMES the source
# accepts  ->  coq/gen/OptNames.v
#
# For every name-valued option of the request space of C20 the literals the
# code compares the option with (`x == 'lit'`, `x in ('a', 'b')`, keys of the
# dispatch dictionary it is looked up in) are collected from the function that
# interprets it, and the function must end the interpretation with a
# `raise ValueError` that reports the option (or, for a dictionary, use a plain
# subscript, which raises KeyError).  Any other use of the option that could
# accept further spellings (a method call on it such as .startswith/.lower, a
# subscript of a plain name, a comparison with a non-literal) makes the
# translator fail.  coq/proofs/OptNamesEq.v proves the extracted sets equal to
# the documented sets written in model/Dispatch.v.
import ast
import os

import vlib


class Unsupported(Exception):
    pass


def parse(path):
    return ast.parse(open(os.path.join(vlib.REPO, path)).read())


def find_def(tree, qual):
    """qual: 'func' or 'Class.method' or 'Class.Inner.method'"""
    node = tree
    for part in qual.split('.'):
        for s in node.body:
            if isinstance(s, (ast.FunctionDef, ast.ClassDef)) and s.name == part:
                node = s
                break
        else:
            raise Unsupported('definition %s not found' % qual)
    return node


def const_values(node):
    if isinstance(node, ast.Constant):
        return [node.value]
    if isinstance(node, (ast.List, ast.Tuple, ast.Set)) and all(isinstance(e, ast.Constant) for e in node.elts):
        return [e.value for e in node.elts]
    return None


def compared_literals(f, expr, where):
    """all literals `expr` is compared with inside f (fail closed on anything else)"""
    vals = []
    for n in ast.walk(f):
        if isinstance(n, ast.Compare) and ast.unparse(n.left) == expr:
            if len(n.ops) != 1:
                raise Unsupported('%s: chained comparison on %s' % (where, expr))
            op, right = n.ops[0], n.comparators[0]
            vs = const_values(right)
            if isinstance(op, (ast.Is, ast.IsNot)) and vs == [None]:
                continue
            if isinstance(op, (ast.Lt, ast.Gt, ast.LtE, ast.GtE)) and vs is not None \
                    and all(isinstance(v, (int, float)) for v in vs):
                continue        # an ordering test against a number selects no name: the ==-chain decides
            if vs is None or not isinstance(op, (ast.Eq, ast.NotEq, ast.In, ast.NotIn)):
                raise Unsupported('%s: %s is compared with a non-literal: %s' % (where, expr, ast.unparse(n)))
            vals += vs
        elif isinstance(n, ast.Compare) and any(ast.unparse(c) == expr for c in n.comparators):
            raise Unsupported('%s: %s on the right of a comparison: %s' % (where, expr, ast.unparse(n)))
        elif isinstance(n, ast.Attribute) and ast.unparse(n.value) == expr:
            raise Unsupported('%s: attribute / method of %s used: %s' % (where, expr, ast.unparse(n)))
        elif isinstance(n, ast.Subscript) and ast.unparse(n.value) == expr and '[' not in expr and '.' not in expr:
            # a plain option name that is indexed (reg[0] is declared as its own expr)
            if not any(e.startswith(expr + '[') for e in DECLARED_SUB):
                raise Unsupported('%s: %s is subscripted: %s' % (where, expr, ast.unparse(n)))
    return vals


def has_reporting_raise(f, mention, where):
    for n in ast.walk(f):
        if isinstance(n, ast.Raise) and n.exc is not None and 'ValueError' in ast.unparse(n.exc) \
                and mention in ast.unparse(n.exc):
            return
    raise Unsupported('%s: no `raise ValueError` reporting %s' % (where, mention))


DECLARED_SUB = ['reg[0]']

# (coq name, file, definition, expression, mention in the raise, kind)
SITES = [
    ('src_crop_names', 'abel/tools/center.py', 'set_center', 'crop', 'crop', str),
    ('src_symmetrize_names', 'abel/tools/symmetry.py', 'get_image_quadrants', 'symmetrize_method', 'symmetrizing', str),
    ('src_daun_reg_types', 'abel/daun.py', 'daun_transform', 'reg_type', 'reg_type', str),
    ('src_daun_reg_strings', 'abel/daun.py', 'daun_transform', 'reg', 'reg', str),
    ('src_daun_degrees', 'abel/daun.py', '_bs_daun', 'degree', 'degree', int),
    ('src_rbasex_out_names', 'abel/rbasex.py', 'rbasex_transform', 'out', 'out', str),
    ('src_rbasex_reg_types', 'abel/rbasex.py', 'get_bs_cached', 'reg[0]', 'reg[0]', str),
    ('src_rbasex_reg_strings', 'abel/rbasex.py', 'get_bs_cached', 'reg', 'reg', str),
    ('src_rmax_names', 'abel/tools/vmi.py', 'Distributions._precalc', 'rmax_in', 'rmax_in', str),
]


def dict_keys(tree_or_def, name, where):
    for n in ast.walk(tree_or_def):
        if isinstance(n, ast.Assign) and len(n.targets) == 1 and ast.unparse(n.targets[0]) == name \
                and isinstance(n.value, ast.Dict):
            ks = [const_values(k) for k in n.value.keys]
            if any(k is None or len(k) != 1 or not isinstance(k[0], str) for k in ks):
                raise Unsupported('%s: non-literal key in %s' % (where, name))
            return [k[0] for k in ks]
    raise Unsupported('%s: dictionary %s not found' % (where, name))


def plain_lookup(f, dname, key, where):
    """the dictionary is used as dname[key] (KeyError for an unknown name), never
    through .get() with a default"""
    ok = False
    for n in ast.walk(f):
        if isinstance(n, ast.Subscript) and ast.unparse(n.value) == dname and ast.unparse(n.slice) == key:
            ok = True
        if isinstance(n, ast.Attribute) and ast.unparse(n.value) == dname:
            raise Unsupported('%s: %s.%s used' % (where, dname, n.attr))
    if not ok:
        raise Unsupported('%s: no lookup %s[%s]' % (where, dname, key))


def coq_list(vals, kind):
    vals = sorted(set(v for v in vals if isinstance(v, kind) and not isinstance(v, bool)))
    if kind is str:
        for v in vals:
            if '"' in v or any(ord(c) > 126 or ord(c) < 32 for c in v):
                raise Unsupported('literal not representable: %r' % v)
        return '[' + '; '.join('"%s"' % v for v in vals) + ']%string', 'list string'
    return '[' + '; '.join('%d' % v for v in vals) + ']%Z', 'list Z'


def generate():
    out = ['(* GENERATED by tools/translate/opt_names.py from the option-name tests in abel/*.py -- do not edit. *)',
           'From Coq Require Import String ZArith List.', 'Import ListNotations.', '']
    for coq, path, qual, expr, mention, kind in SITES:
        where = '%s:%s' % (path, qual)
        f = find_def(parse(path), qual)
        vals = compared_literals(f, expr, where)
        has_reporting_raise(f, mention, where)
        lit, ty = coq_list(vals, kind)
        out.append('(* %s: literals `%s` is compared with *)' % (where, expr))
        out.append('Definition %s : %s := %s.' % (coq, ty, lit))
    # dictionaries
    ctree = parse('abel/tools/center.py')
    keys = dict_keys(ctree, 'func_method', 'abel/tools/center.py')
    plain_lookup(find_def(ctree, 'find_origin'), 'func_method', 'method', 'abel/tools/center.py:find_origin')
    out.append('(* abel/tools/center.py: keys of func_method, looked up as func_method[method] in find_origin *)')
    out.append('Definition src_origin_methods : list string := %s.' % coq_list(keys, str)[0])
    ttree = parse('abel/transform.py')
    quad = find_def(ttree, 'Transform._abel_transform_image_by_quadrant')
    keys = dict_keys(quad, 'abel_transform', 'abel/transform.py')
    plain_lookup(quad, 'abel_transform', 'self.method', 'abel/transform.py:_abel_transform_image_by_quadrant')
    disp = find_def(ttree, 'Transform._abel_transform_image')
    full = [v for v in compared_literals(disp, 'self.method', 'abel/transform.py:_abel_transform_image') if isinstance(v, str)]
    src = ast.unparse(disp)
    if '_abel_transform_image_by_quadrant' not in src:
        raise Unsupported('Transform._abel_transform_image no longer falls through to the quadrant methods')
    out.append('(* abel/transform.py: methods dispatched on self.method in _abel_transform_image, then keys of the '
               'abel_transform dictionary looked up as abel_transform[self.method] *)')
    out.append('Definition src_transform_methods : list string := %s.' % coq_list(keys + full, str)[0])
    text = '\n'.join(out) + '\n'
    vlib.write_if_changed(os.path.join(vlib.COQ, 'gen', 'OptNames.v'), text)
    return text


if __name__ == '__main__':
    print(generate())
