# formulas_polar.py — fail-closed translator  Python ast -> Coq  for C19.
#
# Reads the *current* sources  abel/tools/polar.py, abel/tools/vmi.py and
# abel/tools/circularize.py  (located through vlib.REPO) and writes
# coq/gen/FormulasPolar.v.  The functions are *symbolically executed* on the
# "generic element" of every array (an array is represented by the Coq term of
# its element at a symbolic index), so the generated definitions follow the
# data flow of the code and do not depend on the names of local variables.
# Every statement / expression outside the small supported subset raises
# Unsupported: the check then reports the tie as broken.
#
# Generated definitions (R = Coq reals, Z = Coq integers):
#   cart2polar x y, polar2cart r theta                     polar.py
#   index_coords_{x,y}_{oG,oN}                              index_coords, origin given / None
#   reproject_{row,col,R,T}_{oG,oN}_{tN,tG}                 reproject_image_into_polar: the
#                      coordinates handed to map_coordinates (axis 0, axis 1) and the returned
#                      r_grid / theta_grid, origin given/None, dt None/given
#   w_<kind> v R T, jac_<kind> R T, ri_dt, ang_reduce, ri_<kind>     radial_intensity
#   toPES_E_{n,V}{n,P}, toPES_I_{n,V}{t,f}, toPES_I0_{n,V}{t,f}      toPES (V: Vrep given,
#                      P: photon_energy given, t/f: per_energy_scaling; I0: element 0)
#   circ_{row,col}_{mean,ref}, circ_theta                   circularize
import ast
import os
from fractions import Fraction

import vlib


class Unsupported(Exception):
    pass


def bad(node, why=''):
    raise Unsupported('%s at line %s: %s' % (type(node).__name__, getattr(node, 'lineno', '?'), why))


# ------------------------------------------------------------------ values
class S:
    """scalar Coq term; ty 'R', 'Z' or 'Zc' (integer literal)"""
    def __init__(self, t, ty='R', c=None):
        self.t, self.ty, self.c = t, ty, c


class NoneV:
    pass


class BoolV:
    def __init__(self, b):
        self.b = b


class StrV:
    def __init__(self, s):
        self.s = s


class Seq:
    """tuple or list of values"""
    def __init__(self, items, mutable=False):
        self.items, self.mutable = list(items), mutable


class Arr:
    """array given by its generic element: elem(idx) -> S, idx a tuple of Coq
    terms (strings) of length ndim; shape: tuple of Z terms or None"""
    def __init__(self, ndim, elem, shape=None, tag=None):
        self.ndim, self.elem, self.shape, self.tag = ndim, elem, shape, tag


class Fun:
    def __init__(self, name):
        self.name = name


class Ceil:
    def __init__(self, s):
        self.s = s


class Shape:
    """data.shape of a 2-D array"""
    def __init__(self, seq):
        self.seq = seq


def intc(n):
    return S(str(n) if n >= 0 else '(%d)' % n, 'Zc', n)


def toR(s):
    if not isinstance(s, S):
        raise Unsupported('scalar expected, got %s' % type(s).__name__)
    if s.ty == 'R':
        return s.t
    if s.ty == 'Zc':
        return s.t
    return '(IZR %s)' % s.t


def toZ(s):
    if not isinstance(s, S) or s.ty == 'R':
        raise Unsupported('integer expected')
    if s.ty == 'Zc':
        return '%s%%Z' % s.t if s.c >= 0 else '(%d)%%Z' % s.c
    return s.t


def isint(s):
    return isinstance(s, S) and s.ty in ('Z', 'Zc')


def float_term(x):
    f = Fraction(x)
    if f.denominator == 1:
        return str(f.numerator) if f.numerator >= 0 else '(%d)' % f.numerator
    return '(%d / %d)' % (f.numerator, f.denominator)


def sbin(op, a, b):
    """binary operation on scalars"""
    if op == '//':
        if isint(a) and isint(b):
            return S('(%s / %s)%%Z' % (toZ(a), toZ(b)), 'Z')
        raise Unsupported('// on non-integers')
    if op == '**':
        if b.ty == 'Zc' and b.c >= 0:
            return S('(%s ^ %d)' % (toR(a), b.c))
        raise Unsupported('** with non-literal exponent')
    if op in '+-*' and isint(a) and isint(b):
        return S('(%s %s %s)%%Z' % (toZ(a), op, toZ(b)), 'Z')
    if op in '+-*/':
        return S('(%s %s %s)' % (toR(a), op, toR(b)))
    raise Unsupported('operator ' + op)


def lift(fn, *args):
    """apply a scalar function elementwise (scalars broadcast)"""
    arrs = [a for a in args if isinstance(a, Arr)]
    if not arrs:
        return fn(*args)
    nd = arrs[0].ndim
    shape = arrs[0].shape
    for a in arrs:
        if a.ndim != nd:
            raise Unsupported('broadcast between different ranks')
        if a.shape is not None and shape is not None and a.shape != shape:
            raise Unsupported('shape mismatch %r %r' % (a.shape, shape))
    for a in args:
        if not isinstance(a, (Arr, S)):
            raise Unsupported('arithmetic on %s' % type(a).__name__)
    return Arr(nd, lambda idx: fn(*[a.elem(idx) if isinstance(a, Arr) else a for a in args]), shape)


OPS = {ast.Add: '+', ast.Sub: '-', ast.Mult: '*', ast.Div: '/', ast.FloorDiv: '//', ast.Pow: '**'}


class _Return(Exception):
    def __init__(self, v):
        self.v = v


class PyRaise(Exception):
    pass


class Exec:
    """symbolic executor of one function body"""

    def __init__(self, env, calls=None, tail=True):
        self.env = dict(env)
        self.calls = calls or {}        # name -> python callable(exec, args, kwargs)
        self.tail = tail                # toPES: True = generic element of index >= 1
        self.perm_uses = []             # (key term, permuted term) of x[y.argsort()]

    # -------------------------------------------------------------- statements
    def run(self, body):
        try:
            self.block(body)
        except _Return as r:
            return r.v
        raise Unsupported('function does not return')

    def block(self, body):
        for st in body:
            self.stmt(st)

    def stmt(self, st):
        if isinstance(st, ast.Expr) and isinstance(st.value, ast.Constant) and isinstance(st.value.value, str):
            return                                              # docstring
        if isinstance(st, ast.Return):
            raise _Return(self.ev(st.value))
        if isinstance(st, ast.Raise):
            raise PyRaise()
        if isinstance(st, ast.Assign):
            if len(st.targets) != 1:
                bad(st, 'chained assignment')
            self.assign(st.targets[0], self.ev(st.value))
            return
        if isinstance(st, ast.AugAssign):
            op = OPS.get(type(st.op)) or bad(st, 'operator')
            tgt = st.target
            if isinstance(tgt, ast.Subscript) and self.is_tail_slice(tgt.slice):
                if not isinstance(tgt.value, ast.Name):
                    bad(st)
                if not self.tail:                               # element 0 untouched, but the value must still translate
                    sub = Exec(self.env, self.calls, tail=True)
                    sub.ev(st.value)
                    return
                cur = self.ev(tgt.value)
                self.env[tgt.value.id] = lift(lambda a, b: sbin(op, a, b), cur, self.ev(st.value))
                return
            cur = self.ev(tgt)
            self.assign(tgt, lift(lambda a, b: sbin(op, a, b), cur, self.ev(st.value)))
            return
        if isinstance(st, ast.If):
            self.if_(st)
            return
        bad(st, 'statement')

    def is_tail_slice(self, sl):
        return (isinstance(sl, ast.Slice) and sl.upper is None and sl.step is None
                and isinstance(sl.lower, ast.Constant) and sl.lower.value == 1)

    def assign(self, tgt, val):
        if isinstance(tgt, ast.Name):
            self.env[tgt.id] = val
        elif isinstance(tgt, (ast.Tuple, ast.List)):
            if isinstance(val, Shape):
                val = val.seq
            if not isinstance(val, Seq) or len(val.items) != len(tgt.elts):
                bad(tgt, 'unpacking')
            for t, v in zip(tgt.elts, val.items):
                self.assign(t, v)
        elif isinstance(tgt, ast.Subscript) and isinstance(tgt.value, ast.Name) \
                and isinstance(tgt.slice, ast.Constant) and isinstance(tgt.slice.value, int):
            seq = self.env.get(tgt.value.id)
            if not (isinstance(seq, Seq) and seq.mutable):
                bad(tgt, 'item store into a non-list')
            seq.items[tgt.slice.value] = val
        else:
            bad(tgt, 'assignment target')

    def truth(self, test):
        """concrete truth value of a test, or None if it is a symbolic comparison"""
        if isinstance(test, ast.Name):
            v = self.ev(test)
            if isinstance(v, BoolV):
                return v.b
            bad(test, 'non-boolean condition')
        if isinstance(test, ast.Compare) and len(test.ops) == 1:
            l, r = test.left, test.comparators[0]
            if isinstance(test.ops[0], (ast.Is, ast.IsNot)):
                if not (isinstance(r, ast.Constant) and r.value is None):
                    bad(test)
                isn = isinstance(self.ev(l), NoneV)
                return isn if isinstance(test.ops[0], ast.Is) else not isn
            if isinstance(test.ops[0], ast.Eq):
                a, b = self.ev(l), self.ev(r)
                if isinstance(a, StrV) and isinstance(b, StrV):
                    return a.s == b.s
                bad(test, '== on non-strings')
            return None
        bad(test, 'condition')

    def if_(self, st):
        t = self.truth(st.test)
        if t is True:
            self.block(st.body)
            return
        if t is False:
            self.block(st.orelse)
            return
        # symbolic comparison  a < b : only "if a < b: <updates>" without else
        test = st.test
        if st.orelse or not isinstance(test.ops[0], ast.Lt):
            bad(st, 'symbolic condition')
        a, b = self.ev(test.left), self.ev(test.comparators[0])
        cond = 'Rlt_dec %s %s' % (toR(a), toR(b))
        before = self.snapshot()
        self.block(st.body)
        after = self.snapshot()
        if set(before) != set(after):
            bad(st, 'new name bound under a symbolic condition')
        for key in after:
            o, n = before[key], after[key]
            if o is n:
                continue
            if not (isinstance(o, S) and isinstance(n, S)):
                bad(st, 'non-scalar update under a symbolic condition')
            self.store(key, S('(if %s then %s else %s)' % (cond, toR(n), toR(o))))

    def snapshot(self):
        snap = {}
        for k, v in self.env.items():
            if isinstance(v, Seq) and v.mutable:
                for i, it in enumerate(v.items):
                    snap[(k, i)] = it
            else:
                snap[k] = v
        return snap

    def store(self, key, v):
        if isinstance(key, tuple):
            self.env[key[0]].items[key[1]] = v
        else:
            self.env[key] = v

    # ------------------------------------------------------------ expressions
    def ev(self, e):
        if isinstance(e, ast.Constant):
            v = e.value
            if v is None:
                return NoneV()
            if isinstance(v, bool):
                return BoolV(v)
            if isinstance(v, int):
                return intc(v)
            if isinstance(v, float):
                return S(float_term(v))
            if isinstance(v, str):
                return StrV(v)
            bad(e, 'constant')
        if isinstance(e, ast.Name):
            if e.id not in self.env:
                bad(e, 'unknown name ' + e.id)
            return self.env[e.id]
        if isinstance(e, (ast.Tuple, ast.List)):
            return Seq([self.ev(x) for x in e.elts], mutable=isinstance(e, ast.List))
        if isinstance(e, ast.BinOp):
            op = OPS.get(type(e.op)) or bad(e, 'operator')
            return lift(lambda a, b: sbin(op, a, b), self.ev(e.left), self.ev(e.right))
        if isinstance(e, ast.UnaryOp) and isinstance(e.op, ast.USub):
            return lift(lambda a: S('(- %s)' % toR(a)), self.ev(e.operand))
        if isinstance(e, ast.Attribute):
            if isinstance(e.value, ast.Name) and e.value.id == 'np' and e.attr == 'pi':
                return S('PI')
            if e.attr == 'shape':
                v = self.ev(e.value)
                if isinstance(v, Arr) and v.tag == 'image':
                    return Shape(Seq([S(z, 'Z') for z in v.shape]))
            bad(e, 'attribute')
        if isinstance(e, ast.Subscript):
            return self.subscript(e)
        if isinstance(e, ast.Call):
            return self.call(e)
        bad(e, 'expression')

    def subscript(self, e):
        v = self.ev(e.value)
        sl = e.slice
        if isinstance(v, Shape):
            if isinstance(sl, ast.Slice) and sl.lower is None and sl.step is None \
                    and isinstance(sl.upper, ast.Constant) and sl.upper.value == 2:
                return v.seq
            bad(e, 'shape slice')
        if isinstance(v, Seq):
            if isinstance(sl, ast.Constant) and isinstance(sl.value, int) and 0 <= sl.value < len(v.items):
                return v.items[sl.value]
            bad(e, 'sequence index')
        if self.env.get('__elementwise__') and isinstance(v, S) and isinstance(sl, ast.Name):
            ix = self.ev(sl)
            if isinstance(ix, StrV) and ix.s.startswith('argsort-of:'):
                self.perm_uses.append((ix.s[11:], v.t))
                return v
            bad(e, 'index')
        if self.is_tail_slice(sl):
            if not self.tail:
                bad(e, 'a[1:] read while translating element 0')
            if isinstance(v, S) and self.env.get('__elementwise__'):
                return v
            bad(e, 'a[1:]')
        if isinstance(v, Arr) and v.ndim == 2 and isinstance(sl, ast.Tuple) and len(sl.elts) == 2:
            a, b = sl.elts
            if all(isinstance(x, ast.Constant) and isinstance(x.value, int) and x.value >= 0 for x in (a, b)):
                if v.tag and v.tag.startswith('sym:'):
                    return S('%s_%d_%d' % (v.tag[4:], a.value, b.value))
                return v.elem((str(a.value), str(b.value)))
            if isinstance(a, ast.Slice) and a.lower is None and a.upper is None and a.step is None \
                    and isinstance(b, ast.Constant) and b.value == 0:
                return Arr(1, lambda idx: v.elem((idx[0], '0')), None, tag=(v.tag or '') + ':col0')
        bad(e, 'subscript')

    def kw(self, e, allowed):
        out = {}
        for k in e.keywords:
            if k.arg not in allowed:
                bad(e, 'keyword ' + str(k.arg))
            out[k.arg] = k.value
        return out

    def is_float_dtype(self, node):
        return isinstance(node, ast.Name) and node.id == 'float' and 'float' not in self.env

    def value_copy(self, e):
        """np.array(x[, dtype=float]), np.asarray(x[, dtype=float]), np.copy(x), x.copy(),
        x.astype(float): a value-preserving copy of an array / array element is the identity.
        Returns the copied value, or None if e is not such a call."""
        f = e.func
        if not isinstance(f, ast.Attribute):
            return None
        if isinstance(f.value, ast.Name) and f.value.id == 'np' and f.attr in ('array', 'asarray', 'copy'):
            kws = self.kw(e, ('dtype',) if f.attr != 'copy' else ())
            if len(e.args) != 1 or ('dtype' in kws and not self.is_float_dtype(kws['dtype'])):
                bad(e, 'np.%s arguments' % f.attr)
            v = self.ev(e.args[0])
        elif f.attr == 'copy' and not (isinstance(f.value, ast.Name) and f.value.id == 'np'):
            if e.args or e.keywords:
                bad(e, '.copy() arguments')
            v = self.ev(f.value)
        elif f.attr == 'astype':
            if e.keywords or len(e.args) != 1 or not self.is_float_dtype(e.args[0]):
                bad(e, '.astype() arguments')
            v = self.ev(f.value)
        else:
            return None
        if isinstance(v, Arr) or (isinstance(v, S) and self.env.get('__elementwise__')):
            return v
        bad(e, 'copy of a non-array value')

    def call(self, e):
        f = e.func
        cp = self.value_copy(e)
        if cp is not None:
            return cp
        # ---- numpy functions
        if isinstance(f, ast.Attribute) and isinstance(f.value, ast.Name) and f.value.id == 'np':
            name = f.attr
            if name in ('sqrt', 'sin', 'cos', 'abs'):
                self.kw(e, ())
                if len(e.args) != 1:
                    bad(e)
                coq = {'sqrt': 'sqrt', 'sin': 'sin', 'cos': 'cos', 'abs': 'Rabs'}[name]
                return lift(lambda a: S('(%s %s)' % (coq, toR(a))), self.ev(e.args[0]))
            if name == 'arctan2':
                self.kw(e, ())
                if len(e.args) != 2:
                    bad(e)
                return lift(lambda a, b: S('(atan2 %s %s)' % (toR(a), toR(b))),
                            self.ev(e.args[0]), self.ev(e.args[1]))
            if name == 'ceil':
                self.kw(e, ())
                v = self.ev(e.args[0])
                return Ceil(S(toR(v)))
            if name == 'arange':
                self.kw(e, ())
                if len(e.args) != 1:
                    bad(e, 'arange with start/step')
                n = self.ev(e.args[0])
                return Arr(1, lambda idx: S(idx[0]), (n.t,))
            if name == 'meshgrid':
                self.kw(e, ())
                if len(e.args) != 2:
                    bad(e)
                a, b = self.ev(e.args[0]), self.ev(e.args[1])
                if not (isinstance(a, Arr) and isinstance(b, Arr) and a.ndim == 1 and b.ndim == 1):
                    bad(e, 'meshgrid of non-vectors')
                shape = (b.shape[0], a.shape[0]) if a.shape and b.shape else None
                # default indexing='xy': out0[i, j] = a[j], out1[i, j] = b[i]
                return Seq([Arr(2, lambda idx: a.elem((idx[1],)), shape),
                            Arr(2, lambda idx: b.elem((idx[0],)), shape)])
            if name == 'linspace':
                kws = self.kw(e, ('endpoint',))
                if len(e.args) != 3:
                    bad(e, 'linspace arguments')
                a, b, n = [self.ev(x) for x in e.args]
                fn = 'linspace_end'
                if 'endpoint' in kws:
                    ep = self.ev(kws['endpoint'])
                    if not isinstance(ep, BoolV):
                        bad(e, 'endpoint')
                    fn = 'linspace_end' if ep.b else 'linspace_noend'
                ta, tb, tn = toR(a), toR(b), toR(n)
                return Arr(1, lambda idx: S('(%s %s %s %s %s)' % (fn, ta, tb, tn, idx[0])), (toZ(n),))
            if name == 'vstack':
                self.kw(e, ())
                v = self.ev(e.args[0])
                if not (len(e.args) == 1 and isinstance(v, Seq) and all(isinstance(x, Arr) for x in v.items)):
                    bad(e, 'vstack')
                return Seq(v.items)
            if name == 'indices':
                self.kw(e, ())
                sh = self.ev(e.args[0])
                if not isinstance(sh, Shape):
                    bad(e, 'indices of a non-shape')
                shape = tuple(x.t for x in sh.seq.items)
                return Seq([Arr(2, lambda idx: S(idx[0]), shape), Arr(2, lambda idx: S(idx[1]), shape)])
            if name == 'mean':
                self.kw(e, ())
                v = self.ev(e.args[0])
                if not (len(e.args) == 1 and isinstance(v, Arr) and v.ndim == 2):
                    bad(e, 'mean')
                body = v.elem(('(fst p)', '(snd p)'))
                return S('(mean_list (map (fun p : R * R => %s) pixels))' % toR(body))
            bad(e, 'np.' + name)
        # ---- builtins
        if isinstance(f, ast.Name) and f.id in ('float', 'int', 'max', 'list') and f.id not in self.env:
            self.kw(e, ())
            args = [self.ev(x) for x in e.args]
            if f.id == 'float' and len(args) == 1 and isinstance(args[0], S):
                return S(toR(args[0]))
            if f.id == 'int' and len(args) == 1 and isinstance(args[0], Ceil):
                return S('(ceilZ %s)' % args[0].s.t, 'Z')
            if f.id == 'max' and len(args) == 2 and all(isint(a) for a in args):
                return S('(Z.max %s %s)' % (toZ(args[0]), toZ(args[1])), 'Z')
            if f.id == 'list' and len(args) == 1 and isinstance(args[0], Seq):
                return Seq(args[0].items, mutable=True)
            bad(e, f.id)
        # ---- methods
        if isinstance(f, ast.Attribute) and f.attr in ('flatten', 'max', 'min', 'sum', 'reshape', 'argsort'):
            v = self.ev(f.value)
            if f.attr == 'flatten' and isinstance(v, Arr) and not e.args and not e.keywords:
                return Arr(v.ndim, v.elem, v.shape, tag='flat')        # C order: element (k, l) of the 2-D array
            if f.attr in ('max', 'min') and isinstance(v, Arr) and v.tag and v.tag.startswith('px:') \
                    and not e.args and not e.keywords:
                return S(v.tag[3:] + f.attr)
            if f.attr == 'sum' and isinstance(v, Arr) and v.ndim == 2 and not e.args:
                kws = self.kw(e, ('axis',))
                ax = kws.get('axis')
                if not (isinstance(ax, ast.Constant) and ax.value == 1):
                    bad(e, 'sum axis')
                self.rowelem = v.elem(('k', 'l'))
                return Arr(1, lambda idx: S('(sum_list row)'), None, tag='rowsum')
            if f.attr == 'reshape' and isinstance(v, Arr) and v.tag == 'sampled' and len(e.args) == 1:
                sh = self.ev(e.args[0])
                if not (isinstance(sh, Seq) and tuple(toZ(x) for x in sh.items) == v.shape):
                    bad(e, 'reshape to a different shape')
                return v
            if f.attr == 'argsort' and isinstance(v, S) and not e.args and not e.keywords:
                return StrV('argsort-of:' + v.t)
            bad(e, 'method ' + f.attr)
        # ---- functions supplied by the caller (other PyAbel functions, function-valued parameters)
        name = f.id if isinstance(f, ast.Name) else (f.attr if isinstance(f, ast.Attribute) else None)
        if isinstance(f, ast.Name) and isinstance(self.env.get(f.id), Fun):
            self.kw(e, ())
            fn = self.env[f.id].name
            if len(e.args) != 1:
                bad(e)
            return lift(lambda a: S('(%s %s)' % (fn, toR(a))), self.ev(e.args[0]))
        if name in self.calls:
            return self.calls[name](self, e)
        bad(e, 'call')


# ------------------------------------------------------------------ drivers
def parse(rel):
    path = os.path.join(vlib.REPO, rel)
    tree = ast.parse(open(path).read(), path)
    return {n.name: n for n in tree.body if isinstance(n, ast.FunctionDef)}


def params(fn, expected_n=None):
    a = fn.args
    if a.vararg or a.kwarg or a.kwonlyargs or a.posonlyargs:
        raise Unsupported('%s: unsupported signature' % fn.name)
    names = [x.arg for x in a.args]
    if expected_n is not None and len(names) != expected_n:
        raise Unsupported('%s: expected %d parameters, found %r' % (fn.name, expected_n, names))
    return names


def defaults(fn):
    a = fn.args
    names = [x.arg for x in a.args]
    d = {}
    for n, v in zip(names[len(names) - len(a.defaults):], a.defaults):
        d[n] = v
    return d


def pair_terms(v, what):
    if not (isinstance(v, Seq) and len(v.items) == 2):
        raise Unsupported(what + ': does not return a pair')
    return v.items


def gen_cart_polar(F, out):
    fn = F['cart2polar']
    p = params(fn, 2)
    r = Exec({p[0]: S('x'), p[1]: S('y')}).run(fn.body)
    a, b = pair_terms(r, 'cart2polar')
    out.append('(* polar.py cart2polar: returns (r, theta) *)')
    out.append('Definition cart2polar (x y : R) : R * R := (%s, %s).' % (toR(a), toR(b)))
    fn = F['polar2cart']
    p = params(fn, 2)
    r = Exec({p[0]: S('r'), p[1]: S('theta')}).run(fn.body)
    a, b = pair_terms(r, 'polar2cart')
    out.append('(* polar.py polar2cart: returns (x, y) *)')
    out.append('Definition polar2cart (r theta : R) : R * R := (%s, %s).' % (toR(a), toR(b)))


def image(tag_shape=('ny', 'nx')):
    return Arr(2, lambda idx: S('data'), tag_shape, tag='image')


def gen_index_coords(F, out):
    fn = F['index_coords']
    p = params(fn, 2)
    dflt = defaults(fn)
    if not (p[1] in dflt and isinstance(dflt[p[1]], ast.Constant) and dflt[p[1]].value is None):
        raise Unsupported('index_coords: origin default is not None')
    for cfg, origin, sig in (('oG', Seq([S('o0'), S('o1')]), '(ny nx : Z) (o0 o1 i j : R)'),
                             ('oN', NoneV(), '(ny nx : Z) (i j : R)')):
        r = Exec({p[0]: image(), p[1]: origin}).run(fn.body)
        x, y = pair_terms(r, 'index_coords')
        if not (isinstance(x, Arr) and isinstance(y, Arr) and x.ndim == 2 and y.ndim == 2):
            raise Unsupported('index_coords: outputs are not 2-D arrays')
        if x.shape != ('(IZR ny)', '(IZR nx)') or y.shape != x.shape:
            raise Unsupported('index_coords: output shape is not (ny, nx): %r' % (x.shape,))
        out.append('(* polar.py index_coords, origin %s: element (i, j) of the returned x and y *)'
                   % ('given as (o0, o1) = (row, column)' if cfg == 'oG' else 'None'))
        out.append('Definition index_coords_x_%s %s : R := %s.' % (cfg, sig, toR(x.elem(('i', 'j')))))
        out.append('Definition index_coords_y_%s %s : R := %s.' % (cfg, sig, toR(y.elem(('i', 'j')))))


def gen_reproject(F, out):
    fn = F['reproject_image_into_polar']
    p = params(fn, 5)
    dflt = defaults(fn)
    ok = (isinstance(dflt.get(p[1]), ast.Constant) and dflt[p[1]].value is None and
          isinstance(dflt.get(p[2]), ast.Constant) and dflt[p[2]].value is False and
          isinstance(dflt.get(p[3]), ast.Constant) and dflt[p[3]].value == 1 and
          isinstance(dflt.get(p[4]), ast.Constant) and dflt[p[4]].value is None)
    if not ok:
        raise Unsupported('reproject_image_into_polar: defaults changed')

    for ocfg, origin in (('oG', lambda: Seq([S('o0'), S('o1')])), ('oN', lambda: NoneV())):
        for tcfg, dt in (('tN', NoneV()), ('tG', S('dt'))):
            state = {}

            def c_index_coords(ex, e):
                kws = ex.kw(e, ('origin',))
                if len(e.args) != 1 or 'origin' not in kws:
                    bad(e, 'index_coords call')
                d = ex.ev(e.args[0])
                o = ex.ev(kws['origin'])
                if not (isinstance(d, Arr) and d.tag == 'image' and isinstance(o, Seq) and len(o.items) == 2):
                    bad(e, 'index_coords call')
                state['origin_ic'] = [toR(x) for x in o.items]
                return Seq([Arr(2, lambda idx: S('x'), tag='ic:x'), Arr(2, lambda idx: S('y'), tag='ic:y')])

            def c_cart2polar(ex, e):
                ex.kw(e, ())
                a = [ex.ev(x) for x in e.args]
                if not (len(a) == 2 and isinstance(a[0], Arr) and a[0].tag == 'ic:x' and a[1].tag == 'ic:y'):
                    bad(e, 'cart2polar is not applied to (x, y) of index_coords')
                return Seq([Arr(2, lambda idx: S('r'), tag='px:r'), Arr(2, lambda idx: S('theta'), tag='px:t')])

            def c_polar2cart(ex, e):
                ex.kw(e, ())
                a = [ex.ev(x) for x in e.args]
                if len(a) != 2:
                    bad(e)
                return Seq([lift(lambda r, t: S('(fst (polar2cart %s %s))' % (toR(r), toR(t))), *a),
                            lift(lambda r, t: S('(snd (polar2cart %s %s))' % (toR(r), toR(t))), *a)])

            def c_map(ex, e):
                kws = ex.kw(e, ('output',))
                if len(e.args) != 2:
                    bad(e, 'map_coordinates arguments')
                d, c = ex.ev(e.args[0]), ex.ev(e.args[1])
                if not (isinstance(d, Arr) and d.tag == 'image' and isinstance(c, Seq) and len(c.items) == 2
                        and all(isinstance(x, Arr) and x.tag == 'flat' and x.ndim == 2 for x in c.items)):
                    bad(e, 'map_coordinates arguments')
                state['coords'] = c.items
                return Arr(2, lambda idx: S('v'), tuple(c.items[0].shape), tag='sampled')

            ex = Exec({p[0]: image(), p[1]: origin(), p[2]: BoolV(False), p[3]: S('dr'), p[4]: dt},
                      calls={'index_coords': c_index_coords, 'cart2polar': c_cart2polar,
                             'polar2cart': c_polar2cart, 'map_coordinates': c_map})
            r = ex.run(fn.body)
            if not (isinstance(r, Seq) and len(r.items) == 3 and 'coords' in state):
                raise Unsupported('reproject_image_into_polar: unexpected return value')
            o, rg, tg = r.items
            if not (isinstance(o, Arr) and o.tag == 'sampled' and isinstance(rg, Arr) and isinstance(tg, Arr)
                    and rg.shape == o.shape and tg.shape == o.shape):
                raise Unsupported('reproject_image_into_polar: returned arrays of different shapes')
            # origin passed to index_coords must be the one used for the sampling positions
            state['origin_used'] = state['origin_ic']
            sig = '(ny nx : Z) (o0 o1 rmin rmax tmin tmax dr dt k l : R)'
            cfg = '%s_%s' % (ocfg, tcfg)
            out.append('(* polar.py reproject_image_into_polar, origin %s, dt %s: coordinates (axis 0, axis 1)'
                       ' handed to map_coordinates for the output element (k, l); returned r_grid, theta_grid;'
                       ' number of radial and angular samples; the origin passed on to index_coords *)'
                       % ('given' if ocfg == 'oG' else 'None', 'None' if tcfg == 'tN' else 'given'))
            out.append('Definition reproject_row_%s %s : R := %s.' % (cfg, sig, toR(state['coords'][0].elem(('k', 'l')))))
            out.append('Definition reproject_col_%s %s : R := %s.' % (cfg, sig, toR(state['coords'][1].elem(('k', 'l')))))
            out.append('Definition reproject_R_%s %s : R := %s.' % (cfg, sig, toR(rg.elem(('k', 'l')))))
            out.append('Definition reproject_T_%s %s : R := %s.' % (cfg, sig, toR(tg.elem(('k', 'l')))))
            sigz = '(ny nx : Z) (o0 o1 rmin rmax tmin tmax dr dt : R)'
            out.append('Definition reproject_nr_%s %s : Z := %s.' % (cfg, sigz, o.shape[0]))
            out.append('Definition reproject_nt_%s %s : Z := %s.' % (cfg, sigz, o.shape[1]))
            out.append('Definition reproject_o0_%s %s : R := %s.' % (cfg, sigz, state['origin_ic'][0]))
            out.append('Definition reproject_o1_%s %s : R := %s.' % (cfg, sigz, state['origin_ic'][1]))


KINDS = ('int2D', 'int3D', 'avg2D', 'avg3D')


def gen_radial_intensity(F, out):
    fn = F['radial_intensity']
    p = params(fn, 5)
    kinds = []
    for n in ast.walk(fn):
        if isinstance(n, ast.Compare) and isinstance(n.left, ast.Name) and n.left.id == p[0]:
            c = n.comparators[0]
            if not (len(n.ops) == 1 and isinstance(n.ops[0], ast.Eq) and isinstance(c, ast.Constant)
                    and isinstance(c.value, str)):
                raise Unsupported('radial_intensity: unexpected test on kind')
            kinds.append(c.value)
    if sorted(kinds) != sorted(KINDS):
        raise Unsupported('radial_intensity: kinds are %r' % (kinds,))

    def c_reproject(ex, e):
        kws = ex.kw(e, ('dr', 'dt'))
        if not (len(e.args) == 2 and isinstance(e.args[0], ast.Name) and e.args[0].id == p[1]
                and isinstance(e.args[1], ast.Name) and e.args[1].id == p[2]
                and isinstance(kws.get('dr'), ast.Name) and kws['dr'].id == p[3]
                and isinstance(kws.get('dt'), ast.Name) and kws['dt'].id == p[4]):
            bad(e, 'arguments are not passed through to reproject_image_into_polar')
        return Seq([Arr(2, lambda idx: S('v'), ('nr', 'nt'), tag='sampled'),
                    Arr(2, lambda idx: S('R_'), ('nr', 'nt'), tag='sym:R'),
                    Arr(2, lambda idx: S('T_'), ('nr', 'nt'), tag='sym:T')])

    first = None
    for kind in KINDS:
        ex = Exec({p[0]: StrV(kind), p[1]: image(), p[2]: S('origin'), p[3]: S('dr'), p[4]: S('dt')},
                  calls={'reproject_image_into_polar': c_reproject})
        r = ex.run(fn.body)
        rr, inten = pair_terms(r, 'radial_intensity')
        if not (isinstance(rr, Arr) and rr.tag == 'sym:R:col0'):
            raise Unsupported('radial_intensity: first output is not R[:, 0]')
        if not (isinstance(inten, Arr) and inten.ndim == 1):
            raise Unsupported('radial_intensity: intensity is not a vector')
        red = toR(inten.elem(('k',)))
        if first is None:
            first = red
            out.append('(* vmi.py radial_intensity: the reduction over the angular axis of one row of the weighted'
                       ' polar image (row = its elements), T_0_0, T_0_1 = T[0, 0], T[0, 1] *)')
            out.append('Definition ang_reduce (row : list R) (T_0_0 T_0_1 : R) : R := %s.' % red)
        elif red != first:
            raise Unsupported('radial_intensity: reduction differs between kinds')
        out.append("(* vmi.py radial_intensity, kind '%s': element of polarIM after the Jacobian statement, as a"
                   " function of its value v before it and of the elements R_, T_ of the r and theta grids *)" % kind)
        out.append('Definition w_%s (v R_ T_ : R) : R := %s.' % (kind, toR(ex.rowelem)))
        out.append('Definition jac_%s (R_ T_ : R) : R := w_%s 1 R_ T_.' % (kind, kind))
        out.append('Definition ri_%s (r T_0_0 T_0_1 : R) (samples : list (R * R)) : R :=\n'
                   '  ang_reduce (map (fun p => w_%s (fst p) r (snd p)) samples) T_0_0 T_0_1.' % (kind, kind))
    # an unknown kind must raise
    try:
        Exec({p[0]: StrV('?'), p[1]: image(), p[2]: S('origin'), p[3]: S('dr'), p[4]: S('dt')},
             calls={'reproject_image_into_polar': c_reproject}).run(fn.body)
    except PyRaise:
        pass
    else:
        raise Unsupported('radial_intensity: unknown kind does not raise')
    # the four wrappers must be calls of radial_intensity with the arguments passed through
    for name, kind in (('angular_integration_2D', 'int2D'), ('angular_integration_3D', 'int3D'),
                       ('average_radial_intensity_2D', 'avg2D'), ('average_radial_intensity_3D', 'avg3D')):
        w = F[name]
        wp = params(w, 4)
        body = [s for s in w.body if not (isinstance(s, ast.Expr) and isinstance(s.value, ast.Constant))]
        okw = False
        if len(body) == 1 and isinstance(body[0], ast.Return) and isinstance(body[0].value, ast.Call):
            c = body[0].value
            if isinstance(c.func, ast.Name) and c.func.id == 'radial_intensity' and len(c.args) == 2 \
                    and isinstance(c.args[0], ast.Constant) and c.args[0].value == kind \
                    and isinstance(c.args[1], ast.Name) and c.args[1].id == wp[0]:
                kws = {k.arg: k.value for k in c.keywords}
                okw = sorted(kws) == ['dr', 'dt', 'origin'] and all(
                    isinstance(kws[k], ast.Name) and kws[k].id == n for k, n in
                    (('origin', wp[1]), ('dr', wp[2]), ('dt', wp[3])))
        if not okw:
            raise Unsupported('%s is not radial_intensity(%r, ...)' % (name, kind))
        out.append("Definition %s := ri_%s." % (name, kind))


def gen_topes(F, out):
    fn = F['toPES']
    p = params(fn, 7)
    dflt = defaults(fn)
    ok = (isinstance(dflt.get(p[3]), ast.Constant) and dflt[p[3]].value is True and
          isinstance(dflt.get(p[4]), ast.Constant) and dflt[p[4]].value is None and
          isinstance(dflt.get(p[5]), ast.Constant) and dflt[p[5]].value is None and
          isinstance(dflt.get(p[6]), ast.Constant) and dflt[p[6]].value == 1)
    if not ok:
        raise Unsupported('toPES: defaults changed')
    sig = '(r I c hv V z : R)'
    done = set()
    for vcfg, vrep in (('n', NoneV()), ('V', S('V'))):
        for pcfg, hv in (('n', NoneV()), ('P', S('hv'))):
            for scfg, scal in (('t', True), ('f', False)):
                for tail in (True, False):
                    env = {p[0]: S('r') if tail else S('0'), p[1]: S('I'), p[2]: S('c'), p[3]: BoolV(scal),
                           p[4]: hv, p[5]: vrep, p[6]: S('z'), '__elementwise__': True}
                    ex = Exec(env, tail=tail)
                    ret = ex.run(fn.body)
                    # return eBKE[indx], intensity[indx] with indx = eBKE.argsort()
                    e_, i_ = pair_terms(ret, 'toPES')
                    if not (isinstance(e_, S) and isinstance(i_, S)
                            and ex.perm_uses == [(e_.t, e_.t), (e_.t, i_.t)]):
                        raise Unsupported('toPES: outputs are not (E[p], I[p]) with p = E.argsort()')
                    names = [('toPES_E_%s%s' % (vcfg, pcfg), e_), ('toPES_I%s_%s%s' % ('' if tail else '0', vcfg, scfg), i_)]
                    for nm, val in names:
                        if nm.startswith('toPES_E') and not tail:
                            continue
                        if nm in done:
                            continue
                        done.add(nm)
                        out.append('Definition %s %s : R := %s.' % (nm, sig, toR(val)))


def gen_circularize(F, out):
    fn = F['circularize']
    p = params(fn, 3)
    dflt = defaults(fn)
    if not (isinstance(dflt.get(p[2]), ast.Constant) and dflt[p[2]].value is None):
        raise Unsupported('circularize: ref_angle default changed')
    for cfg, ref, sig in (('mean', NoneV(), '(f : R -> R) (pixels : list (R * R)) (nrow ncol : Z) (i j : R)'),
                          ('ref', S('ref_angle'), '(f : R -> R) (ref_angle : R) (nrow ncol : Z) (i j : R)')):
        state = {}

        def c_map(ex, e):
            ex.kw(e, ())
            if len(e.args) != 2:
                bad(e, 'map_coordinates arguments')
            d, c = ex.ev(e.args[0]), ex.ev(e.args[1])
            if not (isinstance(d, Arr) and d.tag == 'image' and isinstance(c, Seq) and len(c.items) == 2
                    and all(isinstance(x, Arr) and x.ndim == 2 and x.shape == ('nrow', 'ncol') for x in c.items)):
                bad(e, 'map_coordinates arguments')
            state['coords'] = c.items
            return Arr(2, lambda idx: S('v'), ('nrow', 'ncol'), tag='sampled')

        ex = Exec({p[0]: image(('nrow', 'ncol')), p[1]: Fun('f'), p[2]: ref}, calls={'map_coordinates': c_map})
        r = ex.run(fn.body)
        if not (isinstance(r, Arr) and r.tag == 'sampled' and 'coords' in state):
            raise Unsupported('circularize: does not return the remapped image')
        out.append('(* circularize.py circularize, ref_angle %s: coordinates (axis 0, axis 1) handed to'
                   ' map_coordinates for the output pixel (i, j)%s *)'
                   % ('None' if cfg == 'mean' else 'given',
                      '; pixels = all (i, j) of the image (np.mean runs over them)' if cfg == 'mean' else ''))
        out.append('Definition circ_row_%s %s : R := %s.' % (cfg, sig, toR(state['coords'][0].elem(('i', 'j')))))
        out.append('Definition circ_col_%s %s : R := %s.' % (cfg, sig, toR(state['coords'][1].elem(('i', 'j')))))


HEADER = '''(* GENERATED by tools/translate/formulas_polar.py from the current sources
   abel/tools/polar.py, abel/tools/vmi.py, abel/tools/circularize.py — do not edit. *)
From Coq Require Import Reals ZArith List.
From PA Require Import model.Polar.
Open Scope R_scope.
'''


def text():
    P = parse('abel/tools/polar.py')
    V = parse('abel/tools/vmi.py')
    C = parse('abel/tools/circularize.py')
    for need, F in ((('cart2polar', 'polar2cart', 'index_coords', 'reproject_image_into_polar'), P),
                    (('radial_intensity', 'toPES', 'angular_integration_2D', 'angular_integration_3D',
                      'average_radial_intensity_2D', 'average_radial_intensity_3D'), V),
                    (('circularize',), C)):
        for n in need:
            if n not in F:
                raise Unsupported('function %s not found' % n)
    out = []
    gen_cart_polar(P, out)
    gen_index_coords(P, out)
    gen_reproject(P, out)
    gen_radial_intensity(V, out)
    gen_topes(V, out)
    gen_circularize(C, out)
    return HEADER + '\n'.join(out) + '\n'


def generate():
    t = text()
    vlib.write_if_changed(os.path.join(vlib.COQ, 'gen', 'FormulasPolar.v'), t)
    return t


if __name__ == '__main__':
    print(text())
