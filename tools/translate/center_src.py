# center_src.py — fail-closed translator: the trimming step of center_image
# (abel/tools/center.py, the statements between the first `rows, cols = IM.shape`
# and the origin dispatch) -> coq/gen/CenterGen.v
#
# Re-generates from the Python AST of the *current* source the Gallina function
#   ci_trim_gen odd_size square IM
# over Python integers (Z: //, % are floor division / modulo) and Python slices
# (model/Center.v: pyslice_o).  The committed file coq/proofs/CenterGenEq.v proves
# that it equals the hand-written model ci_trim the C12 theorems are about.
#
# Supported subset (anything else raises Unsupported = the tie is broken):
#   `rows, cols = IM.shape`; `IM = IM[...]` with basic slices a:b on either axis;
#   integer assignments and `-=`/`+=` with + - // % and unary minus over the
#   integer variables; if / else with conditions built from `and`, the boolean
#   parameters odd_size / square, comparisons of integer expressions and the
#   truth value of an integer expression.  The statements before and after the
#   block must be exactly the recorded ones (deprecation shim; origin dispatch;
#   call of set_center; return).
import ast
import os

import vlib


class Unsupported(Exception):
    pass


BOOL_PARAMS = ('odd_size', 'square')
PRE = ["if center is not _deprecated:\n    _deprecate('abel.tools.center.center_image() argument \"center\" is deprecated, "
       "use \"method\" instead.')\n    method = center"]
POST = ["if isinstance(method, string_types):\n    origin = find_origin(IM, method=method, axes=axes, verbose=verbose, **kwargs)\n"
        "else:\n    origin = method",
        "centered_data = set_center(IM, origin=origin, crop=crop, axes=axes, order=order, verbose=verbose)",
        "return centered_data"]
SIGNATURE = ['IM', 'method', 'odd_size', 'square', 'axes', 'crop', 'order', 'verbose', 'center']


def src(n):
    return ast.unparse(n)


def is_shape_assign(s):
    return (isinstance(s, ast.Assign) and len(s.targets) == 1 and isinstance(s.targets[0], ast.Tuple)
            and [getattr(t, 'id', None) for t in s.targets[0].elts] == ['rows', 'cols']
            and src(s.value) == 'IM.shape')


class Tr:
    def __init__(self):
        self.ints = set()          # integer variables bound so far

    # ---- integer expressions (Python ints -> Z) ----------------------------
    def z(self, n):
        if isinstance(n, ast.Constant) and type(n.value) is int:
            return '(%d)' % n.value
        if isinstance(n, ast.Name):
            if n.id not in self.ints:
                raise Unsupported('integer variable not bound here: ' + n.id)
            return n.id
        if isinstance(n, ast.UnaryOp) and isinstance(n.op, ast.USub):
            return '(- %s)' % self.z(n.operand)
        if isinstance(n, ast.BinOp):
            op = {ast.Add: '+', ast.Sub: '-', ast.FloorDiv: '/', ast.Mod: 'mod'}.get(type(n.op))
            if op:
                return '(%s %s %s)' % (self.z(n.left), op, self.z(n.right))
        raise Unsupported('integer expression: ' + src(n))

    def cond(self, n):
        if isinstance(n, ast.BoolOp) and isinstance(n.op, ast.And):
            return '(' + ' && '.join(self.cond(v) for v in n.values) + ')'
        if isinstance(n, ast.Name) and n.id in BOOL_PARAMS:
            return n.id
        if isinstance(n, ast.Compare) and len(n.ops) == 1:
            a, b = self.z(n.left), self.z(n.comparators[0])
            t = type(n.ops[0])
            if t is ast.Eq:
                return '(%s =? %s)' % (a, b)
            if t is ast.NotEq:
                return '(negb (%s =? %s))' % (a, b)
            if t is ast.Gt:
                return '(%s <? %s)' % (b, a)
            if t is ast.Lt:
                return '(%s <? %s)' % (a, b)
            if t is ast.GtE:
                return '(%s <=? %s)' % (b, a)
            if t is ast.LtE:
                return '(%s <=? %s)' % (a, b)
            raise Unsupported('comparison: ' + src(n))
        # truth value of an integer
        return '(negb (%s =? 0))' % self.z(n)

    # ---- image expressions ----------------------------------------------------
    def bound(self, n):
        return 'None' if n is None else '(Some %s)' % self.z(n)

    def slice1(self, sl):
        if not isinstance(sl, ast.Slice) or sl.step is not None:
            raise Unsupported('slice: ' + src(sl))
        if sl.lower is None and sl.upper is None:
            return None
        return '(pyslice_o %s %s)' % (self.bound(sl.lower), self.bound(sl.upper))

    def image(self, n):
        if isinstance(n, ast.Name) and n.id == 'IM':
            return 'IM'
        if isinstance(n, ast.Subscript) and isinstance(n.value, ast.Name) and n.value.id == 'IM':
            sl = n.slice
            parts = sl.elts if isinstance(sl, ast.Tuple) else [sl]
            if len(parts) > 2:
                raise Unsupported('subscript: ' + src(n))
            r = self.slice1(parts[0])
            c = self.slice1(parts[1]) if len(parts) == 2 else None
            e = 'IM'
            if c is not None:
                e = '(map %s %s)' % (c, e)
            if r is not None:
                e = '(%s %s)' % (r, e)
            return e
        raise Unsupported('image expression: ' + src(n))

    # ---- statements -------------------------------------------------------------
    def assigned(self, stmts):
        out = []
        for s in stmts:
            if is_shape_assign(s):
                names = ['rows', 'cols']
            elif isinstance(s, ast.Assign) and len(s.targets) == 1 and isinstance(s.targets[0], ast.Name):
                names = [s.targets[0].id]
            elif isinstance(s, ast.AugAssign) and isinstance(s.target, ast.Name):
                names = [s.target.id]
            elif isinstance(s, ast.If):
                names = self.assigned(s.body) + self.assigned(s.orelse)
            else:
                raise Unsupported('statement: ' + src(s)[:80])
            for v in names:
                if v not in out:
                    out.append(v)
        return out

    def tup(self, vs):
        return vs[0] if len(vs) == 1 else '(' + ', '.join(vs) + ')'

    def block(self, stmts, result):
        """Gallina expression for the value of the variables `result` after the statements"""
        if not stmts:
            for v in result:
                if v != 'IM' and v not in self.ints:
                    raise Unsupported('variable not bound on every path: ' + v)
            return self.tup(result)
        s, rest = stmts[0], stmts[1:]
        if is_shape_assign(s):
            self.ints |= {'rows', 'cols'}
            return ('let rows := Z.of_nat (nrows IM) in let cols := Z.of_nat (ncols IM) in\n  '
                    + self.block(rest, result))
        if isinstance(s, ast.Assign) and len(s.targets) == 1 and isinstance(s.targets[0], ast.Name):
            t = s.targets[0].id
            if t == 'IM':
                return 'let IM := %s in\n  %s' % (self.image(s.value), self.block(rest, result))
            e = self.z(s.value)
            self.ints.add(t)
            return 'let %s := %s in\n  %s' % (t, e, self.block(rest, result))
        if isinstance(s, ast.AugAssign) and isinstance(s.target, ast.Name) and s.target.id in self.ints \
                and isinstance(s.op, (ast.Add, ast.Sub)):
            t = s.target.id
            return 'let %s := (%s %s %s) in\n  %s' % (t, t, '+' if isinstance(s.op, ast.Add) else '-', self.z(s.value),
                                                     self.block(rest, result))
        if isinstance(s, ast.If):
            c = self.cond(s.test)
            before = set(self.ints)
            # variables visible after the statement: those assigned in a branch that were bound before it
            vs = [v for v in self.assigned(s.body) + self.assigned(s.orelse) if v == 'IM' or v in before]
            vs = [v for i, v in enumerate(vs) if v not in vs[:i]]
            if not vs:
                raise Unsupported('if statement without effect: ' + src(s)[:60])
            self.ints = set(before)
            tb = self.block(s.body, vs)
            self.ints = set(before)
            eb = self.block(s.orelse, vs)
            self.ints = set(before)
            pat = vs[0] if len(vs) == 1 else "'" + self.tup(vs)
            return 'let %s := if %s then (%s) else (%s) in\n  %s' % (pat, c, tb, eb, self.block(rest, result))
        raise Unsupported('statement: ' + src(s)[:80])


HEADER = '''(* GENERATED by tools/translate/center_src.py from %s -- do not edit.
   Regenerated from the current source on every run of the checks. *)
From Coq Require Import List Arith Bool ZArith.
From PA Require Import base.Arr model.Center.
Import ListNotations.
Local Open Scope Z_scope.
Local Open Scope bool_scope.

'''


def trimming_block():
    path = os.path.join(vlib.REPO, 'abel', 'tools', 'center.py')
    tree = ast.parse(open(path).read())
    fns = {f.name: f for f in tree.body if isinstance(f, ast.FunctionDef)}
    f = fns['center_image']
    args = [a.arg for a in f.args.args]
    if args != SIGNATURE or f.args.kwarg is None or f.args.kwarg.arg != 'kwargs':
        raise Unsupported('center_image signature changed: %r' % args)
    body = list(f.body)
    if body and isinstance(body[0], ast.Expr) and isinstance(body[0].value, ast.Constant):
        body = body[1:]                                  # docstring
    first = next((i for i, s in enumerate(body) if is_shape_assign(s)), None)
    if first is None:
        raise Unsupported('`rows, cols = IM.shape` not found')
    if [src(s) for s in body[:first]] != PRE:
        raise Unsupported('statements before the trimming step changed')
    if [src(s) for s in body[-len(POST):]] != POST:
        raise Unsupported('statements after the trimming step changed: %r' % [src(s)[:50] for s in body[-len(POST):]])
    return body[first:len(body) - len(POST)]


def generate():
    stmts = trimming_block()
    e = Tr().block(stmts, ['IM'])
    text = HEADER % 'abel/tools/center.py (center_image)'
    text += ('Definition ci_trim_gen (A : Type) (odd_size square : bool) (IM : list (list A)) : list (list A) :=\n  %s.\n' % e)
    vlib.write_if_changed(os.path.join(vlib.COQ, 'gen', 'CenterGen.v'), text)
    return text


if __name__ == '__main__':
    print(generate())
