# Committed, TRUSTED table of effect summaries for the numpy / scipy / builtin
# callables and the array / container methods that PyAbel uses (property C18).
# The alias translator fails closed on any callable that is not listed here.
#
# A summary is a small string:
#   'scalar'        the result holds no buffer (number, bool, str, shape tuple ...)
#   'fresh'         the result is a newly allocated buffer; no argument is written
#   'view'          the result may share the buffer of any buffer argument (or be new)
#   'view:K'        ... of positional argument K only (or be new)
#   'hold'          a new container/object that keeps references to its arguments
#   'write:K'       positional argument K is written in place; result as 'view:K'
#   'ufuncN'        numpy ufunc with N inputs: positional arguments beyond N and the
#                   keyword out= are written in place and returned; otherwise fresh
#   'callback:K'    positional argument K is a function that is called with new
#                   arrays and/or the other buffer arguments; result fresh or
#                   whatever the callback returns
# For every callable the keyword `out=` (and `output=` of scipy.ndimage given an
# array) is treated as written in place and returned.

EXT = {
    # ---- builtins
    'builtins.len': 'scalar', 'builtins.int': 'scalar', 'builtins.float': 'scalar', 'builtins.str': 'scalar',
    'builtins.bool': 'scalar', 'builtins.repr': 'scalar', 'builtins.round': 'scalar', 'builtins.abs': 'fresh',
    'builtins.isinstance': 'scalar', 'builtins.hasattr': 'scalar', 'builtins.type': 'scalar',
    'builtins.print': 'scalar', 'builtins.range': 'scalar', 'builtins.slice': 'scalar', 'builtins.id': 'scalar',
    'builtins.callable': 'scalar', 'builtins.ord': 'scalar', 'builtins.chr': 'scalar', 'builtins.divmod': 'scalar',
    'builtins.pow': 'scalar', 'builtins.open': 'scalar', 'builtins.any': 'scalar', 'builtins.all': 'scalar',
    'builtins.max': 'view', 'builtins.min': 'view', 'builtins.sum': 'fresh', 'builtins.sorted': 'hold',
    'builtins.list': 'hold', 'builtins.tuple': 'hold', 'builtins.dict': 'hold', 'builtins.set': 'hold',
    'builtins.frozenset': 'hold', 'builtins.zip': 'hold', 'builtins.enumerate': 'hold', 'builtins.reversed': 'hold', 'builtins.iter': 'hold',
    'builtins.next': 'view', 'builtins.getattr': 'view', 'builtins.map': 'callback:0', 'builtins.filter': 'callback:0',
    'builtins.ValueError': 'scalar', 'builtins.RuntimeError': 'scalar', 'builtins.TypeError': 'scalar',
    'builtins.IndexError': 'scalar', 'builtins.KeyError': 'scalar', 'builtins.NotImplementedError': 'scalar',
    'builtins.AttributeError': 'scalar', 'builtins.Exception': 'scalar', 'builtins.OSError': 'scalar',
    'builtins.IOError': 'scalar', 'builtins.ImportError': 'scalar', 'builtins.DeprecationWarning': 'scalar',
    'builtins.super': 'scalar',
    # ---- stdlib
    'time.time': 'scalar', 'math.exp': 'scalar', 'math.log': 'scalar', 'math.sqrt': 'scalar',
    'warnings.warn': 'scalar', 'warnings.filterwarnings': 'scalar', 'glob.glob': 'scalar',
    'os.getenv': 'scalar', 'os.getpid': 'scalar', 'os.replace': 'scalar', 'os.rename': 'scalar', 'os.unlink': 'scalar',
    'os.rmdir': 'scalar', 'os.fsync': 'scalar', 'os.path.abspath': 'scalar', 'os.path.splitext': 'scalar',
    'os.path.getsize': 'scalar', 'tempfile.mkstemp': 'scalar', 'tempfile.mkdtemp': 'scalar',
    'tempfile.NamedTemporaryFile': 'scalar', 'os.close': 'scalar', 'os.fdopen': 'scalar',
    'builtins.BaseException': 'scalar', 'os.makedirs': 'scalar', 'os.remove': 'scalar', 'os.listdir': 'scalar',
    'os.path.join': 'scalar', 'os.path.exists': 'scalar', 'os.path.expanduser': 'scalar',
    'os.path.basename': 'scalar', 'os.path.isdir': 'scalar', 'os.path.isfile': 'scalar', 'os.path.dirname': 'scalar',
    'sys.stdout.flush': 'scalar', 'sys.modules.get': 'scalar', 're.compile': 'scalar', 're.match': 'scalar',
    'platform.system': 'scalar', 'itertools.product': 'hold', 'six.string_types': 'scalar',
    # ---- numpy: scalars / shapes / predicates
    'numpy.ndim': 'scalar', 'numpy.shape': 'scalar', 'numpy.isscalar': 'scalar', 'numpy.size': 'scalar',
    'numpy.allclose': 'scalar', 'numpy.array_equal': 'scalar', 'numpy.any': 'fresh', 'numpy.all': 'fresh',
    'numpy.argmax': 'fresh', 'numpy.argmin': 'fresh', 'numpy.save': 'scalar', 'numpy.iterable': 'scalar',
    'numpy.issubdtype': 'scalar', 'numpy.count_nonzero': 'scalar', 'numpy.finfo': 'scalar', 'numpy.dtype': 'scalar', 'numpy.float64': 'fresh',
    'numpy.errstate': 'scalar', 'numpy.seterr': 'scalar',
    # ---- numpy: always a new array
    'numpy.array': 'fresh',          # default copy=True (np.array(x, copy=False) is handled as 'view')
    'numpy.copy': 'fresh', 'numpy.arange': 'fresh', 'numpy.linspace': 'fresh', 'numpy.zeros': 'fresh',
    'numpy.ones': 'fresh', 'numpy.empty': 'fresh', 'numpy.full': 'fresh', 'numpy.eye': 'fresh', 'numpy.identity': 'fresh',
    'numpy.zeros_like': 'fresh', 'numpy.ones_like': 'fresh', 'numpy.empty_like': 'fresh', 'numpy.full_like': 'fresh',
    'numpy.tri': 'fresh', 'numpy.tril': 'fresh', 'numpy.triu': 'fresh', 'numpy.diag': 'fresh',
    'numpy.diag_indices': 'fresh', 'numpy.diag_indices_from': 'fresh', 'numpy.triu_indices': 'fresh',
    'numpy.tril_indices': 'fresh', 'numpy.indices': 'fresh', 'numpy.meshgrid': 'fresh', 'numpy.mgrid': 'fresh',
    'numpy.concatenate': 'fresh', 'numpy.hstack': 'fresh', 'numpy.vstack': 'fresh', 'numpy.stack': 'fresh',
    'numpy.block': 'fresh', 'numpy.append': 'fresh', 'numpy.pad': 'fresh', 'numpy.outer': 'fresh',
    'numpy.dot': 'fresh', 'numpy.tensordot': 'fresh', 'numpy.einsum': 'fresh', 'numpy.convolve': 'fresh',
    'numpy.diff': 'fresh', 'numpy.gradient': 'fresh', 'numpy.interp': 'fresh', 'numpy.bincount': 'fresh',
    'numpy.cumprod': 'fresh', 'numpy.cumsum': 'fresh', 'numpy.sum': 'fresh', 'numpy.mean': 'fresh',
    'numpy.max': 'fresh', 'numpy.min': 'fresh', 'numpy.amax': 'fresh', 'numpy.amin': 'fresh', 'numpy.prod': 'fresh',
    'numpy.where': 'fresh', 'numpy.searchsorted': 'fresh', 'numpy.trim_zeros': 'view:0', 'numpy.sort': 'fresh',
    'numpy.argsort': 'fresh', 'numpy.unique': 'fresh', 'numpy.roll': 'fresh', 'numpy.repeat': 'fresh',
    'numpy.tile': 'fresh', 'numpy.load': 'fresh', 'numpy.loadtxt': 'fresh', 'numpy.fromfile': 'fresh',
    'numpy.polyfit': 'fresh', 'numpy.polyval': 'fresh', 'numpy.trapezoid': 'fresh', 'numpy.trapz': 'fresh',
    'numpy.nan_to_num': 'fresh', 'numpy.isnan': 'fresh', 'numpy.isfinite': 'fresh', 'numpy.round': 'fresh',
    'numpy.linalg.lstsq': 'fresh', 'numpy.linalg.inv': 'fresh', 'numpy.linalg.solve': 'fresh',
    'numpy.linalg.norm': 'fresh', 'numpy.linalg.svd': 'fresh', 'numpy.linalg.pinv': 'fresh',
    'numpy.random.default_rng': 'scalar', 'numpy.random.randn': 'fresh', 'numpy.random.rand': 'fresh', 'numpy.random.random': 'fresh',
    'numpy.random.seed': 'scalar',
    # ---- numpy: may return a view of (or the very same object as) an argument
    'numpy.asarray': 'view:0', 'numpy.asanyarray': 'view:0', 'numpy.ascontiguousarray': 'view:0',
    'numpy.atleast_1d': 'view', 'numpy.atleast_2d': 'view', 'numpy.atleast_3d': 'view',
    'numpy.reshape': 'view:0', 'numpy.ravel': 'view:0', 'numpy.squeeze': 'view:0', 'numpy.transpose': 'view:0',
    'numpy.swapaxes': 'view:0', 'numpy.moveaxis': 'view:0', 'numpy.flip': 'view:0', 'numpy.fliplr': 'view:0',
    'numpy.flipud': 'view:0', 'numpy.rot90': 'view:0', 'numpy.split': 'view:0', 'numpy.vsplit': 'view:0',
    'numpy.hsplit': 'view:0', 'numpy.array_split': 'view:0', 'numpy.broadcast_to': 'view:0',
    'numpy.broadcast_arrays': 'view', 'numpy.expand_dims': 'view:0', 'numpy.real': 'view:0', 'numpy.imag': 'view:0',
    'numpy.diagonal': 'view:0',
    # ---- numpy: in place
    'numpy.copyto': 'write:0', 'numpy.put': 'write:0', 'numpy.place': 'write:0', 'numpy.putmask': 'write:0',
    'numpy.fill_diagonal': 'write:0',
    # ---- numpy ufuncs
    'numpy.sqrt': 'ufunc1', 'numpy.exp': 'ufunc1', 'numpy.log': 'ufunc1', 'numpy.log10': 'ufunc1',
    'numpy.sin': 'ufunc1', 'numpy.cos': 'ufunc1', 'numpy.tan': 'ufunc1', 'numpy.arcsin': 'ufunc1',
    'numpy.arccos': 'ufunc1', 'numpy.arctan': 'ufunc1', 'numpy.sinh': 'ufunc1', 'numpy.cosh': 'ufunc1',
    'numpy.arccosh': 'ufunc1', 'numpy.arcsinh': 'ufunc1', 'numpy.abs': 'ufunc1', 'numpy.absolute': 'ufunc1',
    'numpy.fabs': 'ufunc1', 'numpy.sign': 'ufunc1', 'numpy.ceil': 'ufunc1', 'numpy.floor': 'ufunc1',
    'numpy.rint': 'ufunc1', 'numpy.square': 'ufunc1', 'numpy.negative': 'ufunc1', 'numpy.logical_not': 'ufunc1',
    'numpy.conj': 'ufunc1', 'numpy.arctan2': 'ufunc2', 'numpy.hypot': 'ufunc2', 'numpy.add': 'ufunc2',
    'numpy.subtract': 'ufunc2', 'numpy.multiply': 'ufunc2', 'numpy.divide': 'ufunc2', 'numpy.true_divide': 'ufunc2',
    'numpy.power': 'ufunc2', 'numpy.maximum': 'ufunc2', 'numpy.minimum': 'ufunc2', 'numpy.logical_and': 'ufunc2',
    'numpy.logical_or': 'ufunc2', 'numpy.mod': 'ufunc2', 'numpy.floor_divide': 'ufunc2', 'numpy.fmod': 'ufunc2',
    # ---- scipy
    'scipy.ndimage.map_coordinates': 'fresh', 'scipy.ndimage.shift': 'fresh', 'scipy.ndimage.rotate': 'fresh',
    'scipy.ndimage.center_of_mass': 'scalar', 'scipy.ndimage.gaussian_filter1d': 'fresh',
    'scipy.ndimage.uniform_filter1d': 'fresh', 'scipy.ndimage.gaussian_filter': 'fresh',
    'scipy.linalg.inv': 'fresh', 'scipy.linalg.pascal': 'fresh', 'scipy.linalg.invpascal': 'fresh',
    'scipy.linalg.toeplitz': 'fresh', 'scipy.linalg.hankel': 'fresh', 'scipy.linalg.circulant': 'fresh',
    'scipy.linalg.solve_banded': 'fresh', 'scipy.linalg.solve_triangular': 'fresh', 'scipy.linalg.svd': 'fresh',
    'scipy.special.legendre': 'fresh', 'scipy.special.eval_legendre': 'fresh', 'scipy.special.gammaln': 'fresh',
    'scipy.optimize.nnls': 'fresh', 'scipy.optimize.curve_fit': 'callback:0', 'scipy.optimize.leastsq': 'callback:0',
    'scipy.optimize.minimize': 'callback:0', 'scipy.optimize.brentq': 'callback:0',
    'scipy.interpolate.interp1d': 'fresh',          # copy=True by default
    'scipy.interpolate.UnivariateSpline': 'fresh', 'scipy.interpolate.splrep': 'fresh',
    'scipy.interpolate.splev': 'fresh', 'scipy.interpolate.PPoly': 'hold',
    'scipy.interpolate.PPoly.from_spline': 'fresh',
    'scipy.fftpack.fft': 'fresh', 'scipy.fftpack.ifft': 'fresh', 'scipy.fftpack.fft2': 'fresh',
    'scipy.fftpack.ifft2': 'fresh',
    'scipy.constants.physical_constants': 'scalar',
    # ---- PyAbel's optional compiled extension (not built here; specification only)
    'abel.lib.direct._cabel_direct_integral': 'fresh',
}

# Methods, by name (the type of the receiver is not known statically).
#   'scalar' / 'fresh' / 'view' (of the receiver) as above
#   'write'      the receiver is modified in place (result: the receiver, or nothing)
#   'write+hold' the receiver (a list/dict/set) is modified and now also holds the arguments
#   'call'       calling an object (a spline, interp1d, poly1d ...): fresh
METHODS = {
    # ndarray: views
    'reshape': 'view', 'ravel': 'view', 'view': 'view', 'squeeze': 'view', 'transpose': 'view',
    'swapaxes': 'view', 'diagonal': 'view', 'get': 'view', 'items': 'view', 'values': 'view', 'keys': 'scalar',
    # ndarray: new arrays / scalars
    'astype': 'fresh',            # default copy=True; astype(..., copy=False) is handled as 'view'
    'copy': 'copy', 'flatten': 'fresh', 'sum': 'fresh', 'mean': 'fresh', 'std': 'fresh', 'max': 'fresh', 'min': 'fresh',
    'dot': 'fresh', 'argmax': 'fresh', 'argmin': 'fresh', 'argsort': 'fresh', 'nonzero': 'fresh', 'all': 'fresh',
    'any': 'fresh', 'round': 'fresh', 'tolist': 'fresh', 'cumsum': 'fresh', 'prod': 'fresh', 'conj': 'fresh',
    'clip': 'fresh', 'repeat': 'fresh', 'take': 'fresh', 'trace': 'fresh', 'item': 'scalar', 'tobytes': 'scalar',
    'index': 'scalar', 'count': 'scalar',
    # in place
    'sort': 'write', 'fill': 'write', 'resize': 'write', 'put': 'write', 'itemset': 'write', 'partition': 'write',
    'reverse': 'write', 'clear': 'write', 'pop': 'write', 'popitem': 'write', 'remove': 'write', 'discard': 'write',
    'append': 'write+hold', 'extend': 'write+hold', 'insert': 'write+hold', 'update': 'write+hold',
    'setdefault': 'write+hold', 'add': 'write+hold',
    # strings / regex / misc objects
    'format': 'scalar', 'join': 'scalar', 'lower': 'scalar', 'upper': 'scalar', 'split': 'scalar', 'replace': 'scalar',
    'startswith': 'scalar', 'endswith': 'scalar', 'strip': 'scalar', 'match': 'scalar', 'groups': 'scalar',
    'group': 'scalar', 'flush': 'scalar', 'write': 'scalar', 'warn': 'scalar', 'system': 'scalar',
    # scipy spline objects
    '__new__': 'fresh',            # cls.__new__(type(self)): a new, empty object
    'get_coeffs': 'fresh', 'get_knots': 'fresh', 'from_spline': 'fresh',
}

# attributes of arrays
ATTR_VIEW = {'T', 'real', 'imag', 'flat', 'base', 'c', 'x'}        # (.c / .x: coefficient arrays of PPoly objects)
ATTR_SCALAR = {'shape', 'ndim', 'size', 'dtype', 'itemsize', 'nbytes', 'strides', 'flags', '__name__', '__doc__'}

NUMPY_CONSTANTS = {'pi', 'inf', 'nan', 'e', 'newaxis', 'float64', 'float32', 'int32', 'int64', 'uint8', 'uint16',
                   'bool_', 'complex128', 'float_', 'int_', 'euler_gamma'}
