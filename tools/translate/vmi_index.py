# vmi_index.py — fail-closed translator of the integer/boolean index arithmetic of
#   abel/tools/vmi.py   Distributions.__init__  (odd resolution, number of angular terms N)
#                       Distributions.Results.__init__  (orders, sinpowers)
#   abel/rbasex.py      rbasex_transform  (odd resolution; height/width/row requested from
#                       _image for every `out` value)
# into Gallina (coq/gen/VmiIndex.v).  proofs/VmiIndexProofs.v proves on every run that the
# generated functions equal the hand-written model (DistrGeom.resolve_odd/nterms,
# DistrRepr.orders/sinpowers, RbasexOut.out_dims).  Any construct outside the small subset
# below raises (the check then reports the tie as broken).
import ast
import os

import vlib

OUT = os.path.join(vlib.COQ, 'gen', 'VmiIndex.v')


class Unsupported(Exception):
    pass


def fail(node, why):
    raise Unsupported('vmi_index translator: %s at line %s: %s'
                      % (why, getattr(node, 'lineno', '?'), ast.dump(node)[:160]))


DST = {'VER': 'g_VER g', 'HOR': 'g_HOR g', 'row': 'g_row g', 'col': 'g_col g',
       'Qheight': 'g_Qh g', 'Qwidth': 'g_Qw g', 'rmax': 'g_rmax g'}


class Expr:
    """nat / bool expressions over the given variable map."""

    def __init__(self, names, selfattrs=None):
        self.names = names              # python name -> (coq text, 'nat' | 'bool')
        self.selfattrs = selfattrs or {}

    def nat(self, e):
        if isinstance(e, ast.Constant) and type(e.value) is int and e.value >= 0:
            return str(e.value)
        if isinstance(e, ast.Name) and self.names.get(e.id, (None, None))[1] == 'nat':
            return self.names[e.id][0]
        if isinstance(e, ast.Attribute) and isinstance(e.value, ast.Name):
            if e.value.id == '_dst' and e.attr in DST:
                return '(%s)' % DST[e.attr]
            if e.value.id == 'self' and self.selfattrs.get(e.attr, (None, None))[1] == 'nat':
                return self.selfattrs[e.attr][0]
        if (isinstance(e, ast.Subscript) and isinstance(e.value, ast.Attribute) and isinstance(e.value.value, ast.Name)
                and e.value.value.id == '_dst' and e.value.attr == 'shape'
                and isinstance(e.slice, ast.Constant) and e.slice.value == 0):
            return '(g_h g)'
        if isinstance(e, ast.BinOp):
            # x & ~1  (clear the lowest bit of a non-negative integer)
            if (isinstance(e.op, ast.BitAnd) and isinstance(e.right, ast.UnaryOp) and isinstance(e.right.op, ast.Invert)
                    and isinstance(e.right.operand, ast.Constant) and e.right.operand.value == 1):
                return '(clear_bit0 %s)' % self.nat(e.left)
            op = {ast.Add: '+', ast.Sub: '-', ast.Mult: '*', ast.FloorDiv: '/', ast.Mod: 'mod'}.get(type(e.op))
            if op is None:
                fail(e, 'unsupported integer operator')
            return '(%s %s %s)' % (self.nat(e.left), op, self.nat(e.right))
        if isinstance(e, ast.IfExp):
            return '(if %s then %s else %s)' % (self.bool(e.test), self.nat(e.body), self.nat(e.orelse))
        fail(e, 'unsupported integer expression')

    def bool(self, e):
        if isinstance(e, ast.Constant) and type(e.value) is bool:
            return 'true' if e.value else 'false'
        if isinstance(e, ast.Name) and self.names.get(e.id, (None, None))[1] == 'bool':
            return self.names[e.id][0]
        if isinstance(e, ast.Attribute) and isinstance(e.value, ast.Name) and e.value.id == 'self' \
                and self.selfattrs.get(e.attr, (None, None))[1] == 'bool':
            return self.selfattrs[e.attr][0]
        if isinstance(e, ast.Compare) and len(e.ops) == 1 and isinstance(e.ops[0], ast.Eq):
            return '(Nat.eqb %s %s)' % (self.nat(e.left), self.nat(e.comparators[0]))
        # truthiness of an integer expression (`elif order % 2:`)
        try:
            return '(negb (Nat.eqb %s 0))' % self.nat(e)
        except Unsupported:
            fail(e, 'unsupported test')


def find_class_func(tree, path):
    node = tree
    for name in path:
        for ch in node.body:
            if isinstance(ch, (ast.ClassDef, ast.FunctionDef)) and ch.name == name:
                node = ch
                break
        else:
            raise Unsupported('%s not found' % '.'.join(path))
    return node


def odd_chain(stmt, ex, target):
    """if order == 0: T = False / elif order % 2: T = True [/ else: T = odd]  ->  bool expr."""
    def assigned(body):
        if len(body) != 1 or not isinstance(body[0], ast.Assign) or len(body[0].targets) != 1:
            fail(stmt, 'unexpected branch body')
        t = body[0].targets[0]
        ok = (isinstance(t, ast.Name) and t.id == target) or \
             (isinstance(t, ast.Attribute) and isinstance(t.value, ast.Name) and t.value.id == 'self' and t.attr == target)
        if not ok:
            fail(stmt, 'unexpected assignment target')
        return ex.bool(body[0].value)
    if not isinstance(stmt, ast.If):
        fail(stmt, 'expected if')
    t1 = ex.bool(stmt.test)
    v1 = assigned(stmt.body)
    if len(stmt.orelse) != 1 or not isinstance(stmt.orelse[0], ast.If):
        fail(stmt, 'expected elif')
    s2 = stmt.orelse[0]
    t2 = ex.bool(s2.test)
    v2 = assigned(s2.body)
    v3 = assigned(s2.orelse) if s2.orelse else ex.names['odd'][0]
    return '(if %s then %s else if %s then %s else %s)' % (t1, v1, t2, v2, v3)


def is_order_eq0(node):
    return (isinstance(node, ast.If) and isinstance(node.test, ast.Compare) and isinstance(node.test.left, ast.Name)
            and node.test.left.id == 'order' and isinstance(node.test.ops[0], ast.Eq)
            and isinstance(node.test.comparators[0], ast.Constant) and node.test.comparators[0].value == 0)


def self_assign(fn, attr):
    found = [st for st in fn.body if isinstance(st, ast.Assign) and len(st.targets) == 1
             and isinstance(st.targets[0], ast.Attribute) and isinstance(st.targets[0].value, ast.Name)
             and st.targets[0].value.id == 'self' and st.targets[0].attr == attr]
    if len(found) != 1:
        raise Unsupported('expected exactly one top-level assignment to self.%s in %s' % (attr, fn.name))
    return found[0].value


HEADER = '''(* GENERATED by tools/translate/vmi_index.py from abel/tools/vmi.py and abel/rbasex.py
   (do not edit): index arithmetic of Distributions.__init__, Results.__init__ and of the
   output-size selection of rbasex_transform. *)
From Coq Require Import List Arith Bool.
From PA Require Import model.DistrGeom model.RbasexOut.
Import ListNotations.

(* range(start, stop, step) for step > 0 *)
Definition pyrange (start stop step : nat) : list nat :=
  map (fun k => start + k * step) (seq 0 ((stop - start + step - 1) / step)).
(* m & ~1 for m >= 0 *)
Definition clear_bit0 (m : nat) : nat := m - m mod 2.

'''


def generate():
    vmi = ast.parse(open(os.path.join(vlib.REPO, 'abel', 'tools', 'vmi.py')).read())
    rbx = ast.parse(open(os.path.join(vlib.REPO, 'abel', 'rbasex.py')).read())
    out = HEADER
    names = {'order': ('order', 'nat'), 'odd': ('odd', 'bool')}

    # --- Distributions.__init__ -------------------------------------------------------
    init = find_class_func(vmi, ['Distributions', '__init__'])
    chains = [st for st in init.body if is_order_eq0(st)]
    if len(chains) != 1:
        raise Unsupported('Distributions.__init__: expected one `if order == 0` chain')
    out += 'Definition gen_init_odd (order : nat) (odd : bool) : bool :=\n  %s.\n\n' % odd_chain(chains[0], Expr(names), 'odd')
    exN = Expr(names, {'odd': ('sodd', 'bool')})
    out += ('Definition gen_init_N (order : nat) (sodd : bool) : nat :=\n  %s.\n\n'
            % exN.nat(self_assign(init, 'N')))

    # --- Results.__init__ ---------------------------------------------------------------
    rinit = find_class_func(vmi, ['Distributions', 'Results', '__init__'])
    v = self_assign(rinit, 'orders')
    if not (isinstance(v, ast.Call) and isinstance(v.func, ast.Name) and v.func.id == 'list' and len(v.args) == 1
            and isinstance(v.args[0], ast.Call) and isinstance(v.args[0].func, ast.Name) and v.args[0].func.id == 'range'
            and len(v.args[0].args) == 3 and not v.args[0].keywords):
        fail(v, 'self.orders is not list(range(a, b, c))')
    ex = Expr(names)
    a, b, c = [ex.nat(x) for x in v.args[0].args]
    out += 'Definition gen_orders (order : nat) (odd : bool) : list nat :=\n  pyrange %s %s %s.\n\n' % (a, b, c)
    v = self_assign(rinit, 'sinpowers')
    if not (isinstance(v, ast.ListComp) and len(v.generators) == 1 and not v.generators[0].ifs
            and isinstance(v.generators[0].target, ast.Name)
            and isinstance(v.generators[0].iter, ast.Attribute) and v.generators[0].iter.attr == 'orders'
            and isinstance(v.generators[0].iter.value, ast.Name) and v.generators[0].iter.value.id == 'self'):
        fail(v, 'self.sinpowers is not [f(n) for n in self.orders]')
    var = v.generators[0].target.id
    exs = Expr(dict(names, **{var: (var, 'nat')}))
    out += ('Definition gen_sinpowers (order : nat) (odd : bool) : list nat :=\n  map (fun %s => %s) (gen_orders order odd).\n\n'
            % (var, exs.nat(v.elt)))

    # --- rbasex_transform ------------------------------------------------------------------
    rt = find_class_func(rbx, ['rbasex_transform'])
    chains = [st for st in rt.body if is_order_eq0(st)]
    if len(chains) != 1:
        raise Unsupported('rbasex_transform: expected one `if order == 0` chain')
    out += 'Definition gen_rbasex_odd (order : nat) (odd : bool) : bool :=\n  %s.\n\n' % odd_chain(chains[0], Expr(names), 'odd')
    # Rmax = _dst.rmax
    rm = [st for st in rt.body if isinstance(st, ast.Assign) and len(st.targets) == 1 and isinstance(st.targets[0], ast.Name)
          and st.targets[0].id == 'Rmax']
    if len(rm) != 1 or not (isinstance(rm[0].value, ast.Attribute) and rm[0].value.attr == 'rmax'
                            and isinstance(rm[0].value.value, ast.Name) and rm[0].value.value.id == '_dst'):
        raise Unsupported('rbasex_transform: expected Rmax = _dst.rmax')
    exo = Expr({'odd': ('(g_odd g)', 'bool'), 'Rmax': ('(g_rmax g)', 'nat')})
    sel = [st for st in rt.body if isinstance(st, ast.If) and isinstance(st.test, ast.Compare)
           and isinstance(st.test.left, ast.Name) and st.test.left.id == 'out' and isinstance(st.test.ops[0], ast.Eq)
           and isinstance(st.test.comparators[0], ast.Constant) and st.test.comparators[0].value == 'same'
           and any(isinstance(b, ast.Assign) and isinstance(b.targets[0], ast.Name) and b.targets[0].id == 'height'
                   for b in st.body)]
    if len(sel) != 1:
        raise Unsupported("rbasex_transform: expected one `if out == 'same'` chain")
    COQ = {'same': 'OSame', 'fold': 'OFold', 'unfold': 'OUnfold', 'full': 'OFull', 'full-unique': 'OFullUnique'}
    table = {}
    st = sel[0]
    while True:
        t = st.test
        if isinstance(t.ops[0], ast.Eq) and isinstance(t.comparators[0], ast.Constant):
            keys = [t.comparators[0].value]
        elif isinstance(t.ops[0], ast.In) and isinstance(t.comparators[0], ast.List) \
                and all(isinstance(x, ast.Constant) for x in t.comparators[0].elts):
            keys = [x.value for x in t.comparators[0].elts]
        else:
            fail(t, 'unsupported out test')
        vals = {}
        for s in st.body:
            if not (isinstance(s, ast.Assign) and len(s.targets) == 1 and isinstance(s.targets[0], ast.Name)
                    and s.targets[0].id in ('height', 'width', 'row')):
                fail(s, 'unexpected statement in out branch')
            vals[s.targets[0].id] = exo.nat(s.value)
        if set(vals) != {'height', 'width', 'row'}:
            fail(st, 'branch does not set height, width and row')
        for k in keys:
            if k not in COQ or k in table:
                fail(st, 'unknown or repeated out value %r' % (k,))
            table[k] = vals
        if len(st.orelse) == 1 and isinstance(st.orelse[0], ast.If):
            st = st.orelse[0]
            continue
        if not (len(st.orelse) == 1 and isinstance(st.orelse[0], ast.Raise)):
            fail(st, 'the chain must end with raise')
        break
    if set(table) != set(COQ):
        raise Unsupported('out values handled: %r' % sorted(table))
    out += 'Definition gen_out_dims (out : outv) (g : geom) : nat * nat * nat :=\n  match out with\n'
    for k in ('same', 'fold', 'unfold', 'full', 'full-unique'):
        out += '  | %s => (%s, %s, %s)\n' % (COQ[k], table[k]['height'], table[k]['width'], table[k]['row'])
    out += '  end.\n'
    vlib.write_if_changed(OUT, out)
    return out


if __name__ == '__main__':
    print(generate())
