# _symexec.py — a small fail-closed symbolic interpreter for the numpy
# linear-algebra code of PyAbel (shared by matrix_expr.py and dr_sites.py).
#
# It executes Python `ast` of *the current /repo sources* on a mixture of
# concrete option values (None, numbers, strings, tuples, booleans) and
# symbolic matrices / scalars, and yields the mathcomp term that the code
# evaluates on the chosen path.  Anything outside the supported subset raises
# `Unsupported` (the translator then fails and the check reports a broken tie).
#
# Modelling decisions (trusted, see coq/base/MxNp.v):
#   X.dot(Y)                      mulmx; a 1-D vector is a row vector, so
#                                 A.dot(v) with v 1-D is  v *m A^T
#   X.T                           trmx
#   scipy.linalg.inv(A)           invmx A                 (by specification)
#   solve_triangular(A, B, lower) invmx (lower/upper part of A) *m B
#                                 (by specification: LAPACK trtrs reads only
#                                 the named triangle)
#   np.tensordot(X, D, axes=(1, 1))   X *m D^T
#   np.eye(k) -> 1%:M ; np.diag([x]*k) -> x%:M
#   A.sum(axis=0) -> colsum A ; M /= v (v 1-D) -> coldiv M v
#   a store into an element / a toeplitz / eye(k=...) call makes the matrix an
#   arbitrary ("opaque") matrix: the generated definition takes it as a
#   parameter, so every theorem holds for all values of it.
import ast


class Unsupported(Exception):
    pass


class PyRaise(Exception):
    """The interpreted code executed a `raise`."""
    def __init__(self, what):
        Exception.__init__(self, what)


class _Return(Exception):
    def __init__(self, v):
        self.v = v


class Dim:
    """symbolic non-negative integer  name + off"""
    def __init__(self, name, off=0):
        self.name, self.off = name, off

    def __eq__(self, o):
        return isinstance(o, Dim) and (self.name, self.off) == (o.name, o.off)

    def __hash__(self):
        return hash((self.name, self.off))

    def coq(self):
        return self.name + '.+1' * self.off

    def __repr__(self):
        return 'Dim(%s)' % self.coq()


class Mx:
    """symbolic matrix (vec=True: a numpy 1-D array, modelled as a row vector)"""
    def __init__(self, coq, r, c, vec=False, atom=False, ev=None):
        self.coq, self.r, self.c, self.vec, self.atom = coq, r, c, vec, atom
        self.ev = ev        # numeric meaning of the Coq term: env -> numpy value

    def p(self):
        return self.coq if self.atom else '(%s)' % self.coq

    def __repr__(self):
        return 'Mx<%s>' % self.coq


class Sc:
    """symbolic scalar of the field; `nonzero`: path assumption  s != 0"""
    def __init__(self, coq, nonzero=False, notone=False, atom=True, ev=None):
        self.coq, self.nonzero, self.notone, self.atom = coq, nonzero, notone, atom
        self.ev = ev

    def p(self):
        return self.coq if self.atom else '(%s)' % self.coq

    def __repr__(self):
        return 'Sc<%s>' % self.coq


class SymList:
    """list of unknown length whose generic element is `elem`"""
    def __init__(self, elem):
        self.elem = elem


class Rep:
    """[x] * k"""
    def __init__(self, x, k):
        self.x, self.k = x, k


class Uninit:
    def __init__(self, r, c):
        self.r, self.c = r, c


class RowIdx:
    def __init__(self, name):
        self.name = name


class Func:
    def __init__(self, node, closure):
        self.node, self.closure = node, closure


class Ref:
    """qualified external name, e.g. numpy.eye"""
    def __init__(self, q):
        self.q = q

    def __repr__(self):
        return 'Ref(%s)' % self.q


class Bound:
    def __init__(self, obj, attr):
        self.obj, self.attr = obj, attr


def _np():
    import numpy
    return numpy


def dim_val(d, env):
    return env[d.name] + d.off if isinstance(d, Dim) else int(d)


def num_coq(x):
    """field literal of a concrete Python number"""
    if isinstance(x, bool):
        raise Unsupported('bool used as number')
    if isinstance(x, float):
        if x != int(x):
            raise Unsupported('non-integer float literal %r in a matrix expression' % x)
        x = int(x)
    if not isinstance(x, int):
        raise Unsupported('number %r' % (x,))
    if x == 0:
        return '0'
    if x == 1:
        return '1'
    if x < 0:
        return '(- %d%%:R)' % (-x)
    return '%d%%:R' % x


class Interp:
    def __init__(self, path, stubs=None, lazy=()):
        self.path = path
        src = open(path).read()
        self.tree = ast.parse(src)
        self.globals = {}
        self.funcs = {}
        self.imports = {}
        self.binders = []        # (name, coq type) in creation order
        self.trace = []          # decided tests: (lineno, source, value)
        self.assumed = []        # path assumptions on symbolic values
        self.stubs = dict(stubs or {})
        self.lazy = set(lazy)
        self.fresh = 0
        self.opaque_names = set()
        for node in self.tree.body:
            if isinstance(node, ast.Import):
                for a in node.names:
                    self.imports[a.asname or a.name.split('.')[0]] = a.name if a.asname else a.name.split('.')[0]
            elif isinstance(node, ast.ImportFrom):
                for a in node.names:
                    self.imports[a.asname or a.name] = '%s.%s' % (node.module, a.name)
            elif isinstance(node, ast.FunctionDef):
                self.funcs[node.name] = node
            elif isinstance(node, ast.Assign) and isinstance(node.value, ast.Constant) \
                    and all(isinstance(t, ast.Name) for t in node.targets):
                # module-level caches / constants:  _bs = None  etc. (fresh-cache state)
                for t in node.targets:
                    self.globals[t.id] = node.value.value

    # ---- helpers ---------------------------------------------------------
    def bind(self, name, typ):
        if (name, typ) not in self.binders:
            if any(b[0] == name for b in self.binders):
                raise Unsupported('binder %s redeclared with another type' % name)
            self.binders.append((name, typ))

    def mtype(self, r, c):
        rc = r.coq() if isinstance(r, Dim) else str(r)
        cc = c.coq() if isinstance(c, Dim) else str(c)
        if rc == cc:
            return "'M[F]_(%s)" % rc
        return "'M[F]_(%s, %s)" % (rc, cc)

    def sym_mx(self, name, r, c, vec=False):
        if vec:
            self.bind(name, "'rV[F]_(%s)" % (c.coq() if isinstance(c, Dim) else c))
            return Mx(name, 1, c, vec=True, atom=True, ev=lambda env: env[name])
        self.bind(name, self.mtype(r, c))
        return Mx(name, r, c, atom=True, ev=lambda env: env[name])

    def sym_sc(self, name, **kw):
        self.bind(name, 'F')
        return Sc(name, ev=lambda env: env[name], **kw)

    def opaque(self, base, r, c):
        name = base
        while any(b[0] == name for b in self.binders):
            self.fresh += 1
            name = '%s%d' % (base, self.fresh)
        self.opaque_names.add(name)
        return self.sym_mx(name, r, c)

    def src(self, node):
        return ast.unparse(node)

    def bad(self, node, why=''):
        raise Unsupported('%s:%s: unsupported %s %s: %s' % (
            self.path, getattr(node, 'lineno', '?'), type(node).__name__, why, self.src(node)[:120]))

    # ---- calls -------------------------------------------------------------
    def call_function(self, name, args=(), kwargs=None):
        node = self.funcs.get(name)
        if node is None:
            raise Unsupported('function %s not found in %s' % (name, self.path))
        return self.apply(Func(node, None), list(args), dict(kwargs or {}))

    def apply(self, f, args, kwargs):
        node = f.node
        a = node.args
        if a.vararg or a.kwarg or a.kwonlyargs or a.posonlyargs:
            self.bad(node, 'signature')
        names = [x.arg for x in a.args]
        env = {}
        if len(args) > len(names):
            self.bad(node, 'too many arguments')
        for n, v in zip(names, args):
            env[n] = v
        for k, v in kwargs.items():
            if k not in names or k in env:
                self.bad(node, 'keyword %s' % k)
            env[k] = v
        defaults = a.defaults
        for n, d in zip(names[len(names) - len(defaults):], defaults):
            if n not in env:
                env[n] = self.eval(d, None)
        for n in names:
            if n not in env:
                self.bad(node, 'missing argument %s' % n)
        frame = dict(env=env, globals_decl=set(), closure=f.closure)
        try:
            self.block(node.body, frame)
        except _Return as r:
            return r.v
        return None

    # ---- statements ----------------------------------------------------------
    def block(self, stmts, fr):
        for s in stmts:
            self.stmt(s, fr)

    def lookup(self, name, fr, node):
        f = fr
        while f is not None:
            if name in f['env'] and name not in f['globals_decl']:
                return f['env'][name]
            f = f['closure']
        if name in self.globals:
            return self.globals[name]
        if 'local.' + name in self.stubs:
            return Ref('local.' + name)
        if name in self.funcs:
            return Func(self.funcs[name], None)
        if name in self.imports:
            return Ref(self.imports[name])
        if name in ('None', 'True', 'False'):
            return {'None': None, 'True': True, 'False': False}[name]
        if name in ('print', 'len', 'range', 'isinstance', 'float', 'int', 'zip', 'enumerate', 'abs'):
            return Ref('builtins.' + name)
        self.bad(node, 'unknown name')

    def store(self, name, v, fr):
        if name in fr['globals_decl']:
            self.globals[name] = v
        else:
            fr['env'][name] = v

    def assign(self, tgt, v, fr):
        if isinstance(tgt, ast.Name):
            self.store(tgt.id, v, fr)
        elif isinstance(tgt, (ast.Tuple, ast.List)):
            if isinstance(v, SymList):
                self.bad(tgt, 'unpacking a symbolic list')
            if not isinstance(v, (tuple, list)) or len(v) != len(tgt.elts):
                self.bad(tgt, 'unpacking %r' % (v,))
            for t, x in zip(tgt.elts, v):
                self.assign(t, x, fr)
        elif isinstance(tgt, ast.Subscript):
            base = self.eval(tgt.value, fr)
            idx = self.eval_index(tgt.slice, fr)
            if isinstance(base, Uninit) and isinstance(idx, RowIdx) and isinstance(v, Mx) and v.vec:
                if not isinstance(tgt.value, ast.Name):
                    self.bad(tgt)
                self.store(tgt.value.id, Mx('\\matrix_(%s < %s) %s' % (idx.name, base.r.coq(), v.p()),
                                            base.r, base.c,
                                            ev=lambda env, v=v, i=idx.name, h=base.r: _np().array(
                                                [v.ev(dict(env, **{i: k})) for k in range(dim_val(h, env))])), fr)
            elif isinstance(base, Mx) and not base.vec and isinstance(tgt.value, ast.Name) \
                    and isinstance(idx, tuple) and all(isinstance(i, int) for i in idx):
                # element store: from here on the matrix is arbitrary
                if base.coq not in self.opaque_names:
                    self.store(tgt.value.id, self.opaque(tgt.value.id, base.r, base.c), fr)
            elif isinstance(base, Mx) and isinstance(tgt.value, ast.Name) and isinstance(idx, Mx):
                # boolean-mask store A[invalid] = 0 (only reached when a mask exists)
                self.bad(tgt, 'masked store')
            else:
                self.bad(tgt, 'store')
        else:
            self.bad(tgt, 'assignment target')

    def stmt(self, s, fr):
        if isinstance(s, ast.Expr):
            if isinstance(s.value, ast.Constant) and isinstance(s.value.value, str):
                return
            if isinstance(s.value, ast.Call):
                f = self.eval(s.value.func, fr)
                if isinstance(f, Ref) and f.q in ('builtins.print', 'sys.stdout.flush'):
                    return
                self.eval(s.value, fr)
                return
            self.bad(s)
        elif isinstance(s, ast.Assign):
            v = self.eval(s.value, fr)
            for t in s.targets:
                self.assign(t, v, fr)
        elif isinstance(s, ast.AugAssign):
            if not isinstance(s.target, ast.Name):
                self.bad(s)
            cur = self.lookup(s.target.id, fr, s)
            v = self.eval(s.value, fr)
            self.store(s.target.id, self.binop(s.op, cur, v, s, inplace=True), fr)
        elif isinstance(s, ast.If):
            t = self.truth(self.eval(s.test, fr), s.test)
            self.trace.append((s.lineno, self.src(s.test), t))
            self.block(s.body if t else s.orelse, fr)
        elif isinstance(s, ast.Return):
            raise _Return(None if s.value is None else self.eval(s.value, fr))
        elif isinstance(s, ast.Global):
            fr['globals_decl'].update(s.names)
        elif isinstance(s, ast.FunctionDef):
            fr['env'][s.name] = Func(s, fr)
        elif isinstance(s, ast.Raise):
            raise PyRaise('%s:%d: %s' % (self.path, s.lineno, self.src(s)[:100]))
        elif isinstance(s, ast.Pass):
            return
        elif isinstance(s, ast.For):
            # only:  for i in range(h): <body>   with symbolic h (row loop)
            it = s.iter
            if not (isinstance(it, ast.Call) and isinstance(it.func, ast.Name) and it.func.id == 'range'
                    and len(it.args) == 1 and isinstance(s.target, ast.Name) and not s.orelse):
                self.bad(s, 'loop')
            h = self.eval(it.args[0], fr)
            if not isinstance(h, Dim):
                self.bad(s, 'loop bound')
            fr['env'][s.target.id] = RowIdx(s.target.id)
            self.block(s.body, fr)
        else:
            self.bad(s, 'statement')

    # ---- expressions -----------------------------------------------------------
    def truth(self, v, node):
        if isinstance(v, bool) or v is None:
            return bool(v)
        if isinstance(v, (int, float, str, tuple, list)):
            return bool(v)
        self.bad(node, 'truth value of %r' % (v,))

    def eval_index(self, sl, fr):
        if isinstance(sl, ast.Tuple):
            return tuple(self.eval_index(e, fr) for e in sl.elts)
        if isinstance(sl, ast.Slice):
            if sl.step is not None:
                self.bad(sl, 'slice step')
            lo = None if sl.lower is None else self.eval(sl.lower, fr)
            hi = None if sl.upper is None else self.eval(sl.upper, fr)
            return slice(lo, hi)
        return self.eval(sl, fr)

    def eval(self, e, fr, _=None):
        m = getattr(self, 'e_' + type(e).__name__, None)
        if m is None:
            self.bad(e, 'expression')
        return m(e, fr)

    def e_Constant(self, e, fr):
        return e.value

    def e_Name(self, e, fr):
        if fr is None:
            if e.id in ('None', 'True', 'False'):
                return {'None': None, 'True': True, 'False': False}[e.id]
            self.bad(e, 'name in default value')
        return self.lookup(e.id, fr, e)

    def e_Tuple(self, e, fr):
        return tuple(self.eval(x, fr) for x in e.elts)

    def e_List(self, e, fr):
        return [self.eval(x, fr) for x in e.elts]

    def e_UnaryOp(self, e, fr):
        v = self.eval(e.operand, fr)
        if isinstance(e.op, ast.Not):
            return not self.truth(v, e)
        if isinstance(e.op, ast.USub):
            if isinstance(v, (int, float)) and not isinstance(v, bool):
                return -v
            if isinstance(v, Mx):
                return Mx('- %s' % v.p(), v.r, v.c, v.vec, ev=lambda env: -v.ev(env))
            if isinstance(v, Sc):
                return Sc('- %s' % v.p(), v.nonzero, atom=False, ev=lambda env: -v.ev(env))
        self.bad(e)

    def e_BoolOp(self, e, fr):
        isand = isinstance(e.op, ast.And)
        v = None
        for x in e.values:
            v = self.eval(x, fr)
            t = self.truth(v, x)
            if isand and not t:
                return v
            if not isand and t:
                return v
        return v

    def e_Compare(self, e, fr):
        left = self.eval(e.left, fr)
        res = True
        for op, r in zip(e.ops, e.comparators):
            right = self.eval(r, fr)
            res = res and self.compare(op, left, right, e)
            left = right
            if not res:
                break
        return res

    def sym_eq(self, a, b, node):
        """== between values that may be symbolic"""
        for x, y in ((a, b), (b, a)):
            if isinstance(x, Sc):
                if isinstance(y, Sc):
                    if x is y:
                        return True
                    self.bad(node, 'comparison of two symbolic scalars')
                if isinstance(y, (int, float)) and not isinstance(y, bool):
                    if y == 0 and x.nonzero:
                        self.assumed.append('%s <> 0' % x.coq)
                        return False
                    if y == 1 and x.notone:
                        self.assumed.append('%s <> 1' % x.coq)
                        return False
                    self.bad(node, 'symbolic scalar compared with %r without a path assumption' % (y,))
                return False        # a number is never None / a string / a tuple
            if isinstance(x, Dim):
                if isinstance(y, Dim):
                    if x == y:
                        return True
                    if x.name != y.name:
                        self.assumed.append('%s <> %s' % (x.coq(), y.coq()))
                        return False
                    return False
                if isinstance(y, int) and not isinstance(y, bool):
                    self.assumed.append('%s <> %d' % (x.coq(), y))
                    return False
                return False
            if isinstance(x, (Mx, SymList, Uninit)):
                if y is None or isinstance(y, str):
                    return False
                self.bad(node, 'array comparison')
        if isinstance(a, (list, tuple)) and isinstance(b, (list, tuple)):
            if type(a) is not type(b) or len(a) != len(b):
                return False
            return all(self.sym_eq(x, y, node) for x, y in zip(a, b))
        if isinstance(a, (list, tuple)) or isinstance(b, (list, tuple)):
            return False
        return a == b

    def compare(self, op, a, b, node):
        if isinstance(op, ast.Eq):
            return self.sym_eq(a, b, node)
        if isinstance(op, ast.NotEq):
            return not self.sym_eq(a, b, node)
        if isinstance(op, ast.Is):
            if b is None or a is None:
                return a is b
            self.bad(node, 'is')
        if isinstance(op, ast.IsNot):
            if b is None or a is None:
                return a is not b
            self.bad(node, 'is not')
        if isinstance(op, ast.In):
            if isinstance(b, (list, tuple)):
                return any(self.sym_eq(a, x, node) for x in b)
            self.bad(node, 'in')
        if isinstance(op, ast.NotIn):
            if isinstance(b, (list, tuple)):
                return not any(self.sym_eq(a, x, node) for x in b)
            self.bad(node, 'not in')
        if isinstance(op, ast.Lt) and isinstance(a, Dim) and isinstance(b, int) and not isinstance(b, bool) and b <= 3:
            self.assumed.append('%d <= %s' % (b, a.coq()))
            return False
        if isinstance(op, (ast.Gt, ast.Lt, ast.GtE, ast.LtE)):
            if all(isinstance(x, (int, float)) and not isinstance(x, bool) for x in (a, b)):
                return {ast.Gt: a > b, ast.Lt: a < b, ast.GtE: a >= b, ast.LtE: a <= b}[type(op)]
        self.bad(node, 'comparison')

    def e_BinOp(self, e, fr):
        return self.binop(e.op, self.eval(e.left, fr), self.eval(e.right, fr), e)

    def as_sc(self, v):
        if isinstance(v, Sc):
            return v
        if isinstance(v, (int, float)) and not isinstance(v, bool):
            return Sc(num_coq(v), atom=True, ev=lambda env: float(v))
        return None

    def binop(self, op, a, b, node, inplace=False):
        num = lambda x: isinstance(x, (int, float)) and not isinstance(x, bool)
        if num(a) and num(b):
            if isinstance(op, ast.Add):
                return a + b
            if isinstance(op, ast.Sub):
                return a - b
            if isinstance(op, ast.Mult):
                return a * b
            if isinstance(op, ast.FloorDiv):
                return a // b
            self.bad(node, 'arithmetic')
        if isinstance(a, Dim) and num(b) and isinstance(b, int):
            if isinstance(op, ast.Add):
                return Dim(a.name, a.off + b)
            if isinstance(op, ast.Sub) and a.off - b >= 0:
                return Dim(a.name, a.off - b)
            self.bad(node, 'size arithmetic')
        if isinstance(a, list) and isinstance(op, ast.Mult) and len(a) == 1 and isinstance(b, Dim):
            return Rep(a[0], b)
        if isinstance(a, Mx) and isinstance(b, Mx):
            if isinstance(op, ast.MatMult):
                return self.dot(a, b, node)
            if isinstance(op, (ast.Add, ast.Sub)):
                if (a.r, a.c, a.vec) != (b.r, b.c, b.vec):
                    self.bad(node, 'shape mismatch')
                sg = 1.0 if isinstance(op, ast.Add) else -1.0
                return Mx('%s %s %s' % (a.p(), '+' if isinstance(op, ast.Add) else '-', b.p()), a.r, a.c, a.vec,
                          ev=lambda env: a.ev(env) + sg * b.ev(env))
            if isinstance(op, ast.Div) and inplace and not a.vec and b.vec and a.c == b.c:
                return Mx('coldiv %s %s' % (a.p(), b.p()), a.r, a.c, ev=lambda env: a.ev(env) / b.ev(env)[None, :])
            self.bad(node, 'matrix operator')
        sa, sb = self.as_sc(a), self.as_sc(b)
        if isinstance(a, Mx) and sb is not None:
            if isinstance(op, ast.Mult):
                return Mx('%s *: %s' % (sb.p(), a.p()), a.r, a.c, a.vec, ev=lambda env: sb.ev(env) * a.ev(env))
            if isinstance(op, ast.Div):
                return Mx('%s^-1 *: %s' % (sb.p(), a.p()), a.r, a.c, a.vec, ev=lambda env: (1.0 / sb.ev(env)) * a.ev(env))
            self.bad(node, 'matrix-scalar operator')
        if isinstance(b, Mx) and sa is not None:
            if isinstance(op, ast.Mult):
                return Mx('%s *: %s' % (sa.p(), b.p()), b.r, b.c, b.vec, ev=lambda env: sa.ev(env) * b.ev(env))
            self.bad(node, 'scalar-matrix operator')
        if sa is not None and sb is not None:
            sym = {ast.Add: '+', ast.Sub: '-', ast.Mult: '*', ast.Div: '/'}.get(type(op))
            if sym is None:
                self.bad(node, 'scalar operator')
            import operator
            fn = {'+': operator.add, '-': operator.sub, '*': operator.mul, '/': operator.truediv}[sym]
            return Sc('%s %s %s' % (sa.p(), sym, sb.p()), atom=False, ev=lambda env: fn(sa.ev(env), sb.ev(env)))
        self.bad(node, 'operands %r %r' % (a, b))

    def e_Attribute(self, e, fr):
        v = self.eval(e.value, fr)
        if isinstance(v, Ref):
            return Ref(v.q + '.' + e.attr)
        if isinstance(v, Mx):
            if e.attr == 'T':
                if v.vec:
                    self.bad(e, '.T of a 1-D array')
                return Mx('%s^T' % v.p(), v.c, v.r, atom=True, ev=lambda env: v.ev(env).T)
            if e.attr == 'shape':
                return (v.c,) if v.vec else (v.r, v.c)
            if e.attr in ('dot', 'copy', 'astype', 'sum', 'transpose'):
                return Bound(v, e.attr)
        self.bad(e, 'attribute')

    def e_Starred(self, e, fr):
        self.bad(e, 'starred outside a call')

    def e_Subscript(self, e, fr):
        v = self.eval(e.value, fr)
        idx = self.eval_index(e.slice, fr)
        if isinstance(v, (tuple, list)) and isinstance(idx, int):
            return v[idx]
        if isinstance(v, Mx) and not v.vec and isinstance(idx, tuple) and len(idx) == 2 \
                and all(isinstance(i, slice) for i in idx):
            # A[:n, :n] on an n x n matrix is the matrix itself
            if idx[0].start is None and idx[1].start is None and idx[0].stop == v.r and idx[1].stop == v.c:
                return v
            self.bad(e, 'crop to a different size (dims %r %r)' % (v.r, v.c))
        if isinstance(v, Mx) and not v.vec and v.r == 1 and isinstance(idx, int) and not isinstance(idx, bool) and idx == 0:
            # row 0 of a one-row array: the same 1 x n matrix, now as a numpy 1-D array
            return Mx(v.coq, 1, v.c, vec=True, atom=v.atom, ev=lambda env: _np().atleast_2d(v.ev(env))[0])
        if isinstance(v, Mx) and not v.vec and isinstance(idx, RowIdx):
            return Mx('row %s %s' % (idx.name, v.p()), 1, v.c, vec=True, ev=lambda env: v.ev(env)[env[idx.name]])
        self.bad(e, 'subscript')

    def e_ListComp(self, e, fr):
        if len(e.generators) != 1:
            self.bad(e, 'nested comprehension')
        g = e.generators[0]
        if g.ifs or g.is_async:
            self.bad(e, 'comprehension filter')
        it = g.iter
        if isinstance(it, ast.Call) and isinstance(it.func, ast.Name) and it.func.id == 'zip':
            seqs = [self.eval(a, fr) for a in it.args]
            if not all(isinstance(s, SymList) for s in seqs):
                self.bad(e, 'zip of non-symbolic lists')
            item = tuple(s.elem for s in seqs)
        else:
            seq = self.eval(it, fr)
            if not isinstance(seq, SymList):
                self.bad(e, 'comprehension over %r' % (seq,))
            item = seq.elem
        inner = dict(env={}, globals_decl=set(), closure=fr)
        self.assign(g.target, item, inner)
        return SymList(self.eval(e.elt, inner))

    def e_IfExp(self, e, fr):
        t = self.truth(self.eval(e.test, fr), e.test)
        self.trace.append((e.lineno, self.src(e.test), t))
        return self.eval(e.body if t else e.orelse, fr)

    def e_JoinedStr(self, e, fr):
        return '<str>'

    def e_Call(self, e, fr):
        f = self.eval(e.func, fr)
        if isinstance(f, Ref) and f.q in self.lazy:
            return self.stubs[f.q](self, e, None, None)
        args = []
        for a in e.args:
            if isinstance(a, ast.Starred):
                v = self.eval(a.value, fr)
                if not isinstance(v, (list, tuple)):
                    self.bad(e, 'star-argument')
                args += list(v)
            else:
                args.append(self.eval(a, fr))
        kwargs = {}
        for k in e.keywords:
            if k.arg is None:
                self.bad(e, '**kwargs')
            kwargs[k.arg] = self.eval(k.value, fr)
        if isinstance(f, Func):
            return self.apply(f, args, kwargs)
        if isinstance(f, Bound):
            return self.method(f, args, kwargs, e)
        if isinstance(f, Ref):
            if f.q in self.stubs:
                return self.stubs[f.q](self, e, args, kwargs)
            return self.builtin(f.q, args, kwargs, e)
        self.bad(e, 'call of %r' % (f,))

    def method(self, f, args, kwargs, e):
        v = f.obj
        if f.attr == 'dot' and len(args) == 1 and not kwargs and isinstance(args[0], Mx):
            return self.dot(v, args[0], e)
        if f.attr == 'copy' and not args and not kwargs:
            return v
        if f.attr == 'transpose' and not args and not kwargs and not v.vec:
            return Mx('%s^T' % v.p(), v.c, v.r, atom=True, ev=lambda env: v.ev(env).T)
        if f.attr == 'astype' and len(args) == 1 and isinstance(args[0], Ref) and args[0].q == 'builtins.float' and not kwargs:
            return v
        if f.attr == 'sum' and not args and kwargs == {'axis': 0} and not v.vec:
            return Mx('colsum %s' % v.p(), 1, v.c, vec=True, ev=lambda env: v.ev(env).sum(axis=0))
        self.bad(e, 'method')

    def dot(self, a, b, e):
        if not a.vec and not b.vec:
            if a.c != b.r:
                self.bad(e, 'inner dimensions %r %r' % (a.c, b.r))
            return Mx('%s *m %s' % (a.p(), b.p()), a.r, b.c, ev=lambda env: a.ev(env) @ b.ev(env))
        if a.vec and not b.vec:
            if a.c != b.r:
                self.bad(e, 'inner dimensions')
            return Mx('%s *m %s' % (a.p(), b.p()), 1, b.c, vec=True, ev=lambda env: a.ev(env) @ b.ev(env))
        if not a.vec and b.vec:
            if a.c != b.c:
                self.bad(e, 'inner dimensions')
            return Mx('%s *m %s^T' % (b.p(), a.p()), 1, a.r, vec=True, ev=lambda env: b.ev(env) @ a.ev(env).T)
        self.bad(e, 'dot of two 1-D arrays')

    def builtin(self, q, args, kwargs, e):
        if q in ('numpy.dot', 'numpy.matmul') and len(args) == 2 and not kwargs and all(isinstance(a, Mx) for a in args):
            return self.dot(args[0], args[1], e)
        if q == 'numpy.multiply' and len(args) == 2 and not kwargs and isinstance(args[0], Mx) and isinstance(args[1], Mx) \
                and not args[0].vec and args[1].vec and args[0].c == args[1].c:
            A, v = args
            return Mx('colmul %s %s' % (A.p(), v.p()), A.r, A.c, ev=lambda env: A.ev(env) * v.ev(env)[None, :])
        if q == 'numpy.transpose' and len(args) == 1 and not kwargs and isinstance(args[0], Mx) and not args[0].vec:
            v = args[0]
            return Mx('%s^T' % v.p(), v.c, v.r, atom=True, ev=lambda env: v.ev(env).T)
        if q == 'numpy.copy' and len(args) == 1 and not kwargs and isinstance(args[0], Mx):
            return args[0]
        if q in ('scipy.linalg.inv', 'numpy.linalg.inv') and len(args) == 1 and not kwargs and isinstance(args[0], Mx) \
                and not args[0].vec and args[0].r == args[0].c:
            A0 = args[0]
            return Mx('invmx %s' % A0.p(), A0.r, A0.c, ev=lambda env: _np().linalg.inv(A0.ev(env)))
        if q == 'scipy.linalg.solve_triangular' and len(args) == 2 and set(kwargs) <= {'lower'} \
                and all(isinstance(a, Mx) and not a.vec for a in args):
            lower = kwargs.get('lower', False)
            if not isinstance(lower, bool):
                self.bad(e, 'lower=')
            A, B = args
            if A.r != A.c or A.c != B.r:
                self.bad(e, 'solve_triangular shapes')
            return Mx('solve_triangular %s %s %s' % ('true' if lower else 'false', A.p(), B.p()), B.r, B.c,
                      ev=lambda env: _np().linalg.inv((_np().tril if lower else _np().triu)(A.ev(env))) @ B.ev(env))
        if q == 'numpy.identity' and len(args) == 1 and not kwargs and isinstance(args[0], Dim):
            d0 = args[0]
            return Mx('1%:M', d0, d0, atom=True, ev=lambda env: _np().eye(dim_val(d0, env)))
        if q == 'numpy.eye' and len(args) == 1 and isinstance(args[0], Dim):
            if not kwargs:
                d0 = args[0]
                return Mx('1%:M', d0, d0, atom=True, ev=lambda env: _np().eye(dim_val(d0, env)))
            if set(kwargs) == {'k'} and isinstance(kwargs['k'], int) and kwargs['k'] != 0:
                return self.opaque('Eye_k', args[0], args[0])
        if q == 'numpy.diag' and len(args) == 1 and not kwargs and isinstance(args[0], Rep):
            s = self.as_sc(args[0].x)
            if s is None:
                self.bad(e, 'diag of non-scalar')
            k0 = args[0].k
            return Mx('%s%%:M' % s.p(), k0, k0, atom=True, ev=lambda env: s.ev(env) * _np().eye(dim_val(k0, env)))
        if q == 'numpy.atleast_2d' and len(args) == 1 and isinstance(args[0], Mx) and not args[0].vec:
            return args[0]
        if q == 'numpy.atleast_2d' and len(args) == 1 and isinstance(args[0], Mx) and args[0].vec:
            v = args[0]
            return Mx(v.coq, 1, v.c, vec=False, atom=v.atom, ev=lambda env: _np().atleast_2d(v.ev(env)))
        if q == 'numpy.tensordot' and len(args) == 2 and kwargs == {'axes': (1, 1)} \
                and all(isinstance(a, Mx) and not a.vec for a in args):
            X, D = args
            if X.c != D.c:
                self.bad(e, 'tensordot shapes')
            return Mx('%s *m %s^T' % (X.p(), D.p()), X.r, D.r, ev=lambda env: X.ev(env) @ D.ev(env).T)
        if q == 'numpy.empty_like' and len(args) == 1 and isinstance(args[0], Mx) and not args[0].vec:
            return Uninit(args[0].r, args[0].c)
        if q == 'numpy.ndim' and len(args) == 1:
            v = args[0]
            if isinstance(v, (tuple, list)):
                return 1
            if v is None or isinstance(v, (str, int, float, Sc)):
                return 0
        if q == 'builtins.len' and len(args) == 1 and isinstance(args[0], (tuple, list)):
            return len(args[0])
        if q == 'builtins.isinstance' and len(args) == 2:
            v, t = args
            ts = t if isinstance(t, tuple) else (t,)
            if all(isinstance(x, Ref) and x.q in ('builtins.float', 'builtins.int') for x in ts):
                if isinstance(v, Sc):
                    return True
                if isinstance(v, bool):
                    return any(x.q == 'builtins.int' for x in ts)
                if isinstance(v, (int, float)):
                    return any(isinstance(v, {'builtins.float': float, 'builtins.int': int}[x.q]) for x in ts)
                if v is None or isinstance(v, (str, tuple, list)):
                    return False
        if q == 'builtins.float' and len(args) == 1 and isinstance(args[0], (int, float, Sc)):
            return args[0] if isinstance(args[0], Sc) else float(args[0])
        self.bad(e, 'call of %s' % q)

    # ---- locating statements -------------------------------------------------
    def find_if(self, fname, test_src):
        """the unique `if` of function fname whose test unparses to test_src"""
        hits = [n for n in ast.walk(self.funcs[fname]) if isinstance(n, ast.If)
                and ast.unparse(n.test) == test_src]
        if len(hits) != 1:
            raise Unsupported('%s: expected exactly one `if %s` in %s, found %d'
                              % (self.path, test_src, fname, len(hits)))
        return hits[0]

    def find_assign(self, fname, target):
        hits = [n for n in ast.walk(self.funcs[fname]) if isinstance(n, ast.Assign)
                and len(n.targets) == 1 and ast.unparse(n.targets[0]) == target]
        if len(hits) != 1:
            raise Unsupported('%s: expected exactly one assignment to %s in %s, found %d'
                              % (self.path, target, fname, len(hits)))
        return hits[0]
