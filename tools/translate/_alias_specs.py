# Argument-spec table of the public callables of abel, abel.tools.* and
# abel.Transform, shared by the C18 dynamic harness (tools/props/C18.py) and
# the alias translator (tools/translate/alias_prog.py).
#
#   arrays : names of the parameters that accept an array / dict / list
#            (position in this list = label LArg i of the alias program)
#   calls  : Python expressions (evaluated with `abel`, `np`, `os` and the
#            argument factory `A` of _alias_harness.py in scope) that perform a
#            representative call; the factory builds the array arguments in the
#            dtype/layout variant under test and records them.
#   only   : optional restriction of the dtype variants ('f64', 'f32', 'int')
#
# Fail closed: tools/props/C18.py enumerates the public callables by
# introspection and reports every callable that has neither a spec nor an
# entry in EXCLUDED.

MODULES = [
    'abel', 'abel.basex', 'abel.dasch', 'abel.daun', 'abel.direct', 'abel.hansenlaw',
    'abel.linbasex', 'abel.onion_bordas', 'abel.rbasex', 'abel.transform', 'abel.benchmark',
    'abel.tools.analytical', 'abel.tools.center', 'abel.tools.circularize', 'abel.tools.io',
    'abel.tools.math', 'abel.tools.polar', 'abel.tools.polynomial', 'abel.tools.symmetry',
    'abel.tools.transform_pairs', 'abel.tools.vmi',
]

EXCLUDED = {
    'abel.basex.basis_dir_cleanup': 'no array/dict argument; deletes files of a basis directory',
    'abel.dasch.basis_dir_cleanup': 'no array/dict argument; deletes files of a basis directory',
    'abel.daun.basis_dir_cleanup': 'no array/dict argument; deletes files of a basis directory',
    'abel.linbasex.basis_dir_cleanup': 'no array/dict argument; deletes files of a basis directory',
    'abel.rbasex.basis_dir_cleanup': 'no array/dict argument; deletes files of a basis directory',
    'abel.transform.basis_dir_cleanup': 'no array/dict argument; deletes files of a basis directory',
    'abel.transform.set_basis_dir': 'no array/dict argument; changes the process-wide basis directory (administration)',
    'abel.transform.get_basis_dir': 'no array/dict argument; returns a path string',
    'abel.transform.default_basis_dir': 'no array/dict argument; returns a path string',
    'abel.benchmark.AbelTiming': 'measures wall-clock times: results are not repeatable by design; no array argument',
    'abel.benchmark.DistributionsTiming': 'measures wall-clock times: results are not repeatable by design; no array argument',
    'abel.benchmark.Timent': 'measures wall-clock times: results are not repeatable by design; no array argument',
    'abel.tools.io.load_raw': 'reads a file given by name; no array/dict argument',
    'abel.tools.io.parse_matlab_basis_sets': 'reads files given by name; no array/dict argument',
    'abel.tools.io.save16bitPNG': 'needs the optional pyPNG package, which is not installed here',
    'abel.tools.math.guss_gaussian': None,   # filled below: deprecated alias, tested
}
del EXCLUDED['abel.tools.math.guss_gaussian']

# Callables for which the alias analysis cannot establish `safe_args` although no
# write into an argument exists (the dynamic runs cover them): the reason is
# stated; each is listed by name in the theorem safe_all_public.
ALIAS_UNPROVED_ARGS = {
    # callable: (parameter names for which `safe_args` is not established, reason)
    'abel.rbasex.rbasex_transform': (
        ['weights'],
        'the cached Distributions object (rbasex._dst) keeps a reference to the caller\'s `weights` array; the '
        'analysis has one undifferentiated cache, whose other arrays are written in place'),
    'abel.transform.Transform': (
        ['transform_options'],
        'calls rbasex_transform with **transform_options (may contain `weights`): same reason'),
}

# Public callables whose result may be (a view of) one of their arguments, by design.
ALIAS_RETURNS_ARG = {
    'abel.tools.vmi.Distributions': (
        ['weights'],
        'constructor: the object keeps the weights array it was given (np.asarray(weights, float)) as its attribute; '
        'the arrays given to a constructor belong to the object'),
}

# Public methods for which `safe_method` is not established although no defect exists.
ALIAS_METHOD_UNPROVED = {
    'abel.tools.analytical.SampleImage.transform':
        'documented: returns the array it has just computed and stored, "also accessible as the abel attribute"; '
        'every call recomputes and replaces it (the dynamic reused-object clauses hold)',
    'abel.tools.polynomial.ApproxGaussian.scaled':
        'the tuples of self.ranges are unpacked into numbers (r, s) that the translator cannot tell from arrays: '
        '`s *= sigma` rebinds a float, the returned list holds new lists and floats',
}

_TO = "verbose=False, basis_dir=None"

SPECS = {
    # ------------------------------------------------------------ transforms
    'abel.basex.basex_transform': dict(arrays=['data'], calls=[
        "abel.basex.basex_transform(A.half(9, 11, label='data'), sigma=1.0, %s)" % _TO,
        "abel.basex.basex_transform(A.half(8, 12, label='data'), sigma=1.5, reg=2.0, correction=False, direction='forward', dr=0.5, %s)" % _TO,
        "abel.basex.basex_transform(A.half(1, 10, label='data')[0], %s)" % _TO]),
    'abel.basex.basex_core_transform': dict(arrays=['rawdata', 'A'], calls=[
        "abel.basex.basex_core_transform(A.half(9, 11, label='rawdata'), A.rand(11, 11, label='A'))"]),
    'abel.basex.get_bs_cached': dict(cache_accessor=True, arrays=[], calls=[
        "abel.basex.get_bs_cached(9, sigma=1.0, reg=1.0, %s)" % _TO]),
    'abel.basex.get_basex_correction': dict(arrays=['A'], calls=[
        "abel.basex.get_basex_correction(A.rand(9, 9, label='A') + np.eye(9) * 20, 1.0, 'inverse')",
        "abel.basex.get_basex_correction(A.rand(9, 9, label='A') + np.eye(9) * 20, 1.0, 'forward')"]),
    'abel.basex.cache_cleanup': dict(arrays=[], calls=["abel.basex.cache_cleanup()"]),
    'abel.dasch.two_point_transform': dict(arrays=['IM'], calls=[
        "abel.dasch.two_point_transform(A.half(9, 11), %s)" % _TO,
        "abel.dasch.two_point_transform(A.half(1, 11)[0], dr=0.5, %s)" % _TO]),
    'abel.dasch.three_point_transform': dict(arrays=['IM'], calls=[
        "abel.dasch.three_point_transform(A.half(9, 11), %s)" % _TO]),
    'abel.dasch.onion_peeling_transform': dict(arrays=['IM'], calls=[
        "abel.dasch.onion_peeling_transform(A.half(9, 11), %s)" % _TO]),
    'abel.dasch.dasch_transform': dict(arrays=['IM', 'D'], calls=[
        "abel.dasch.dasch_transform(A.half(9, 11), A.rand(11, 11, label='D'))"]),
    'abel.dasch.get_bs_cached': dict(cache_accessor=True, arrays=[], calls=[
        "abel.dasch.get_bs_cached('three_point', 11, basis_dir=None)",
        "abel.dasch.get_bs_cached('onion_peeling', 11, basis_dir=None)"]),
    'abel.dasch.cache_cleanup': dict(arrays=[], calls=["abel.dasch.cache_cleanup()"]),
    'abel.daun.daun_transform': dict(arrays=['data', 'reg'], calls=[
        "abel.daun.daun_transform(A.half(9, 11, label='data'), %s)" % _TO,
        "abel.daun.daun_transform(A.half(9, 11, label='data'), degree=1, reg=('diff', 2.0), %s)" % _TO,
        "abel.daun.daun_transform(A.half(9, 11, label='data'), degree=2, reg=A.list(['L2', 1.5], label='reg'), direction='forward', %s)" % _TO,
        "abel.daun.daun_transform(A.half(5, 9, label='data'), degree=3, reg='nonneg', %s)" % _TO]),
    'abel.daun.get_bs_cached': dict(cache_accessor=True, arrays=[], calls=[
        "abel.daun.get_bs_cached(11, degree=1, reg_type='diff', strength=1.0, basis_dir=None)"]),
    'abel.daun.cache_cleanup': dict(arrays=[], calls=["abel.daun.cache_cleanup()"]),
    'abel.direct.direct_transform': dict(arrays=['fr', 'r'], calls=[
        "abel.direct.direct_transform(A.half(7, 11, label='fr'), dr=1.0, backend='python')",
        "abel.direct.direct_transform(A.half(7, 11, label='fr'), r=A.arange(11, label='r'), direction='forward', backend='python')",
        "abel.direct.direct_transform(A.half(1, 11, label='fr')[0], dr=0.5, correction=False, backend='python')"]),
    'abel.direct.is_uniform_sampling': dict(arrays=['r'], calls=[
        "abel.direct.is_uniform_sampling(A.arange(11, label='r'))"]),
    'abel.hansenlaw.hansenlaw_transform': dict(arrays=['image'], calls=[
        "abel.hansenlaw.hansenlaw_transform(A.half(9, 11, label='image'))",
        "abel.hansenlaw.hansenlaw_transform(A.half(9, 11, label='image'), direction='forward', hold_order=1, dr=0.5)",
        "abel.hansenlaw.hansenlaw_transform(A.half(9, 11, label='image'), hold_order=1)",
        "abel.hansenlaw.hansenlaw_transform(A.half(1, 11, label='image')[0])",
        "abel.hansenlaw.hansenlaw_transform(A.half(5, 2, label='image'))",
        "abel.hansenlaw.hansenlaw_transform(A.half(5, 3, label='image'), direction='forward')"]),
    'abel.linbasex.linbasex_transform': dict(arrays=['IM', 'proj_angles', 'legendre_orders'], calls=[
        "abel.linbasex.linbasex_transform(A.half(11, 11), %s)" % _TO,
        "abel.linbasex.linbasex_transform(A.half(11, 11), proj_angles=A.list([0, np.pi / 4, np.pi / 2], label='proj_angles'), "
        "legendre_orders=A.list([0, 2, 4], label='legendre_orders'), return_Beta=True, %s)" % _TO]),
    'abel.linbasex.linbasex_transform_full': dict(arrays=['IM', 'proj_angles', 'legendre_orders'], calls=[
        "abel.linbasex.linbasex_transform_full(A.img(21, 21), %s)" % _TO,
        "abel.linbasex.linbasex_transform_full(A.img(21, 21), proj_angles=A.list([0, np.pi / 4, np.pi / 2], label='proj_angles'), "
        "legendre_orders=A.list([0, 2, 4], label='legendre_orders'), smoothing=1.0, clip=2, return_Beta=True, %s)" % _TO]),
    'abel.linbasex.get_bs_cached': dict(cache_accessor=True, arrays=['legendre_orders', 'proj_angles'], calls=[
        "abel.linbasex.get_bs_cached(21, basis_dir=None, legendre_orders=A.list([0, 2], label='legendre_orders'), "
        "proj_angles=A.list([0, np.pi / 2], label='proj_angles'))"]),
    'abel.linbasex.int_beta': dict(arrays=['Beta', 'regions'], calls=[
        "abel.linbasex.int_beta(A.rand(2, 15, label='Beta', lo=1.0), regions=A.list([(2, 6), (7, 12)], label='regions'))"]),
    'abel.linbasex.mean_beta': dict(arrays=['radial', 'Beta', 'regions'], calls=[
        "abel.linbasex.mean_beta(A.arange(15, label='radial'), A.rand(2, 15, label='Beta', lo=1.0), A.list([(2, 6), (7, 12)], label='regions'))"]),
    'abel.linbasex.cache_cleanup': dict(arrays=[], calls=["abel.linbasex.cache_cleanup()"]),
    'abel.onion_bordas.onion_bordas_transform': dict(arrays=['IM'], calls=[
        "abel.onion_bordas.onion_bordas_transform(A.half(9, 11))",
        "abel.onion_bordas.onion_bordas_transform(A.half(9, 11), dr=0.5, shift_grid=False)",
        "abel.onion_bordas.onion_bordas_transform(A.half(1, 11)[0])"]),
    'abel.rbasex.rbasex_transform': dict(arrays=['IM', 'weights'], calls=[
        "abel.rbasex.rbasex_transform(A.img(21, 21))",
        "abel.rbasex.rbasex_transform(A.img(17, 21), origin=(8, 9), rmax=7, order=2, weights=A.rand(17, 21, label='weights', lo=0.5, hi=1.5), reg=('diff', 1.0), out='full')",
        "abel.rbasex.rbasex_transform(A.img(21, 21), order=1, odd=True, direction='forward', out='full-unique')",
        "abel.rbasex.rbasex_transform(A.img(21, 21), reg='pos', out='fold')",
        "abel.rbasex.rbasex_transform(A.img(21, 21), out=None)",
        # weights that leave a whole ring of radii (4 < r < 7) without data: invalid radii are masked
        "abel.rbasex.rbasex_transform(A.img(21, 21), weights=A.rand(21, 21, label='weights', lo=0.5, hi=1.5) * "
        "((np.hypot(*np.mgrid[-10:11, -10:11]) <= 4) | (np.hypot(*np.mgrid[-10:11, -10:11]) >= 7)))"]),
    'abel.rbasex.get_bs_cached': dict(cache_accessor=True, arrays=['valid'], calls=[
        "abel.rbasex.get_bs_cached(10, order=2)",
        "abel.rbasex.get_bs_cached(10, order=2, reg=('L2', 1.0), valid=A.arr([1] * 9 + [0, 1], label='valid', force_dtype=bool))"]),
    'abel.rbasex.cache_cleanup': dict(arrays=[], calls=["abel.rbasex.cache_cleanup()"]),
    'abel.transform.Transform': dict(arrays=['IM', 'center_options', 'transform_options', 'angular_integration_options'], calls=[
        "abel.transform.Transform(A.img(21, 21), method='three_point', transform_options=A.dict(dict(basis_dir=None), label='transform_options'))",
        "abel.transform.Transform(A.img(21, 23), method='hansenlaw', origin='com', symmetry_axis=0, angular_integration=True, "
        "center_options=A.dict(dict(crop='maintain_size'), label='center_options'), "
        "angular_integration_options=A.dict(dict(dr=1.0), label='angular_integration_options'))",
        "abel.transform.Transform(A.img(21, 21), method='basex', direction='forward', symmetry_axis=(0, 1), use_quadrants=(True, False, True, True), "
        "transform_options=A.dict(dict(basis_dir=None, verbose=False, reg=1.0), label='transform_options'))",
        "abel.transform.Transform(A.img(20, 22), method='onion_bordas', origin=(9.5, 11.2), symmetry_axis=1, symmetrize_method='fourier')",
        "abel.transform.Transform(A.img(21, 21), method='rbasex', origin='convolution', transform_options=A.dict(dict(order=2), label='transform_options'))",
        "abel.transform.Transform(A.img(21, 21), method='linbasex', transform_options=A.dict(dict(basis_dir=None, return_Beta=True), label='transform_options'))",
        "abel.transform.Transform(A.img(21, 21), method='daun', recast_as_float64=False, transform_options=A.dict(dict(basis_dir=None, verbose=False, degree=1), label='transform_options'))",
        "abel.transform.Transform(A.img(21, 21), method='direct', transform_options=A.dict(dict(backend='python'), label='transform_options'))",
        "abel.transform.Transform(A.img(21, 21), method='two_point', transform_options=A.dict(dict(basis_dir=None), label='transform_options'))",
        "abel.transform.Transform(A.img(21, 21), method='onion_peeling', origin='gaussian', transform_options=A.dict(dict(basis_dir=None), label='transform_options'))"]),
    # --------------------------------------------------------------- benchmark
    'abel.benchmark.is_symmetric': dict(arrays=['arr'], calls=[
        "abel.benchmark.is_symmetric(A.img(9, 9, label='arr'))",
        "abel.benchmark.is_symmetric(A.gauss(9, label='arr'), i_sym=True, j_sym=False)"]),
    'abel.benchmark.absolute_ratio_benchmark': dict(arrays=['recon'], calls=[
        "abel.benchmark.absolute_ratio_benchmark(abel.tools.analytical.GaussianAnalytical(21, 10, sigma=3, symmetric=False), A.gauss(21, label='recon'))"]),
    # ---------------------------------------------------------------- analytical
    'abel.tools.analytical.BaseAnalytical': dict(arrays=[], calls=["abel.tools.analytical.BaseAnalytical(21, 10.0)"]),
    'abel.tools.analytical.StepAnalytical': dict(arrays=[], calls=[
        "abel.tools.analytical.StepAnalytical(21, 10.0, 2.0, 6.0)",
        "(lambda s: (s, s.abel_step_analytical(A.arange(12, label='r'), 1.0, 3.0, 8.0), s.sym_abel_step_1d(A.arange(12, label='r2', start=-6), 1.0, 0.0, 4.0)))"
        "(abel.tools.analytical.StepAnalytical(21, 10.0, 2.0, 6.0, symmetric=False))"]),
    'abel.tools.analytical.Polynomial': dict(arrays=['c'], calls=[
        "abel.tools.analytical.Polynomial(21, 10.0, 2.0, 8.0, A.arr([1.0, -0.5, 0.25], label='c'))",
        "abel.tools.analytical.Polynomial(21, 10.0, 2.0, 8.0, A.list([1.0, -0.5, 0.25], label='c'), r_0=1.0, s=2.0, reduced=True, symmetric=False)"]),
    'abel.tools.analytical.PiecewisePolynomial': dict(arrays=['ranges'], calls=[
        "abel.tools.analytical.PiecewisePolynomial(21, 10.0, A.list([(1.0, 4.0, A.arr([1.0, 0.5], label='c0')), (4.0, 8.0, [3.0, -0.25, 0.01], 1.0, 2.0)], label='ranges'))"]),
    'abel.tools.analytical.GaussianAnalytical': dict(arrays=[], calls=["abel.tools.analytical.GaussianAnalytical(21, 10.0, sigma=2.0)"]),
    'abel.tools.analytical.TransformPair': dict(arrays=[], calls=[
        "abel.tools.analytical.TransformPair(21, profile=3)", "abel.tools.analytical.TransformPair(20, profile=6)"]),
    'abel.tools.analytical.SampleImage': dict(arrays=[], calls=[
        "(lambda s: (s, s.image, s.abel, s.transform()))(abel.tools.analytical.SampleImage(31, name='dribinski'))",
        "(lambda s: (s, s.image, s.abel))(abel.tools.analytical.SampleImage(31, name='Gerber'))",
        "(lambda s: (s, s.image, s.abel))(abel.tools.analytical.SampleImage(31, name='Ominus', sigma=2.0))",
        "(lambda s: (s, s.image, s.abel))(abel.tools.analytical.SampleImage(31, name='O2', temperature=100))",
        "(lambda s: (s, s.image, s.abel))(abel.tools.analytical.SampleImage(31, name='gaussian'))"]),
    # ------------------------------------------------------------------- center
    'abel.tools.center.find_origin': dict(arrays=['IM'], calls=[
        "abel.tools.center.find_origin(A.img(21, 23), method='com')",
        "abel.tools.center.find_origin(A.img(21, 23), method='slice', axes=1)"]),
    'abel.tools.center.center_image': dict(arrays=['IM'], calls=[
        "abel.tools.center.center_image(A.img(21, 23), method='com')",
        "abel.tools.center.center_image(A.img(20, 23), method='convolution', odd_size=True, square=True, crop='valid_region')",
        "abel.tools.center.center_image(A.img(21, 23), method='image_center', odd_size=False, axes=1, crop='maintain_data')"]),
    'abel.tools.center.set_center': dict(arrays=['data'], calls=[
        "abel.tools.center.set_center(A.img(21, 23, label='data'), (9.3, 12.6))",
        "abel.tools.center.set_center(A.img(21, 23, label='data'), (9, 12), crop='valid_region')",
        "abel.tools.center.set_center(A.img(21, 23, label='data'), (None, 12.5), crop='maintain_data', order=1)",
        "abel.tools.center.set_center(A.img(21, 23, label='data'), (10, 11))"]),
    'abel.tools.center.find_origin_by_center_of_mass': dict(arrays=['IM'], calls=[
        "abel.tools.center.find_origin_by_center_of_mass(A.img(21, 23), round_output=True)"]),
    'abel.tools.center.find_origin_by_convolution': dict(arrays=['IM'], calls=[
        "abel.tools.center.find_origin_by_convolution(A.img(21, 23), projections=True)",
        "abel.tools.center.find_origin_by_convolution(A.img(21, 23), axes=0)"]),
    'abel.tools.center.find_origin_by_center_of_image': dict(arrays=['IM'], calls=[
        "abel.tools.center.find_origin_by_center_of_image(A.img(21, 23))"]),
    'abel.tools.center.find_origin_by_gaussian_fit': dict(arrays=['IM'], calls=[
        "abel.tools.center.find_origin_by_gaussian_fit(A.img(21, 23))"]),
    'abel.tools.center.axis_slices': dict(arrays=['IM'], calls=[
        "abel.tools.center.axis_slices(A.img(31, 31), radial_range=(0, -1), slice_width=4)"]),
    'abel.tools.center.find_origin_by_slice': dict(arrays=['IM'], calls=[
        "abel.tools.center.find_origin_by_slice(A.img(31, 31), slice_width=4)"]),
    'abel.tools.center.find_center': dict(arrays=['IM'], calls=[
        "abel.tools.center.find_center(A.img(21, 23), center='com')"]),
    'abel.tools.center.find_center_by_center_of_mass': dict(arrays=['IM'], calls=[
        "abel.tools.center.find_center_by_center_of_mass(A.img(21, 23))"]),
    'abel.tools.center.find_center_by_convolution': dict(arrays=['IM'], calls=[
        "abel.tools.center.find_center_by_convolution(A.img(21, 23))"]),
    'abel.tools.center.find_center_by_center_of_image': dict(arrays=['IM'], calls=[
        "abel.tools.center.find_center_by_center_of_image(A.img(21, 23))"]),
    'abel.tools.center.find_center_by_gaussian_fit': dict(arrays=['IM'], calls=[
        "abel.tools.center.find_center_by_gaussian_fit(A.img(21, 23))"]),
    'abel.tools.center.find_image_center_by_slice': dict(arrays=['IM'], calls=[
        "abel.tools.center.find_image_center_by_slice(A.img(31, 31), slice_width=4)"]),
    # -------------------------------------------------------------- circularize
    'abel.tools.circularize.circularize': dict(arrays=['IM'], calls=[
        "abel.tools.circularize.circularize(A.img(21, 21), lambda t: 1.0 + 0.05 * np.cos(t))",
        "abel.tools.circularize.circularize(A.img(21, 23), lambda t: 1.0 + 0.05 * np.sin(t), ref_angle=0.5)"]),
    'abel.tools.circularize.circularize_image': dict(arrays=['IM'], calls=[
        "abel.tools.circularize.circularize_image(A.img(31, 31), method='argmax', dr=0.5, dt=0.5, return_correction=True)",
        "abel.tools.circularize.circularize_image(A.img(31, 31), method='lsq', dr=1.0, dt=0.8, tol=0.01, ref_angle=0.0)",
        "abel.tools.circularize.circularize_image(A.img(31, 33), method='argmax', origin='com', radial_range=(3, 13), inverse=True)"]),
    'abel.tools.circularize.correction': dict(arrays=['polarIMTrans', 'angles', 'radial'], calls=[
        "abel.tools.circularize.correction(A.rand(8, 15, label='polarIMTrans') + 30 * np.exp(-(np.arange(15) - 7.0) ** 2 / 6), "
        "A.arange(8, label='angles', step=0.7, start=-2.8), A.arange(15, label='radial'), 'argmax')",
        "abel.tools.circularize.correction(A.arr(30 * np.exp(-(np.arange(15)[None, :] - 7.0 - 0.2 * np.arange(8)[:, None]) ** 2 / 6) + 1, label='polarIMTrans'), "
        "A.arange(8, label='angles', step=0.7, start=-2.8), A.arange(15, label='radial'), 'lsq')"]),
    # ----------------------------------------------------------------------- io
    'abel.tools.io.save_npy_atomic': dict(arrays=['array'], calls=[
        "(lambda d: (abel.tools.io.save_npy_atomic(os.path.join(d, 'a.npy'), A.rand(4, 5, label='array')), "
        "np.load(os.path.join(d, 'a.npy')), sorted(os.listdir(d)), __import__('shutil').rmtree(d))[1:3])"
        "(__import__('tempfile').mkdtemp(prefix='c18-', dir='/var/tmp'))"]),
    # --------------------------------------------------------------------- math
    'abel.tools.math.gradient': dict(arrays=['f', 'x'], calls=[
        "abel.tools.math.gradient(A.img(7, 9, label='f'))",
        "abel.tools.math.gradient(A.img(7, 9, label='f'), x=A.arr([0, 1, 2.5, 3, 4.2, 5, 6, 7.1, 8], label='x'))",
        "abel.tools.math.gradient(A.img(7, 9, label='f'), dx=0.5, axis=0)"]),
    'abel.tools.math.gaussian': dict(arrays=['x'], calls=[
        "abel.tools.math.gaussian(A.arange(11, label='x'), 2.0, 5.0, 1.5, 0.1)"]),
    'abel.tools.math.guess_gaussian': dict(arrays=['x'], calls=["abel.tools.math.guess_gaussian(A.gauss(21))"]),
    'abel.tools.math.guss_gaussian': dict(arrays=['x'], calls=["abel.tools.math.guss_gaussian(A.gauss(21))"]),
    'abel.tools.math.fit_gaussian': dict(arrays=['x'], calls=["abel.tools.math.fit_gaussian(A.gauss(21))"]),
    # -------------------------------------------------------------------- polar
    'abel.tools.polar.reproject_image_into_polar': dict(arrays=['data'], calls=[
        "abel.tools.polar.reproject_image_into_polar(A.img(21, 23, label='data'))",
        "abel.tools.polar.reproject_image_into_polar(A.img(21, 23, label='data'), origin=(-9, 8), Jacobian=True, dr=0.5, dt=0.3)"]),
    'abel.tools.polar.index_coords': dict(arrays=['data'], calls=[
        "abel.tools.polar.index_coords(A.img(5, 7, label='data'))",
        "abel.tools.polar.index_coords(A.img(5, 7, label='data'), origin=(-2, 3))"]),
    'abel.tools.polar.cart2polar': dict(arrays=['x', 'y'], calls=[
        "abel.tools.polar.cart2polar(A.rand(4, 5, label='x', lo=-3, hi=3), A.rand(4, 5, label='y', lo=-3, hi=3))"]),
    'abel.tools.polar.polar2cart': dict(arrays=['r', 'theta'], calls=[
        "abel.tools.polar.polar2cart(A.rand(4, 5, label='r'), A.rand(4, 5, label='theta', lo=-3, hi=3))"]),
    # --------------------------------------------------------------- polynomial
    'abel.tools.polynomial.BasePolynomial': dict(arrays=[], calls=["abel.tools.polynomial.BasePolynomial()"]),
    'abel.tools.polynomial.Polynomial': dict(arrays=['r', 'c'], calls=[
        "(lambda p: (p, p.copy(), p * 2.0, p / 4.0))(abel.tools.polynomial.Polynomial(A.arange(15, label='r'), 2.0, 9.0, A.arr([1.0, -0.5, 0.25], label='c')))",
        "abel.tools.polynomial.Polynomial(A.arange(15, label='r'), 2.0, 9.0, A.list([1.0, -0.5, 0.25], label='c'), r_0=1.0, s=2.0, reduced=True)"]),
    'abel.tools.polynomial.PiecewisePolynomial': dict(arrays=['r', 'ranges'], calls=[
        "(lambda p: (p, p.copy(), p * 2.0))(abel.tools.polynomial.PiecewisePolynomial(A.arange(15, label='r'), "
        "A.list([(1.0, 4.0, A.arr([1.0, 0.5], label='c0')), (4.0, 8.0, [3.0, -0.25, 0.01], 1.0, 2.0)], label='ranges')))"]),
    'abel.tools.polynomial.SPolynomial': dict(arrays=['r', 'cos', 'c'], calls=[
        "(lambda rc: (lambda p: (p, p.copy(), p * 2.0))(abel.tools.polynomial.SPolynomial(A.arr(rc[0], label='r'), A.arr(rc[1], label='cos'), 2.0, 7.0, "
        "A.arr([[1.0, 0.0, 0.5], [0.0, 0.1, 0.0], [0.2, 0.0, 0.3]], label='c'))))(abel.tools.polynomial.rcos(shape=(15, 17)))",
        "(lambda rc: abel.tools.polynomial.SPolynomial(A.arr(rc[0], label='r'), A.arr(rc[1], label='cos'), 2.0, 7.0, "
        "A.arr([[1.0, 0.0, 0.5], [0.0, 0.1, 0.0], [0.2, 0.0, 0.3]], label='c'), r_0=1.0, s=1.5))(abel.tools.polynomial.rcos(shape=(15, 17)))"]),
    'abel.tools.polynomial.PiecewiseSPolynomial': dict(arrays=['r', 'cos', 'ranges'], calls=[
        "(lambda rc: abel.tools.polynomial.PiecewiseSPolynomial(A.arr(rc[0], label='r'), A.arr(rc[1], label='cos'), "
        "A.list([(1.0, 4.0, A.arr([[1.0, 0.5], [0.0, 0.2]], label='c0')), (4.0, 7.0, [[3.0, -0.25, 0.01]], 1.0, 2.0)], label='ranges')))"
        "(abel.tools.polynomial.rcos(shape=(15, 17)))"]),
    'abel.tools.polynomial.rcos': dict(arrays=['rows', 'cols'], calls=[
        "abel.tools.polynomial.rcos(shape=(7, 9), origin=(2.5, 3))",
        "abel.tools.polynomial.rcos(rows=A.arr(np.arange(7.0)[:, None] - 3 + np.zeros((7, 9)), label='rows'), cols=A.arr(np.arange(9.0)[None, :] - 4 + np.zeros((7, 9)), label='cols'))"]),
    'abel.tools.polynomial.Angular': dict(arrays=['c'], calls=[
        "(lambda a: (a, a + a, a * a, a * 2.0, a - a, a / 2.0, abel.tools.polynomial.Angular.cos(2), abel.tools.polynomial.Angular.sin(2), "
        "abel.tools.polynomial.Angular.cossin(1, 2), abel.tools.polynomial.Angular.legendre(A.arr([1.0, 0.0, 0.5], label='l'))))"
        "(abel.tools.polynomial.Angular(A.arr([1.0, 0.0, 0.5], label='c')))",
        "abel.tools.polynomial.Angular(A.list([1.0, 0.0, 0.5], label='c'))"]),
    'abel.tools.polynomial.ApproxGaussian': dict(arrays=[], calls=[
        "(lambda g: (g, g.scaled(2.0, 1.0, 3.0)))(abel.tools.polynomial.ApproxGaussian(0.01))"]),
    'abel.tools.polynomial.bspline': dict(arrays=['spl'], calls=[
        "abel.tools.polynomial.bspline(__import__('scipy.interpolate').interpolate.splrep(A.arange(12, label='x'), A.gauss(12, label='y')))",
        "abel.tools.polynomial.bspline(__import__('scipy.interpolate').interpolate.UnivariateSpline(A.arange(12, label='x'), A.gauss(12, label='y'), s=0))"]),
    # ----------------------------------------------------------------- symmetry
    'abel.tools.symmetry.get_image_quadrants': dict(arrays=['IM'], calls=[
        "abel.tools.symmetry.get_image_quadrants(A.img(9, 11))",
        "abel.tools.symmetry.get_image_quadrants(A.img(8, 11), symmetry_axis=(0, 1), use_quadrants=(True, True, False, True))",
        "abel.tools.symmetry.get_image_quadrants(A.img(9, 10), reorient=False, symmetry_axis=0, symmetrize_method='fourier')"]),
    'abel.tools.symmetry.put_image_quadrants': dict(arrays=['Q'], calls=[
        "abel.tools.symmetry.put_image_quadrants((A.rand(5, 6, label='Q0'), A.rand(5, 6, label='Q1'), A.rand(5, 6, label='Q2'), A.rand(5, 6, label='Q3')), (9, 11))",
        "abel.tools.symmetry.put_image_quadrants(A.list([A.rand(5, 6, label='Q0'), A.rand(5, 6, label='Q1'), A.rand(5, 6, label='Q2'), A.rand(5, 6, label='Q3')], label='Q'), (10, 12), symmetry_axis=(0, 1))"]),
    # ---------------------------------------------------------- transform_pairs
    'abel.tools.transform_pairs.a': dict(arrays=['r'], calls=["abel.tools.transform_pairs.a(0.5, A.arange(9, label='r', step=0.05))"]),
    # --------------------------------------------------------------------- vmi
    'abel.tools.vmi.radial_intensity': dict(arrays=['IM'], calls=[
        "abel.tools.vmi.radial_intensity('int2D', A.img(21, 23))",
        "abel.tools.vmi.radial_intensity('int3D', A.img(21, 23), origin=(9, -12), dr=0.5, dt=0.2)",
        "abel.tools.vmi.radial_intensity('avg2D', A.img(21, 23))",
        "abel.tools.vmi.radial_intensity('avg3D', A.img(21, 23))"]),
    'abel.tools.vmi.angular_integration_2D': dict(arrays=['IM'], calls=["abel.tools.vmi.angular_integration_2D(A.img(21, 23))"]),
    'abel.tools.vmi.angular_integration_3D': dict(arrays=['IM'], calls=["abel.tools.vmi.angular_integration_3D(A.img(21, 23), origin=(10, 10))"]),
    'abel.tools.vmi.average_radial_intensity_2D': dict(arrays=['IM'], calls=["abel.tools.vmi.average_radial_intensity_2D(A.img(21, 23))"]),
    'abel.tools.vmi.average_radial_intensity_3D': dict(arrays=['IM'], calls=["abel.tools.vmi.average_radial_intensity_3D(A.img(21, 23), dr=2)"]),
    'abel.tools.vmi.angular_integration': dict(arrays=['IM'], calls=[
        "abel.tools.vmi.angular_integration(A.img(21, 23))",
        "abel.tools.vmi.angular_integration(A.img(21, 23), Jacobian=False, dr=0.5)"]),
    'abel.tools.vmi.average_radial_intensity': dict(arrays=['IM'], calls=["abel.tools.vmi.average_radial_intensity(A.img(21, 23))"]),
    'abel.tools.vmi.radial_integration': dict(arrays=['IM', 'radial_ranges', 'theta_ranges'], calls=[
        "abel.tools.vmi.radial_integration(A.img(31, 31), radial_ranges=A.list([(3, 7), (7, 12)], label='radial_ranges'))",
        "abel.tools.vmi.radial_integration(A.img(31, 31), radial_ranges=5, theta_ranges=A.list([(-2.9, 2.5)], label='theta_ranges'), mode='bound')"]),
    'abel.tools.vmi.anisotropy_parameter': dict(arrays=['theta', 'intensity', 'theta_ranges'], calls=[
        "abel.tools.vmi.anisotropy_parameter(A.arange(40, label='theta', step=0.15, start=-3.0), "
        "A.arr(5 * (1 + 0.8 * (1.5 * np.cos(-3.0 + 0.15 * np.arange(40)) ** 2 - 0.5)), label='intensity'))",
        "abel.tools.vmi.anisotropy_parameter(A.arange(40, label='theta', step=0.15, start=-3.0), "
        "A.arr(5 * (1 + 0.8 * (1.5 * np.cos(-3.0 + 0.15 * np.arange(40)) ** 2 - 0.5)), label='intensity'), "
        "theta_ranges=A.list([(-2.5, 2.0)], label='theta_ranges'), mode='raw')"]),
    'abel.tools.vmi.toPES': dict(arrays=['radial', 'intensity'], calls=[
        "abel.tools.vmi.toPES(A.arange(30, label='radial'), A.gauss(30, label='intensity'), 1.2e-5)",
        "abel.tools.vmi.toPES(A.arange(30, label='radial'), A.gauss(30, label='intensity'), 1.2e-5, per_energy_scaling=False, photon_energy=1.0, Vrep=-2200, zoom=2)"]),
    'abel.tools.vmi.Distributions': dict(arrays=['weights'], calls=[
        "(lambda D: (lambda r: (r, r.cos(), r.rcos(), r.cossin(), r.rcossin(), r.harmonics(), r.rharmonics(), r.Ibeta(), r.rIbeta(window=3)))"
        "(D(A.img(21, 23))))(abel.tools.vmi.Distributions('cc', order=2))",
        "(lambda D: (lambda r: (r, r.cos(), r.harmonics(), r.Ibeta()))(D.image(A.img(21, 23))))"
        "(abel.tools.vmi.Distributions((9, 10), rmax='all', order=4, use_sin=False, weights=A.rand(21, 23, label='weights', lo=0.5, hi=1.5), method='nearest'))",
        "(lambda D: (lambda r: (r, r.cos(), r.harmonics()))(D(A.img(21, 23))))"
        "(abel.tools.vmi.Distributions('ll', rmax='MAX', order=1, odd=True, method='remap'))",
        "(lambda D: (D(A.img(21, 23, label='IM1')).harmonics(), D(A.img(21, 23, label='IM2')).harmonics()))"
        "(abel.tools.vmi.Distributions('cc', order=2, weights=A.rand(21, 23, label='weights', lo=0.5, hi=1.5)))"]),
    'abel.tools.vmi.harmonics': dict(arrays=['IM'], calls=[
        "abel.tools.vmi.harmonics(A.img(21, 23))", "abel.tools.vmi.harmonics(A.img(21, 23), 'cc', 8, 4, method='nearest')"]),
    'abel.tools.vmi.rharmonics': dict(arrays=['IM'], calls=["abel.tools.vmi.rharmonics(A.img(21, 23))"]),
    'abel.tools.vmi.Ibeta': dict(arrays=['IM'], calls=[
        "abel.tools.vmi.Ibeta(A.img(21, 23))", "abel.tools.vmi.Ibeta(A.img(21, 23), window=3, weights=A.rand(21, 23, label='weights', lo=0.5, hi=1.5))"]),
    'abel.tools.vmi.rIbeta': dict(arrays=['IM'], calls=["abel.tools.vmi.rIbeta(A.img(21, 23))"]),
}

for _k in range(1, 8):
    SPECS['abel.tools.transform_pairs.profile%d' % _k] = dict(arrays=['r'], calls=[
        "abel.tools.transform_pairs.profile%d(A.arange(20, label='r', step=0.05, start=0.05))" % _k], only=['f64', 'f32'])


# ---------------------------------------------------------------------------
# Second round: every transform function and Transform is also called with
# dr != 1 and the other documented numeric options (so that the repeat /
# repeat-after-other-calls clauses reach the scaled-cache paths), and every
# array-like parameter appears as a float64 ndarray in a call that reaches the
# code paths of the non-default scalar options (stretch, reduced, r_0, ...).
_MORE = {
    'abel.basex.basex_transform': [
        "abel.basex.basex_transform(A.half(9, 11, label='data'), sigma=1.0, reg=1.0, dr=2.0, %s)" % _TO,
        "abel.basex.basex_transform(A.half(9, 11, label='data'), sigma=1.0, reg=1.0, dr=0.5, correction=False, %s)" % _TO,
        "abel.basex.basex_transform(A.half(9, 11, label='data'), sigma=1.0, dr=0.25, direction='forward', %s)" % _TO],
    'abel.basex.get_bs_cached': [
        "abel.basex.get_bs_cached(9, sigma=1.0, reg=1.0, dr=0.5, %s)" % _TO,
        "abel.basex.get_bs_cached(9, sigma=1.0, reg=1.0, dr=0.5, direction='forward', %s)" % _TO],
    'abel.dasch.two_point_transform': ["abel.dasch.two_point_transform(A.half(9, 11), dr=2.0, %s)" % _TO],
    'abel.dasch.three_point_transform': ["abel.dasch.three_point_transform(A.half(9, 11), dr=0.5, %s)" % _TO,
                                         "abel.dasch.three_point_transform(A.half(1, 11)[0], dr=2.0, %s)" % _TO],
    'abel.dasch.onion_peeling_transform': ["abel.dasch.onion_peeling_transform(A.half(9, 11), dr=0.5, %s)" % _TO],
    'abel.daun.daun_transform': [
        "abel.daun.daun_transform(A.half(9, 11, label='data'), dr=0.5, %s)" % _TO,
        "abel.daun.daun_transform(A.half(9, 11, label='data'), degree=1, reg=('diff', 2.0), dr=2.0, %s)" % _TO,
        "abel.daun.daun_transform(A.half(9, 11, label='data'), degree=3, reg=0.5, dr=0.5, direction='forward', %s)" % _TO,
        "abel.daun.daun_transform(A.half(5, 9, label='data'), degree=0, reg='nonneg', dr=0.5, %s)" % _TO],
    'abel.daun.get_bs_cached': [
        "abel.daun.get_bs_cached(11, degree=2, reg_type='L2', strength=0.5, direction='forward', basis_dir=None)"],
    'abel.direct.direct_transform': [
        "abel.direct.direct_transform(A.half(7, 11, label='fr'), dr=2.0, direction='forward', backend='python')",
        "abel.direct.direct_transform(A.half(7, 11, label='fr'), r=A.arange(11, label='r', step=0.5), backend='python')"],
    'abel.hansenlaw.hansenlaw_transform': [
        "abel.hansenlaw.hansenlaw_transform(A.half(9, 11, label='image'), dr=2.0)",
        "abel.hansenlaw.hansenlaw_transform(A.half(9, 11, label='image'), dr=0.5, hold_order=1, direction='forward')"],
    'abel.linbasex.linbasex_transform_full': [
        "abel.linbasex.linbasex_transform_full(A.img(21, 21), proj_angles=A.arr([0, np.pi / 4, np.pi / 2], label='proj_angles'), "
        "legendre_orders=A.arr([0, 2, 4], label='legendre_orders', force_dtype=int), radial_step=2, smoothing=0.5, threshold=0.1, "
        "clip=1, norm_range=(2, 8), rcond=1e-3, %s)" % _TO],
    'abel.linbasex.linbasex_transform': [
        "abel.linbasex.linbasex_transform(A.half(11, 11), radial_step=2, smoothing=0.5, threshold=0.1, clip=1, %s)" % _TO],
    'abel.onion_bordas.onion_bordas_transform': ["abel.onion_bordas.onion_bordas_transform(A.half(9, 11), dr=2.0)"],
    'abel.rbasex.rbasex_transform': [
        "abel.rbasex.rbasex_transform(A.img(21, 21), rmax=8, order=4, reg=('L2', 5.0))",
        "abel.rbasex.rbasex_transform(A.img(21, 21), origin=(9, 11), rmax='all', order=2, reg=('SVD', 0.1), out='full')",
        "abel.rbasex.rbasex_transform(A.img(21, 23), order=3, direction='forward', reg=None, out='same')"],
    'abel.transform.Transform': [
        # dr in transform_options, angular integration without / with an (empty) option dict of its own
        "abel.transform.Transform(A.img(21, 21), method='basex', angular_integration=True, "
        "transform_options=A.dict(dict(basis_dir=None, verbose=False, dr=0.5), label='transform_options'))",
        "abel.transform.Transform(A.img(21, 21), method='hansenlaw', angular_integration=True, "
        "transform_options=A.dict(dict(dr=0.5), label='transform_options'), "
        "angular_integration_options=A.dict(dict(), label='angular_integration_options'))",
        "abel.transform.Transform(A.img(21, 21), method='hansenlaw', angular_integration=True)",
        "abel.transform.Transform(A.img(21, 21), method='three_point', direction='inverse', symmetry_axis=0, "
        "transform_options=A.dict(dict(basis_dir=None, dr=2.0), label='transform_options'), "
        "center_options=A.dict(dict(), label='center_options'))",
        "abel.transform.Transform(A.img(21, 21), method='daun', direction='forward', "
        "transform_options=A.dict(dict(basis_dir=None, verbose=False, dr=0.5, degree=2), label='transform_options'))",
        "abel.transform.Transform(A.img(21, 21), method='direct', origin='com', "
        "transform_options=A.dict(dict(backend='python', dr=0.5), label='transform_options'), "
        "center_options=A.dict(dict(order=1), label='center_options'))",
        "abel.transform.Transform(A.img(21, 21), method='onion_bordas', transform_options=A.dict(dict(dr=0.5), label='transform_options'))",
        "abel.transform.Transform(A.img(21, 21), method='rbasex', transform_options=A.dict(dict(order=2, reg=('L2', 1.0), "
        "weights=A.rand(21, 21, label='weights', lo=0.5, hi=1.5)), label='transform_options'))"],
    # ---- coefficient arrays as float64 ndarrays together with stretch / shift / reduced
    'abel.tools.polynomial.Polynomial': [
        "abel.tools.polynomial.Polynomial(A.arange(15, label='r'), 2.0, 9.0, A.arr([1.0, -0.5, 0.25, 0.0], label='c'), s=2.0)",
        "abel.tools.polynomial.Polynomial(A.arange(15, label='r'), 2.0, 9.0, A.arr([1.0, -0.5, 0.25], label='c'), r_0=1.0, s=0.5, reduced=True)",
        "abel.tools.polynomial.Polynomial(A.arange(15, label='r'), 2.0, 9.0, A.arr([1.0, -0.5, 0.25], label='c'), reduced=True)",
        "abel.tools.polynomial.Polynomial(A.arange(15, label='r'), 2.0, 9.0, A.arr([1.0, -0.5, 0.25], label='c'), r_0=3.0)"],
    'abel.tools.polynomial.PiecewisePolynomial': [
        "abel.tools.polynomial.PiecewisePolynomial(A.arange(15, label='r'), A.list([(1.0, 4.0, A.arr([1.0, 0.5], label='c0'), 0.5, 2.0), "
        "(4.0, 8.0, A.arr([3.0, -0.25, 0.01], label='c1'), 1.0, 0.5)], label='ranges'))"],
    'abel.tools.polynomial.SPolynomial': [
        "(lambda rc: abel.tools.polynomial.SPolynomial(A.arr(rc[0], label='r'), A.arr(rc[1], label='cos'), 2.0, 7.0, "
        "A.arr([[1.0, 0.0, 0.5], [0.0, 0.1, 0.0], [0.2, 0.0, 0.3]], label='c'), s=2.0))(abel.tools.polynomial.rcos(shape=(15, 17)))",
        "(lambda rc: abel.tools.polynomial.SPolynomial(A.arr(rc[0], label='r'), A.arr(rc[1], label='cos'), 2.0, 7.0, "
        "A.arr([[1.0, 0.0, 0.5], [0.0, 0.1, 0.0], [0.2, 0.0, 0.3]], label='c'), r_0=2.0))(abel.tools.polynomial.rcos(shape=(15, 17)))"],
    'abel.tools.polynomial.PiecewiseSPolynomial': [
        "(lambda rc: abel.tools.polynomial.PiecewiseSPolynomial(A.arr(rc[0], label='r'), A.arr(rc[1], label='cos'), "
        "A.list([(1.0, 4.0, A.arr([[1.0, 0.5], [0.0, 0.2]], label='c0'), 0.5, 2.0), "
        "(4.0, 7.0, A.arr([[3.0, -0.25, 0.01]], label='c1'), 1.0, 0.5)], label='ranges')))(abel.tools.polynomial.rcos(shape=(15, 17)))"],
    'abel.tools.polynomial.Angular': [
        "(lambda a: (a, a * abel.tools.polynomial.Angular.cos(2), a / 4.0))(abel.tools.polynomial.Angular(A.arr([1.0, 0.0, 0.5, 0.0], label='c')))"],
    'abel.tools.analytical.Polynomial': [
        "abel.tools.analytical.Polynomial(21, 10.0, 2.0, 8.0, A.arr([1.0, -0.5, 0.25], label='c'), r_0=1.0, s=2.0, reduced=True, symmetric=False)",
        "abel.tools.analytical.Polynomial(21, 10.0, 2.0, 8.0, A.arr([1.0, -0.5, 0.25, 0.0], label='c'), s=0.5)",
        "abel.tools.analytical.Polynomial(21, 10.0, 2.0, 8.0, A.arr([1.0, -0.5, 0.25], label='c'), reduced=True)"],
    'abel.tools.analytical.PiecewisePolynomial': [
        "abel.tools.analytical.PiecewisePolynomial(21, 10.0, A.list([(1.0, 4.0, A.arr([1.0, 0.5], label='c0'), 0.5, 2.0), "
        "(4.0, 8.0, A.arr([3.0, -0.25, 0.01], label='c1'), 1.0, 0.5)], label='ranges'), symmetric=False)"],
    # ---- further array-like parameters that so far were passed only as lists / never as ndarrays
    'abel.linbasex.get_bs_cached': [
        "abel.linbasex.get_bs_cached(21, basis_dir=None, legendre_orders=A.arr([0, 2, 4], label='legendre_orders', force_dtype=int), "
        "proj_angles=A.arr([0, np.pi / 4, np.pi / 2], label='proj_angles'), radial_step=2, clip=1)"],
    'abel.linbasex.int_beta': [
        "abel.linbasex.int_beta(A.rand(3, 16, label='Beta', lo=1.0), radial_step=2, threshold=0.3, regions=A.list([(2, 6), (7, 12)], label='regions'))"],
    'abel.tools.vmi.radial_integration': [
        "abel.tools.vmi.radial_integration(A.img(31, 31), origin=(14, 16), radial_ranges=A.list([(3, 7), (7, 12)], label='radial_ranges'), mode='raw')"],
    'abel.tools.vmi.toPES': [
        "abel.tools.vmi.toPES(A.arange(30, label='radial', step=0.5), A.gauss(30, label='intensity'), 3.4e-4, photon_energy=2.5, Vrep=-1500, zoom=1.5)"],
    'abel.tools.center.set_center': [
        "abel.tools.center.set_center(A.img(21, 23, label='data'), A.arr([9.3, 12.6], label='origin'), crop='maintain_data', axes=0, order=2)"],
    'abel.tools.center.center_image': [
        "abel.tools.center.center_image(A.img(21, 23), method=A.arr([9.3, 12.6], label='method'), crop='valid_region', order=1)",
        "abel.tools.center.center_image(A.img(21, 23), method='gaussian', odd_size=True, square=True)",
        "abel.tools.center.center_image(A.img(31, 31), method='slice', crop='maintain_data')"],
    'abel.tools.symmetry.get_image_quadrants': [
        "abel.tools.symmetry.get_image_quadrants(A.img(9, 11), symmetry_axis=1, use_quadrants=(True, True, False, False))",
        "abel.tools.symmetry.get_image_quadrants(A.img(10, 12), symmetry_axis=(0, 1), symmetrize_method='fourier')"],
    'abel.tools.symmetry.put_image_quadrants': [
        "abel.tools.symmetry.put_image_quadrants((A.rand(5, 6, label='Q0'), A.rand(5, 6, label='Q1'), A.rand(5, 6, label='Q2'), A.rand(5, 6, label='Q3')), (9, 11), symmetry_axis=0)",
        "abel.tools.symmetry.put_image_quadrants((A.rand(5, 6, label='Q0'), A.rand(5, 6, label='Q1'), A.rand(5, 6, label='Q2'), A.rand(5, 6, label='Q3')), (10, 11), symmetry_axis=1)"],
    'abel.tools.polar.reproject_image_into_polar': [
        "abel.tools.polar.reproject_image_into_polar(A.img(21, 23, label='data'), origin=A.arr([9.5, 8.25], label='origin'), dr=2, dt=0.5)"],
    'abel.tools.vmi.Distributions': [
        "(lambda D: (lambda r: (r, r.cos(), r.harmonics()))(D(A.img(21, 23))))"
        "(abel.tools.vmi.Distributions(A.arr([9, 10], label='origin', force_dtype=int), rmax=8, order=2, weights=A.rand(21, 23, label='weights', lo=0.5, hi=1.5)))"],
    'abel.tools.circularize.circularize_image': [
        "abel.tools.circularize.circularize_image(A.img(31, 31), method='lsq', dr=0.5, dt=0.6, tol=0.0, ref_angle=1.0, inverse=True)"],
    'abel.tools.math.gradient': [
        "abel.tools.math.gradient(A.img(7, 9, label='f'), x=A.arr([0, 1, 2.5, 3, 4.2, 5, 6.4], label='x'), axis=0)"],
}
# (origin / method given as small 1-D ndarrays above are unpacked into numbers by the callees; they are
#  checked for mutation dynamically like every array built by the factory, but are not array parameters
#  of the alias programs: `row, col = origin; row += height` rebinds a number)
# ---------------------------------------------------------------------------
# Fourth round: identity / no-op paths (requested origin = geometric centre, zero shifts, sizes that
# need no trimming, constant correction, empty option dicts ...), where a short-cut could hand the
# argument itself back (clause result-aliases-arg).
_NOOP = {
    'abel.tools.center.set_center': [
        "abel.tools.center.set_center(A.img(21, 23, label='data'), (10, 11))",
        "abel.tools.center.set_center(A.img(21, 23, label='data'), (10, 11), order=0)",
        "abel.tools.center.set_center(A.img(21, 23, label='data'), (10.0, 11.0), order=1)",
        "abel.tools.center.set_center(A.img(21, 23, label='data'), (None, None))",
        "abel.tools.center.set_center(A.img(21, 23, label='data'), (10, None), axes=0)",
        "abel.tools.center.set_center(A.img(21, 23, label='data'), (10, 11), crop='valid_region')",
        "abel.tools.center.set_center(A.img(21, 23, label='data'), (10, 11), crop='maintain_data')",
        "abel.tools.center.set_center(A.img(20, 22, label='data'), (10, 11))",
        "abel.tools.center.set_center(A.img(21, 23, label='data'), (10.0, 11.0))"],
    'abel.tools.center.center_image': [
        "abel.tools.center.center_image(A.img(21, 23), method='image_center')",
        "abel.tools.center.center_image(A.img(21, 22), method='image_center')",
        "abel.tools.center.center_image(A.img(21, 21), method='image_center', square=True, crop='valid_region')",
        "abel.tools.center.center_image(A.img(21, 23), method=(10, 11), odd_size=False)",
        "abel.tools.center.center_image(A.sym(21, 23), method='com')",
        "abel.tools.center.center_image(A.sym(21, 23), method='convolution')",
        "abel.tools.center.center_image(A.sym(21, 23), method='com', crop='maintain_data')",
        "abel.tools.center.center_image(A.sym(21, 22), method='convolution', axes=0)"],
    'abel.tools.center.find_origin': ["abel.tools.center.find_origin(A.sym(21, 23), method='gaussian')"],
    'abel.transform.Transform': [
        "abel.transform.Transform(A.img(21, 21), method='hansenlaw', origin='image_center')",
        "abel.transform.Transform(A.sym(21, 23), method='two_point', origin='com', transform_options=A.dict(dict(basis_dir=None), label='transform_options'))",
        "abel.transform.Transform(A.sym(21, 21), method='hansenlaw', origin='convolution', symmetry_axis=None, recast_as_float64=True)",
        "abel.transform.Transform(A.img(21, 21), method='hansenlaw', origin=(10, 10), center_options=A.dict(dict(), label='center_options'))"],
    'abel.tools.circularize.circularize_image': [
        "abel.tools.circularize.circularize_image(A.img(31, 31), method='argmax', origin='image_center', dr=0.5, dt=0.5)",
        "abel.tools.circularize.circularize_image(A.sym(31, 31), method='argmax', origin='com', dr=0.5, dt=0.5)"],
    'abel.tools.circularize.circularize': [
        "abel.tools.circularize.circularize(A.img(21, 21), lambda t: 1.0 + 0.0 * t)",
        "abel.tools.circularize.circularize(A.img(21, 21), lambda t: 1.0 + 0.0 * t, ref_angle=0.0)"],
    'abel.tools.symmetry.get_image_quadrants': [
        "abel.tools.symmetry.get_image_quadrants(A.img(9, 11), reorient=False)",
        "abel.tools.symmetry.get_image_quadrants(A.sym(9, 11), symmetry_axis=(0, 1))"],
    'abel.tools.symmetry.put_image_quadrants': [
        "abel.tools.symmetry.put_image_quadrants((A.rand(5, 6, label='Q0'), A.rand(5, 6, label='Q1'), A.rand(5, 6, label='Q2'), A.rand(5, 6, label='Q3')), (10, 12))"],
    'abel.tools.polar.reproject_image_into_polar': [
        "abel.tools.polar.reproject_image_into_polar(A.img(21, 21, label='data'), origin=(10, 10), Jacobian=False, dr=1)"],
    'abel.tools.math.gradient': ["abel.tools.math.gradient(A.img(7, 9, label='f'), dx=1)"],
    'abel.tools.vmi.toPES': ["abel.tools.vmi.toPES(A.arange(30, label='radial'), A.gauss(30, label='intensity'), 1.0, per_energy_scaling=False)"],
    'abel.tools.vmi.Distributions': [
        "(lambda D: (lambda r: (r, r.cos()))(D(A.img(21, 23))))(abel.tools.vmi.Distributions('cc', order=0, use_sin=False, "
        "weights=A.arr(np.ones((21, 23)), label='weights'), method='nearest'))"],
    'abel.rbasex.rbasex_transform': [
        "abel.rbasex.rbasex_transform(A.img(21, 21), order=0, weights=A.arr(np.ones((21, 21)), label='weights'))"],
    'abel.basex.basex_transform': ["abel.basex.basex_transform(A.half(9, 11, label='data'), sigma=1.0, reg=0.0, correction=False, dr=1.0, %s)" % _TO],
    'abel.dasch.dasch_transform': ["abel.dasch.dasch_transform(A.half(9, 11), A.arr(np.eye(11), label='D'))"],
    'abel.basex.basex_core_transform': ["abel.basex.basex_core_transform(A.half(9, 11, label='rawdata'), A.arr(np.eye(11), label='A'))"],
    'abel.direct.direct_transform': ["abel.direct.direct_transform(A.half(7, 11, label='fr'), dr=1, correction=False, backend='python')"],
    'abel.onion_bordas.onion_bordas_transform': ["abel.onion_bordas.onion_bordas_transform(A.half(9, 11), dr=1, shift_grid=False)"],
    'abel.daun.daun_transform': ["abel.daun.daun_transform(A.half(9, 11, label='data'), reg=0, degree=0, dr=1.0, %s)" % _TO],
    'abel.linbasex.mean_beta': ["abel.linbasex.mean_beta(A.arange(15, label='radial'), A.rand(1, 15, label='Beta', lo=1.0), A.list([(0, 14)], label='regions'))"],
    'abel.tools.polynomial.Angular': ["abel.tools.polynomial.Angular(A.arr([1.0], label='c'))"],
    'abel.tools.polynomial.Polynomial': [
        "abel.tools.polynomial.Polynomial(A.arange(15, label='r'), 0.0, 14.0, A.arr([1.0], label='c'), r_0=0.0, s=1.0)"],
}
for _k, _v in _NOOP.items():
    SPECS[_k]['calls'] = list(SPECS[_k]['calls']) + _v
for _k, _v in _MORE.items():
    SPECS[_k]['calls'] = list(SPECS[_k]['calls']) + _v


# ---------------------------------------------------------------------------
# Third round: REUSED OBJECTS.  For every public class: `ctor` builds one object
# (evaluated once), every `use` is evaluated several times on that same object
# `obj` (see check_object in _alias_harness.py).  Fail closed: every public
# method of the class and of the classes of the objects it hands out must occur
# in some use (tools/props/C18.py checks this by introspection); properties and
# plain attributes are the data of the object itself and are reached by the
# attribute walk of the results.
_RES = ("(lambda r: (r, r.cos(), r.rcos(), r.cossin(), r.rcossin(), r.harmonics(), r.rharmonics(), r.Ibeta(), "
        "r.rIbeta(), r.Ibeta(window=3), r.rIbeta(window=3)))")
_RESULT_USES = ["obj.cos()", "obj.rcos()", "obj.cossin()", "obj.rcossin()", "obj.harmonics()", "obj.rharmonics()",
                "obj.Ibeta()", "obj.rIbeta()", "obj.Ibeta(window=3)", "(obj.r, obj.cn, obj.valid) and obj.rIbeta(window=3)"]
_RC = "abel.tools.polynomial.rcos(shape=(15, 17))"
OBJECTS = {
    'abel.tools.vmi.Distributions': [
        dict(ctor="abel.tools.vmi.Distributions('cc', order=2)",
             uses=[_RES + "(obj(A.img(21, 23)))", _RES + "(obj.image(A.img(21, 23)))"]),
        dict(ctor="abel.tools.vmi.Distributions((9, 10), rmax='all', order=4, use_sin=False, "
                  "weights=A.rand(21, 23, label='weights', lo=0.5, hi=1.5), method='nearest')",
             uses=[_RES + "(obj(A.img(21, 23)))"]),
        dict(ctor="abel.tools.vmi.Distributions('ll', rmax='MAX', order=1, odd=True, method='remap')",
             uses=[_RES + "(obj.image(A.img(21, 23)))"]),
        # the Results objects handed out, reused themselves
        dict(ctor="abel.tools.vmi.Distributions('cc', order=2)(A.img(21, 23))", uses=_RESULT_USES),
        dict(ctor="abel.tools.vmi.Distributions('cc', order=3, odd=True)(A.img(21, 23))", uses=_RESULT_USES),
        dict(ctor="abel.rbasex.rbasex_transform(A.img(21, 21), order=2)[1]", uses=_RESULT_USES),
        dict(ctor="abel.transform.Transform(A.img(21, 21), method='rbasex').distr", uses=_RESULT_USES[:6]),
    ],
    'abel.tools.polynomial.BasePolynomial': [        # (the base class has no data of its own: a Polynomial through the base methods)
        dict(ctor="abel.tools.polynomial.Polynomial(A.arange(15, label='r'), 2.0, 9.0, A.arr([1.0, -0.5, 0.25], label='c'))",
             uses=["abel.tools.polynomial.BasePolynomial.copy(obj)", "abel.tools.polynomial.BasePolynomial.__mul__(obj, 2.0)",
                   "obj * 2.0", "obj / 4.0"])],
    'abel.tools.polynomial.Polynomial': [
        dict(ctor="abel.tools.polynomial.Polynomial(A.arange(15, label='r'), 2.0, 9.0, A.arr([1.0, -0.5, 0.25], label='c'), r_0=1.0, s=2.0)",
             uses=["obj.copy()", "obj * 2.0", "3.0 * obj", "obj / 4.0", "(lambda q: q.__imul__(2.0))(obj.copy())",
                   "(lambda q: q.__itruediv__(2.0))(obj.copy())"])],
    'abel.tools.polynomial.PiecewisePolynomial': [
        dict(ctor="abel.tools.polynomial.PiecewisePolynomial(A.arange(15, label='r'), [(1.0, 4.0, A.arr([1.0, 0.5], label='c0'), 0.5, 2.0), "
                  "(4.0, 8.0, [3.0, -0.25, 0.01])])",
             uses=["obj.copy()", "obj * 2.0", "obj / 4.0", "(lambda q: q.__imul__(2.0))(obj.copy())"])],
    'abel.tools.polynomial.SPolynomial': [
        dict(ctor="(lambda rc: abel.tools.polynomial.SPolynomial(A.arr(rc[0], label='r'), A.arr(rc[1], label='cos'), 2.0, 7.0, "
                  "A.arr([[1.0, 0.0, 0.5], [0.0, 0.1, 0.0]], label='c'), s=1.5))(%s)" % _RC,
             uses=["obj.copy()", "obj * 2.0", "obj / 4.0"])],
    'abel.tools.polynomial.PiecewiseSPolynomial': [
        dict(ctor="(lambda rc: abel.tools.polynomial.PiecewiseSPolynomial(A.arr(rc[0], label='r'), A.arr(rc[1], label='cos'), "
                  "[(1.0, 4.0, A.arr([[1.0, 0.5], [0.0, 0.2]], label='c0')), (4.0, 7.0, [[3.0, -0.25, 0.01]], 1.0, 2.0)]))(%s)" % _RC,
             uses=["obj.copy()", "obj * 2.0", "obj / 4.0"])],
    'abel.tools.polynomial.Angular': [
        dict(ctor="abel.tools.polynomial.Angular(A.arr([1.0, 0.0, 0.5], label='c'))",
             uses=["obj + obj", "obj - abel.tools.polynomial.Angular.cos(2)", "obj * obj", "obj * 2.0", "2.0 * obj", "obj / 2.0",
                   "obj * abel.tools.polynomial.Angular.sin(2)", "abel.tools.polynomial.Angular.cossin(1, 2) + obj",
                   "abel.tools.polynomial.Angular.legendre(A.arr([1.0, 0.0, 0.5], label='l')) * obj", "repr(obj)"])],
    'abel.tools.polynomial.ApproxGaussian': [
        dict(ctor="abel.tools.polynomial.ApproxGaussian(0.01)", uses=["obj.scaled(2.0, 1.0, 3.0)", "obj.scaled()"])],
    'abel.tools.analytical.BaseAnalytical': [],
    'abel.tools.analytical.StepAnalytical': [
        dict(ctor="abel.tools.analytical.StepAnalytical(21, 10.0, 2.0, 6.0, symmetric=False)",
             uses=["obj.abel_step_analytical(A.arange(12, label='r'), 1.0, 3.0, 8.0)",
                   "obj.sym_abel_step_1d(A.arange(12, label='r', start=-6), 1.0, 0.0, 4.0)"])],
    'abel.tools.analytical.Polynomial': [],
    'abel.tools.analytical.PiecewisePolynomial': [],
    'abel.tools.analytical.GaussianAnalytical': [],
    'abel.tools.analytical.TransformPair': [
        dict(ctor="abel.tools.analytical.TransformPair(21, profile=3)", uses=["obj.profile(A.arange(20, label='r', step=0.05, start=0.05))"])],
    'abel.tools.analytical.SampleImage': [
        dict(ctor="abel.tools.analytical.SampleImage(31, name='dribinski')", uses=["obj.transform()", "obj.transform(tol=0.01)"]),
        dict(ctor="abel.tools.analytical.SampleImage(31, name='Ominus', sigma=2.0)", uses=["obj.transform()"]),
        dict(ctor="abel.tools.analytical.SampleImage(31, name='gaussian')", uses=["obj.transform()"])],
    'abel.transform.Transform': [],      # no call-like methods: everything happens in the constructor
    # a function object handed out by a public function, reused
    'abel.tools.circularize.circularize_image': [
        dict(ctor="abel.tools.circularize.circularize_image(A.img(31, 31), method='argmax', dr=0.5, dt=0.5, return_correction=True)",
             uses=["obj[3](A.arange(9, label='angle', step=0.7, start=-2.8))",
                   "abel.tools.circularize.circularize(A.img(31, 31), obj[3], ref_angle=0.3)"])],
}


def public_callables():
    """(key, object) for every public function/class defined in the listed
    modules (found by introspection; re-exports are attributed to their home
    module)."""
    import importlib
    import inspect
    import pkgutil
    import abel.tools
    mods = list(MODULES)
    for m in pkgutil.iter_modules(abel.tools.__path__):
        if 'abel.tools.' + m.name not in mods:
            mods.append('abel.tools.' + m.name)
    import abel as _abel
    for m in pkgutil.iter_modules(_abel.__path__):
        if not m.ispkg and not m.name.startswith('_') and 'abel.' + m.name not in mods:
            mods.append('abel.' + m.name)
    out = {}
    for mn in mods:
        try:
            M = importlib.import_module(mn)
        except Exception:       # noqa  (e.g. optional compiled extension)
            continue
        for n, o in inspect.getmembers(M):
            if n.startswith('_'):
                continue
            if (inspect.isfunction(o) or inspect.isclass(o)) and getattr(o, '__module__', '') == mn:
                out['%s.%s' % (mn, n)] = o
    return out
