# dir_guards.py — fail-closed translator: the direction guards of the ten
# transform functions and of abel.Transform  ->  coq/gen/DirGuards.v
#
# For every transform function the top-level statements
#       if <test mentioning only `direction`>: raise ...
# are collected and evaluated for direction in {'forward', 'inverse',
# 'sideways'} (partial evaluation of the guard's own AST); for
# Transform._verify_some_inputs the guards mentioning self.direction (and
# self.method) are evaluated for the ten method names.  The result is a decision
# table fn_dir_raises / tr_dir_raises : meth -> dir -> bool, which
# coq/proofs/DirGuardsEq.v proves equal to what model/Dispatch.v assumes
# (negb (implemented m d)).  A guard that cannot be evaluated (it mentions other
# names) or a function that is missing makes the translator fail.
import ast
import os

import vlib


class Unsupported(Exception):
    pass


FUNCS = [
    ('Basex', 'abel/basex.py', 'basex_transform'),
    ('Daun', 'abel/daun.py', 'daun_transform'),
    ('Direct', 'abel/direct.py', 'direct_transform'),
    ('Hansenlaw', 'abel/hansenlaw.py', 'hansenlaw_transform'),
    ('OnionBordas', 'abel/onion_bordas.py', 'onion_bordas_transform'),
    ('OnionPeeling', 'abel/dasch.py', '_dasch_transform'),
    ('TwoPoint', 'abel/dasch.py', '_dasch_transform'),
    ('ThreePoint', 'abel/dasch.py', '_dasch_transform'),
    ('Linbasex', 'abel/linbasex.py', 'linbasex_transform_full'),
    ('Rbasex', 'abel/rbasex.py', 'rbasex_transform'),
]
METHOD_NAME = dict(Basex='basex', Daun='daun', Direct='direct', Hansenlaw='hansenlaw', OnionBordas='onion_bordas',
                   OnionPeeling='onion_peeling', TwoPoint='two_point', ThreePoint='three_point',
                   Linbasex='linbasex', Rbasex='rbasex')
DIRS = [('Forward', 'forward'), ('Inverse', 'inverse'), ('Sideways', 'sideways')]


def names_in(node):
    return {n.id for n in ast.walk(node) if isinstance(n, ast.Name)}


def find_function(path, name):
    tree = ast.parse(open(os.path.join(vlib.REPO, path)).read())
    for f in ast.walk(tree):
        if isinstance(f, ast.FunctionDef) and f.name == name:
            return f
    raise Unsupported('%s: function %s not found' % (path, name))


def is_raise_body(body):
    return len(body) == 1 and isinstance(body[0], ast.Raise)


def fn_guards(f):
    """top-level `if <test on direction only>: raise` statements"""
    out = []
    for s in f.body:
        if isinstance(s, ast.If) and 'direction' in names_in(s.test) and is_raise_body(s.body) and not s.orelse:
            if names_in(s.test) - {'direction'}:
                raise Unsupported('%s: direction guard mentions other names: %s' % (f.name, ast.unparse(s.test)))
            out.append(s.test)
    return out


def evaluate(test, env):
    code = compile(ast.Expression(test), '<guard>', 'eval')
    return bool(eval(code, {'__builtins__': {}}, env))


class _Self:
    def __init__(self, method, direction):
        self.method = method
        self.direction = direction


def tr_guards(f):
    out = []
    for s in f.body:
        if isinstance(s, ast.If) and is_raise_body(s.body) and not s.orelse:
            src = ast.unparse(s.test)
            if 'self.direction' in src:
                attrs = {a.attr for a in ast.walk(s.test) if isinstance(a, ast.Attribute)
                         and isinstance(a.value, ast.Name) and a.value.id == 'self'}
                if attrs - {'direction', 'method'} or names_in(s.test) - {'self'}:
                    raise Unsupported('Transform direction guard mentions other state: ' + src)
                out.append(s.test)
    return out


SHAPES = ['Fine', 'OneD', 'TwoRows', 'OneCol', 'TwoCols', 'NonSquare', 'EvenSize']
# (rows, cols) a transform FUNCTION sees for each shape class (the classes of
# model/Dispatch.v: what tools/props/C20.py passes) -- half image for the
# quadrant methods, whole image for linbasex / rbasex
FN_DIMS = dict(Fine=(11, 11), OneCol=(11, 1), TwoCols=(11, 2), NonSquare=(17, 21), EvenSize=(20, 20))
FN_DIMS_FULL = dict(FN_DIMS, Fine=(21, 21))
# array shapes given to abel.Transform for each class
TR_SHAPES = dict(Fine=(21, 21), OneD=(21,), TwoRows=(2, 21), OneCol=(21, 1), TwoCols=(21, 3),
                 NonSquare=(17, 21), EvenSize=(20, 20))


def fn_shape_guards(f):
    """top-level `if <test on rows / cols (and method) only>: raise` statements,
    which must come after `IM = np.atleast_2d(IM)` and `rows, cols = IM.shape`"""
    out = []
    seen_2d = seen_unpack = False
    for s in f.body:
        src = ast.unparse(s)
        if src == 'IM = np.atleast_2d(IM)':
            seen_2d = True
        if src in ('rows, cols = IM.shape', '(rows, cols) = IM.shape'):
            seen_unpack = seen_2d
        if isinstance(s, ast.If) and is_raise_body(s.body) and not s.orelse and names_in(s.test) & {'rows', 'cols'}:
            if names_in(s.test) - {'rows', 'cols', 'method'}:
                raise Unsupported('%s: shape guard mentions other names: %s' % (f.name, ast.unparse(s.test)))
            if not seen_unpack:
                raise Unsupported('%s: shape guard before `rows, cols = IM.shape` of the 2-D view' % f.name)
            out.append(s.test)
    return out


class _SelfIM:
    def __init__(self, shape):
        import numpy
        self.IM = numpy.zeros(shape)


def tr_shape_guards(f):
    out = []
    for s in f.body:
        if isinstance(s, ast.If) and is_raise_body(s.body) and not s.orelse and 'self.IM' in ast.unparse(s.test):
            attrs = {a.attr for a in ast.walk(s.test) if isinstance(a, ast.Attribute)
                     and isinstance(a.value, ast.Name) and a.value.id == 'self'}
            if attrs - {'IM'} or names_in(s.test) - {'self', 'np'}:
                raise Unsupported('Transform shape guard mentions other state: ' + ast.unparse(s.test))
            out.append(s.test)
    return out


def shape_tables(meths):
    import numpy
    rows_fn = []
    for coq, path, name in FUNCS:
        gs = fn_shape_guards(find_function(path, name))
        dims = FN_DIMS_FULL if coq in ('Linbasex', 'Rbasex') else FN_DIMS
        for sh in SHAPES:
            if sh not in dims:          # 1-D / two-row inputs are legitimate for the functions
                rows_fn.append('  | %s, %s => false' % (coq, sh))
                continue
            r, c = dims[sh]
            v = any(evaluate(g, {'rows': r, 'cols': c, 'method': METHOD_NAME[coq]}) for g in gs)
            rows_fn.append('  | %s, %s => %s' % (coq, sh, 'true' if v else 'false'))
    tg = tr_shape_guards(meths['_verify_some_inputs'])
    if not tg:
        raise Unsupported('Transform._verify_some_inputs has no guard on the shape of self.IM')
    # _verify_some_inputs must be the first thing __init__ does with the data
    rows_tr = []
    for sh in SHAPES:
        v = any(evaluate(g, {'self': _SelfIM(TR_SHAPES[sh]), 'np': numpy}) for g in tg)
        rows_tr.append('  | %s => %s' % (sh, 'true' if v else 'false'))
    return rows_fn, rows_tr


# public front ends that take `direction` and must hand it on unchanged
WRAPPERS = [('abel/linbasex.py', 'linbasex_transform', 'linbasex_transform_full'),
            ('abel/dasch.py', 'two_point_transform', '_dasch_transform'),
            ('abel/dasch.py', 'three_point_transform', '_dasch_transform'),
            ('abel/dasch.py', 'onion_peeling_transform', '_dasch_transform')]


def check_wrappers():
    for path, name, target in WRAPPERS:
        f = find_function(path, name)
        if 'direction' not in [a.arg for a in f.args.args]:
            raise Unsupported('%s: %s has no direction parameter' % (path, name))
        ok = False
        for n in ast.walk(f):
            if isinstance(n, ast.Call) and ast.unparse(n.func).split('.')[-1] == target:
                kws = {k.arg: ast.unparse(k.value) for k in n.keywords}
                if kws.get('direction') == 'direction':
                    ok = True
                else:
                    raise Unsupported('%s: %s calls %s without direction=direction' % (path, name, target))
        if not ok:
            raise Unsupported('%s: %s does not call %s' % (path, name, target))


def generate():
    check_wrappers()
    rows_fn, rows_tr = [], []
    for coq, path, name in FUNCS:
        gs = fn_guards(find_function(path, name))
        for dcoq, d in DIRS:
            r = any(evaluate(g, {'direction': d}) for g in gs)
            rows_fn.append('  | %s, %s => %s' % (coq, dcoq, 'true' if r else 'false'))
    # how Transform reaches the function: the quadrant methods and rbasex get
    # direction=self.direction; linbasex_transform_full is called without it
    tree = ast.parse(open(os.path.join(vlib.REPO, 'abel', 'transform.py')).read())
    cls = [c for c in tree.body if isinstance(c, ast.ClassDef) and c.name == 'Transform'][0]
    meths = {f.name: f for f in cls.body if isinstance(f, ast.FunctionDef)}
    lin = ast.unparse(meths['_abel_transform_image_full_linbasex'])
    rb = ast.unparse(meths['_abel_transform_image_full_rbasex'])
    quad = ast.unparse(meths['_abel_transform_image_by_quadrant'])
    lin_passes = 'direction=self.direction' in lin
    if 'direction=self.direction' not in rb or 'direction=self.direction' not in quad:
        raise Unsupported('Transform no longer passes direction to rbasex / the quadrant methods')
    tg = tr_guards(meths['_verify_some_inputs'])
    for coq, path, name in FUNCS:
        gs = fn_guards(find_function(path, name))
        for dcoq, d in DIRS:
            r = any(evaluate(g, {'self': _Self(METHOD_NAME[coq], d)}) for g in tg)
            if not r:
                if coq == 'Linbasex' and not lin_passes:
                    r = any(evaluate(g, {'direction': 'inverse'}) for g in gs)   # default direction
                else:
                    r = any(evaluate(g, {'direction': d}) for g in gs)
            rows_tr.append('  | %s, %s => %s' % (coq, dcoq, 'true' if r else 'false'))
    init_src = ast.unparse(meths['__init__'])
    if 'self._verify_some_inputs()' not in init_src or \
            init_src.index('self._verify_some_inputs()') > init_src.index('self._center_image('):
        raise Unsupported('Transform.__init__ no longer verifies its inputs before centring')
    sh_fn, sh_tr = shape_tables(meths)
    text = ('(* GENERATED by tools/translate/dir_guards.py from the direction guards in abel/*.py -- do not edit. *)\n'
            'From PA Require Import model.Dispatch.\n\n'
            '(* does the transform function raise for this direction (guards evaluated from the source)? *)\n'
            'Definition fn_dir_raises (m : meth) (d : dir) : bool :=\n  match m, d with\n%s\n  end.\n\n'
            '(* the same for a request made through abel.Transform *)\n'
            'Definition tr_dir_raises (m : meth) (d : dir) : bool :=\n  match m, d with\n%s\n  end.\n\n'
            '(* shape guards (`if <test on rows, cols>: raise`) of the transform functions, evaluated on the\n'
            '   dimensions of each shape class *)\n'
            'Definition fn_shape_raises (m : meth) (sh : shape) : bool :=\n  match m, sh with\n%s\n  end.\n\n'
            '(* shape guards of Transform._verify_some_inputs (tests on self.IM) *)\n'
            'Definition tr_shape_raises (sh : shape) : bool :=\n  match sh with\n%s\n  end.\n'
            % ('\n'.join(rows_fn), '\n'.join(rows_tr), '\n'.join(sh_fn), '\n'.join(sh_tr)))
    vlib.write_if_changed(os.path.join(vlib.COQ, 'gen', 'DirGuards.v'), text)
    return text


if __name__ == '__main__':
    print(generate())
