# vmi_inv.py — fail-closed translator of the hand-written 2x2 / 3x3 Hankel
# inverses `inv2`, `inv3` nested in abel.tools.vmi.Distributions._precalc
# (abel/tools/vmi.py) into Gallina (coq/gen/VmiInv.v), over an arbitrary
# carrier.  Every Python construct that is not in the small subset below makes
# the translator raise (the check then reports the tie as broken).
#
# Supported statements (in a function `def f(p)`):
#   a, b, c = p                       tuple-unpacking of the only argument
#   x = <expr>                        <expr> over names, +, -, *, /, unary -, ints
#   C = np.zeros((n, m))
#   C[i, j] = <expr>
#   C[:a, :b] = g(p[:k])              g an already translated function
#   if x == 0: / if x != 0:           body ends with `return` or is one `C[i, j] = ...`
#   return C  /  return <expr> * np.array([[...], ...])
import ast
import os

import vlib

SRC = os.path.join('abel', 'tools', 'vmi.py')
OUT = os.path.join(vlib.COQ, 'gen', 'VmiInv.v')


class Unsupported(Exception):
    pass


def fail(node, why):
    raise Unsupported('vmi_inv translator: %s at line %s: %s'
                      % (why, getattr(node, 'lineno', '?'), ast.dump(node)[:200]))


def find_funcs(tree):
    """The nested functions inv2 / inv3 of Distributions._precalc."""
    for cls in tree.body:
        if isinstance(cls, ast.ClassDef) and cls.name == 'Distributions':
            for fn in cls.body:
                if isinstance(fn, ast.FunctionDef) and fn.name == '_precalc':
                    found = {}
                    for node in ast.walk(fn):
                        if isinstance(node, ast.FunctionDef) and node.name in ('inv2', 'inv3'):
                            if node.name in found:
                                raise Unsupported('duplicate definition of ' + node.name)
                            found[node.name] = node
                    # how the functions are used: self.C = np.array([invK(p) for p in pc])
                    uses = {}
                    for node in ast.walk(fn):
                        if isinstance(node, ast.If):
                            check_dispatch(node, uses)
                    return found, uses
    raise Unsupported('Distributions._precalc not found')


def check_dispatch(node, uses):
    """Record `elif self.N == K: self.C = np.array([invK(p) for p in pc])`."""
    t = node.test
    if (isinstance(t, ast.Compare) and len(t.ops) == 1 and isinstance(t.ops[0], ast.Eq)
            and isinstance(t.left, ast.Attribute) and t.left.attr == 'N'
            and isinstance(t.comparators[0], ast.Constant)):
        k = t.comparators[0].value
        if len(node.body) == 1 and isinstance(node.body[0], ast.Assign):
            v = node.body[0].value
            if (isinstance(v, ast.Call) and isinstance(v.func, ast.Attribute) and v.func.attr == 'array'
                    and len(v.args) == 1 and isinstance(v.args[0], ast.ListComp)):
                lc = v.args[0]
                if (isinstance(lc.elt, ast.Call) and isinstance(lc.elt.func, ast.Name)
                        and len(lc.elt.args) == 1 and isinstance(lc.elt.args[0], ast.Name)
                        and len(lc.generators) == 1
                        and isinstance(lc.generators[0].target, ast.Name)
                        and lc.generators[0].target.id == lc.elt.args[0].id
                        and isinstance(lc.generators[0].iter, ast.Name)
                        and lc.generators[0].iter.id == 'pc' and not lc.generators[0].ifs):
                    uses[k] = lc.elt.func.id


class Fn:
    def __init__(self, node, known):
        self.node = node
        self.known = known          # name -> arity of already translated functions
        if len(node.args.args) != 1 or node.args.vararg or node.args.kwarg or node.args.defaults:
            fail(node, 'unexpected signature')
        self.param = node.args.args[0].arg
        self.scalars = set()
        self.mats = {}              # name -> (rows, cols)
        body = list(node.body)
        # first statement: tuple unpacking of the argument
        st = body[0]
        if not (isinstance(st, ast.Assign) and len(st.targets) == 1 and isinstance(st.targets[0], ast.Tuple)
                and isinstance(st.value, ast.Name) and st.value.id == self.param
                and all(isinstance(e, ast.Name) for e in st.targets[0].elts)):
            fail(st, 'first statement must unpack the argument')
        self.args = [e.id for e in st.targets[0].elts]
        self.scalars.update(self.args)
        self.text = self.block(body[1:])

    # ---- scalar expressions ------------------------------------------
    def expr(self, e):
        if isinstance(e, ast.Name):
            if e.id not in self.scalars:
                fail(e, 'unknown scalar name')
            return e.id
        if isinstance(e, ast.Constant) and isinstance(e.value, int) and not isinstance(e.value, bool):
            if e.value == 0:
                return 'zero'
            if e.value == 1:
                return 'one'
            fail(e, 'integer constant other than 0/1')
        if isinstance(e, ast.UnaryOp) and isinstance(e.op, ast.USub):
            return '(opp %s)' % self.expr(e.operand)
        if isinstance(e, ast.BinOp):
            op = {ast.Add: 'add', ast.Sub: 'sub', ast.Mult: 'mul', ast.Div: 'div'}.get(type(e.op))
            if op is None:
                fail(e, 'unsupported operator')
            return '(%s %s %s)' % (op, self.expr(e.left), self.expr(e.right))
        fail(e, 'unsupported scalar expression')

    def test(self, t):
        if (isinstance(t, ast.Compare) and len(t.ops) == 1 and len(t.comparators) == 1
                and isinstance(t.comparators[0], ast.Constant) and t.comparators[0].value == 0
                and type(t.comparators[0].value) is int):
            lhs = self.expr(t.left)
            if isinstance(t.ops[0], ast.Eq):
                return '(eqb %s zero)' % lhs
            if isinstance(t.ops[0], ast.NotEq):
                return '(negb (eqb %s zero))' % lhs
        fail(t, 'unsupported test')

    # ---- matrix expressions --------------------------------------------
    def np_call(self, e, name):
        return (isinstance(e, ast.Call) and isinstance(e.func, ast.Attribute) and e.func.attr == name
                and isinstance(e.func.value, ast.Name) and e.func.value.id == 'np' and not e.keywords)

    def mexpr(self, e):
        """Returns (coq text, (rows, cols))."""
        if isinstance(e, ast.Name) and e.id in self.mats:
            return e.id, self.mats[e.id]
        if self.np_call(e, 'zeros'):
            a = e.args
            if (len(a) == 1 and isinstance(a[0], ast.Tuple) and len(a[0].elts) == 2
                    and all(isinstance(x, ast.Constant) and type(x.value) is int for x in a[0].elts)):
                n, m = [x.value for x in a[0].elts]
                return '(mzeros zero %d %d)' % (n, m), (n, m)
            fail(e, 'np.zeros with unsupported argument')
        if self.np_call(e, 'array'):
            a = e.args
            if len(a) == 1 and isinstance(a[0], ast.List) and all(isinstance(r, ast.List) for r in a[0].elts):
                rows = [[self.expr(x) for x in r.elts] for r in a[0].elts]
                m = len(rows[0])
                if any(len(r) != m for r in rows):
                    fail(e, 'ragged matrix literal')
                return '[' + '; '.join('[' + '; '.join(r) + ']' for r in rows) + ']', (len(rows), m)
            fail(e, 'np.array with unsupported argument')
        if isinstance(e, ast.BinOp) and isinstance(e.op, ast.Mult):
            # scalar * matrix
            k = self.expr(e.left)
            M, shp = self.mexpr(e.right)
            return '(mscale mul %s %s)' % (k, M), shp
        if isinstance(e, ast.Call) and isinstance(e.func, ast.Name) and e.func.id in self.known:
            # g(p[:k]) with k the arity of g
            k, shp = self.known[e.func.id]
            a = e.args
            if (len(a) == 1 and not e.keywords and isinstance(a[0], ast.Subscript)
                    and isinstance(a[0].value, ast.Name) and a[0].value.id == self.param
                    and isinstance(a[0].slice, ast.Slice) and a[0].slice.lower is None
                    and a[0].slice.step is None and isinstance(a[0].slice.upper, ast.Constant)
                    and a[0].slice.upper.value == k and k <= len(self.args)):
                return '(%s %s)' % (e.func.id, ' '.join(self.args[:k])), shp
            fail(e, 'call of a translated function with unsupported argument')
        fail(e, 'unsupported matrix expression')

    # ---- statements ---------------------------------------------------------
    def index(self, s):
        """C[i, j] -> ('elem', C, i, j);  C[:a, :b] -> ('block', C, a, b)."""
        if not (isinstance(s, ast.Subscript) and isinstance(s.value, ast.Name) and s.value.id in self.mats
                and isinstance(s.slice, ast.Tuple) and len(s.slice.elts) == 2):
            fail(s, 'unsupported subscript target')
        a, b = s.slice.elts
        if all(isinstance(x, ast.Constant) and type(x.value) is int and x.value >= 0 for x in (a, b)):
            return 'elem', s.value.id, a.value, b.value
        if all(isinstance(x, ast.Slice) and x.lower is None and x.step is None
               and isinstance(x.upper, ast.Constant) and type(x.upper.value) is int and x.upper.value > 0
               for x in (a, b)):
            return 'block', s.value.id, a.upper.value, b.upper.value
        fail(s, 'unsupported subscript')

    def update(self, st):
        """A subscript assignment as (matrix name, new value text)."""
        if not (isinstance(st, ast.Assign) and len(st.targets) == 1):
            fail(st, 'unsupported statement')
        kind, C, a, b = self.index(st.targets[0])
        n, m = self.mats[C]
        if kind == 'elem':
            if a >= n or b >= m:
                fail(st, 'index out of range')
            return C, '(mset %s %d %d %s)' % (C, a, b, self.expr(st.value))
        M, shp = self.mexpr(st.value)
        if shp != (a, b) or a > n or b > m:
            fail(st, 'block shape mismatch')
        return C, '(mset_block %s %s)' % (C, M)

    def block(self, stmts):
        if not stmts:
            fail(self.node, 'function body may fall off the end')
        st, rest = stmts[0], stmts[1:]
        if isinstance(st, ast.Return):
            if rest:
                fail(st, 'statements after return')
            if st.value is None:
                fail(st, 'bare return')
            M, shp = self.mexpr(st.value)
            self.shape = getattr(self, 'shape', shp)
            if self.shape != shp:
                fail(st, 'returns of different shapes')
            return M
        if isinstance(st, ast.Assign) and len(st.targets) == 1 and isinstance(st.targets[0], ast.Name):
            name = st.targets[0].id
            if name in self.scalars or name in self.mats or name in ('zero', 'one', 'add', 'sub', 'mul', 'div',
                                                                      'opp', 'eqb', 'A'):
                fail(st, 'reassignment / reserved name')
            try:
                M, shp = self.mexpr(st.value)
            except Unsupported:
                M = None
            if M is not None:
                self.mats[name] = shp
                return 'let %s := %s in\n    %s' % (name, M, self.block(rest))
            v = self.expr(st.value)
            self.scalars.add(name)
            return 'let %s := %s in\n    %s' % (name, v, self.block(rest))
        if isinstance(st, ast.Assign):
            C, new = self.update(st)
            return 'let %s := %s in\n    %s' % (C, new, self.block(rest))
        if isinstance(st, ast.If):
            if st.orelse:
                fail(st, 'else branches are not supported')
            t = self.test(st.test)
            if isinstance(st.body[-1], ast.Return):
                saved = (set(self.scalars), dict(self.mats))
                then = self.block(list(st.body))
                self.scalars, self.mats = saved
                return 'if %s then (\n    %s)\n    else\n    %s' % (t, then, self.block(rest))
            if len(st.body) == 1:
                C, new = self.update(st.body[0])
                return 'let %s := if %s then %s else %s in\n    %s' % (C, t, new, C, self.block(rest))
            fail(st, 'unsupported if body')
        fail(st, 'unsupported statement')


HEADER = '''(* GENERATED by tools/translate/vmi_inv.py from %s (do not edit):
   the hand-written inverses inv2 / inv3 of Distributions._precalc, over an
   arbitrary carrier.  Argument = unique elements p[0..2n-2] of the n x n
   Hankel matrix; result = list of rows. *)
From Coq Require Import List Bool.
From PA Require Import base.MatL.
Import ListNotations.

Section VmiInv.
  Variable A : Type.
  Variable O : field_ops A.
  Notation zero := (f0 O).  Notation one := (f1 O).
  Notation add := (fadd O). Notation sub := (fsub O). Notation mul := (fmul O).
  Notation div := (fdiv O). Notation opp := (fopp O). Notation eqb := (feqb O).

'''


def generate():
    path = os.path.join(vlib.REPO, SRC)
    tree = ast.parse(open(path).read())
    found, uses = find_funcs(tree)
    for name in ('inv2', 'inv3'):
        if name not in found:
            raise Unsupported('function %s not found in Distributions._precalc' % name)
    if uses.get(2) != 'inv2' or uses.get(3) != 'inv3':
        raise Unsupported('inv2/inv3 are not the functions applied for N == 2 / N == 3: %r' % (uses,))
    out = HEADER % SRC
    known = {}
    for name in ('inv2', 'inv3'):
        f = Fn(found[name], known)
        n = f.shape[0]
        if f.shape != (n, n) or len(f.args) != 2 * n - 1 or n != int(name[3:]):
            raise Unsupported('%s: unexpected shape %r / arity %d' % (name, f.shape, len(f.args)))
        known[name] = (len(f.args), f.shape)
        out += '  Definition %s (%s : A) : list (list A) :=\n    %s.\n\n' % (name, ' '.join(f.args), f.text)
    out += 'End VmiInv.\n'
    vlib.write_if_changed(OUT, out)
    return out


if __name__ == '__main__':
    print(generate())
