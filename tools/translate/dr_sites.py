# dr_sites.py — translator for the pixel-size (dr) Jacobian sites that are not
# matrix expressions: abel/hansenlaw.py (drive definitions), abel/onion_bordas.py
# (final scaling), abel/direct.py (prefactors, grid, singular kernel).
# (The dr sites of dasch.py, daun.py, basex.py are part of the symbolic
# execution in matrix_expr.py.)
#
# Each site is an element-wise arithmetic expression; it is translated, fail
# closed, into a Gallina function over an abstract carrier (zero/add/mul/sub/
# div/opp/two, and sqrt for the kernel) and written to coq/gen/DrSites.v.  The
# translator also checks that `dr` is used NOWHERE ELSE in the function, so the
# rest of the computation is independent of dr.
import ast
import os

import vlib

OUT = os.path.join(vlib.COQ, 'gen', 'DrSites.v')


class Unsupported(Exception):
    pass


def parse(rel):
    path = os.path.join(vlib.REPO, rel)
    tree = ast.parse(open(path).read())
    funcs = {n.name: n for n in tree.body if isinstance(n, ast.FunctionDef)}
    return path, funcs


def loads_of(fn, name):
    return [n for n in ast.walk(fn) if isinstance(n, ast.Name) and n.id == name and isinstance(n.ctx, ast.Load)]


def elem(e, names, where):
    """element-wise scalar translation; `names`: python source text -> Coq variable"""
    src = ast.unparse(e)
    if src in names:
        return names[src]
    if isinstance(e, ast.Constant) and isinstance(e.value, (int, float)) and not isinstance(e.value, bool):
        v = e.value
        if v == 2:
            return 'two'
        if v == 1:
            return 'one'
        if v == 0:
            return 'zero'
        raise Unsupported('%s: constant %r' % (where, v))
    if isinstance(e, ast.UnaryOp) and isinstance(e.op, ast.USub):
        return '(opp %s)' % elem(e.operand, names, where)
    if isinstance(e, ast.BinOp):
        op = {ast.Add: 'add', ast.Sub: 'sub', ast.Mult: 'mul', ast.Div: 'div'}.get(type(e.op))
        if isinstance(e.op, ast.Pow) and isinstance(e.right, ast.Constant) and e.right.value == 2:
            x = elem(e.left, names, where)
            return '(mul %s %s)' % (x, x)
        if op is None:
            raise Unsupported('%s: operator in %s' % (where, src))
        return '(%s %s %s)' % (op, elem(e.left, names, where), elem(e.right, names, where))
    if isinstance(e, ast.Call) and ast.unparse(e.func) == 'np.copy' and len(e.args) == 1 and not e.keywords:
        return elem(e.args[0], names, where)
    if isinstance(e, ast.Call) and ast.unparse(e.func) == 'np.sqrt' and len(e.args) == 1 and not e.keywords:
        return '(sqrt %s)' % elem(e.args[0], names, where)
    if isinstance(e, ast.Subscript) and ast.unparse(e.slice) == 'mask':
        return elem(e.value, names, where)           # boolean-mask selection is element-wise
    raise Unsupported('%s: unsupported expression %s' % (where, src))


def find_if(fn, test):
    hits = [n for n in ast.walk(fn) if isinstance(n, ast.If) and ast.unparse(n.test) == test]
    if len(hits) != 1:
        raise Unsupported('%s: expected one `if %s`, found %d' % (fn.name, test, len(hits)))
    return hits[0]


def only_assign(stmts, target, where):
    hits = [s for s in stmts if isinstance(s, ast.Assign) and len(s.targets) == 1 and ast.unparse(s.targets[0]) == target]
    if len(hits) != 1:
        raise Unsupported('%s: expected one assignment to %s, found %d' % (where, target, len(hits)))
    return hits[0]


def uses(node, name):
    return any(isinstance(n, ast.Name) and n.id == name for n in ast.walk(node))


def dr_assign(stmts, where):
    """the unique assignment among stmts whose right-hand side mentions dr"""
    hits = [s for s in stmts if isinstance(s, ast.Assign) and len(s.targets) == 1 and uses(s.value, 'dr')]
    if len(hits) != 1:
        raise Unsupported('%s: expected exactly one assignment using dr, found %d' % (where, len(hits)))
    return hits[0]


def gen_hansenlaw(defs):
    path, funcs = parse('abel/hansenlaw.py')
    fn = funcs['hansenlaw_transform']
    img = fn.args.args[0].arg                  # the image parameter (whatever it is called)
    top = find_if(fn, "direction == 'forward'")
    a = dr_assign(top.body, 'hansenlaw forward')
    if not isinstance(a.targets[0], ast.Name):
        raise Unsupported('hansenlaw forward: the driving function is not assigned to a variable')
    drv = a.targets[0].id
    defs.append(('hl_drive_forward', '(dr pi v : A)',
                 elem(a.value, {'dr': 'dr', 'np.pi': 'pi', img: 'v'}, 'hansenlaw.py:%d' % a.lineno),
                 'abel/hansenlaw.py:%d  %s = %s' % (a.lineno, drv, ast.unparse(a.value))))
    inner = [s for s in top.orelse if isinstance(s, ast.If)]
    if len(inner) != 1 or ast.unparse(inner[0].test) != 'hold_order == 0':
        raise Unsupported('hansenlaw inverse: expected `if hold_order == 0`')
    inner = inner[0]
    z = only_assign(inner.body, drv, 'hansenlaw inverse hold 0')
    if ast.unparse(z.value) != 'np.zeros_like(%s)' % img:
        raise Unsupported('hansenlaw inverse hold 0: the driving function is not initialised with zeros_like(image)')
    d = dr_assign(inner.body, 'hansenlaw inverse hold 0')
    if ast.unparse(d.targets[0]) != '%s[:, :-1]' % drv:
        raise Unsupported('hansenlaw inverse hold 0: target is %s' % ast.unparse(d.targets[0]))
    defs.append(('hl_drive_inverse0', '(dr x1 x0 : A)',
                 elem(d.value, {'dr': 'dr', '%s[:, 1:]' % img: 'x1', '%s[:, :-1]' % img: 'x0'}, 'hansenlaw.py:%d' % d.lineno),
                 'abel/hansenlaw.py:%d  %s[:, :-1] = %s   (x1 = next column, x0 = this column; last column 0)'
                 % (d.lineno, drv, ast.unparse(d.value))))
    g = dr_assign(inner.orelse, 'hansenlaw inverse hold 1')
    if ast.unparse(g.targets[0]) != drv or ast.unparse(g.value) != 'np.gradient(%s, dr, axis=-1)' % img:
        raise Unsupported('hansenlaw inverse hold 1: expected %s = np.gradient(%s, dr, axis=-1), found %s' % (drv, img, ast.unparse(g)))
    defs.append(('hl_gradient_spacing', '(dr : A)', 'dr',
                 'abel/hansenlaw.py:%d  %s = np.gradient(%s, dr, axis=-1): spacing of numpy.gradient' % (g.lineno, drv, img)))
    n = len(loads_of(fn, 'dr'))
    if n != 3:
        raise Unsupported('hansenlaw_transform uses dr at %d places (expected exactly the 3 definitions of the driving function)' % n)
    # the image itself must not be used after the driving function is built, except for its shape
    later = [s for s in fn.body if s.lineno > top.end_lineno]
    for s in later:
        for nd in ast.walk(s):
            if isinstance(nd, ast.Name) and nd.id == img and isinstance(nd.ctx, ast.Load):
                raise Unsupported('hansenlaw_transform: the image is used after the driving function is built (line %d)' % nd.lineno)


def gen_hansenlaw_recursion(defs, extra):
    """the recursion itself (hansenlaw.py: `for indx, col in enumerate(n-1): x = ...; aim[:, col] = x.sum(axis=0)`)"""
    path, funcs = parse('abel/hansenlaw.py')
    fn = funcs['hansenlaw_transform']
    loops = [s for s in fn.body if isinstance(s, ast.For)]
    main = [l for l in loops if ast.unparse(l.target) == '(indx, col)']
    if len(main) != 1:
        raise Unsupported('hansenlaw_transform: expected one loop `for indx, col in ...`')
    lp = main[0]
    if ast.unparse(lp.iter) != 'enumerate(n - 1)' or lp.orelse:
        raise Unsupported('hansenlaw recursion: iterator is %s' % ast.unparse(lp.iter))
    na = only_assign(fn.body, 'n', 'hansenlaw_transform')
    if ast.unparse(na.value) != 'np.arange(cols - 1, 1, -1)':
        raise Unsupported('hansenlaw recursion: n = %s' % ast.unparse(na.value))
    if len(lp.body) != 2 or not all(isinstance(b, ast.Assign) for b in lp.body):
        raise Unsupported('hansenlaw recursion: loop body changed')
    upd, out = lp.body
    if not (isinstance(upd.targets[0], ast.Name)):
        raise Unsupported('hansenlaw recursion: state update target')
    st = upd.targets[0].id
    # the driving array: the variable subscripted with [:, col + 1]
    drv = None
    for nd in ast.walk(upd.value):
        if isinstance(nd, ast.Subscript) and ast.unparse(nd.slice) == '(slice(None, None, None), col + 1)' or \
                (isinstance(nd, ast.Subscript) and ast.unparse(nd).endswith('[:, col + 1]')):
            drv = ast.unparse(nd.value)
    if drv is None:
        raise Unsupported('hansenlaw recursion: no term <drive>[:, col + 1]')
    names = {'phi[indx][:, None]': 'p', 'B0[indx][:, None]': 'c0', 'B1[indx][:, None]': 'c1', st: 'xk',
             '%s[:, col + 1]' % drv: 'd1', '%s[:, col]' % drv: 'd0'}
    defs.append(('hl_step_elem', '(p c0 c1 xk d1 d0 : A)', elem(upd.value, names, 'hansenlaw.py:%d' % upd.lineno),
                 'abel/hansenlaw.py:%d  %s = %s   (one state k, one image row)' % (upd.lineno, st, ast.unparse(upd.value))))
    if ast.unparse(out.targets[0]) != 'aim[:, col]' or ast.unparse(out.value) != '%s.sum(axis=0)' % st:
        raise Unsupported('hansenlaw recursion: output statement is %s' % ast.unparse(out))
    # initial state zero; the same driving array as in the dr sites
    init = only_assign(fn.body, st, 'hansenlaw_transform')
    if ast.unparse(init.value) != 'np.zeros((h.size, rows))':
        raise Unsupported('hansenlaw recursion: initial state is %s' % ast.unparse(init.value))
    # borders, after the loop, in this order
    after = [s2 for s2 in fn.body if s2.lineno > lp.end_lineno and isinstance(s2, ast.Assign)]
    texts = [ast.unparse(a) for a in after]
    if texts[:2] != ['aim[:, 0] = aim[:, 1]', 'aim[:, -1] = aim[:, -2]']:
        raise Unsupported('hansenlaw recursion: border statements are %r' % texts[:2])
    extra.append('(* abel/hansenlaw.py:%d  n = np.arange(cols - 1, 1, -1); the loop visits col = n - 1 in that order *)\n'
                 'Definition hl_cols (cols : nat) : list nat := List.map (fun m => m - 1) (List.rev (List.seq 2 (cols - 2))).\n'
                 % na.lineno)
    return drv


def gen_onion_bordas(defs):
    path, funcs = parse('abel/onion_bordas.py')
    fn = funcs['onion_bordas_transform']
    ret = [s for s in fn.body if isinstance(s, ast.Return)]
    if len(ret) != 1 or fn.body[-1] is not ret[0]:
        raise Unsupported('onion_bordas_transform: expected a single final return')
    e = ret[0].value
    if not (isinstance(e, ast.BinOp) and isinstance(e.op, (ast.Div, ast.Mult)) and isinstance(e.left, ast.Name)):
        raise Unsupported('onion_bordas_transform: return is not <array> / <expr> : %s' % ast.unparse(e))
    defs.append(('ob_scale', '(dr y : A)', elem(e, {'dr': 'dr', e.left.id: 'y'}, 'onion_bordas.py:%d' % ret[0].lineno),
                 'abel/onion_bordas.py:%d  return %s' % (ret[0].lineno, ast.unparse(e))))
    if len(loads_of(fn, 'dr')) != 1:
        raise Unsupported('onion_bordas_transform uses dr elsewhere than in the final scaling')


def gen_direct(defs):
    path, funcs = parse('abel/direct.py')
    fn = funcs['direct_transform']
    grid = funcs['_construct_r_grid']
    # r = (np.arange(n))*dr on the dr-given path
    ra = [n for n in ast.walk(grid) if isinstance(n, ast.Assign) and ast.unparse(n.targets[0]) == 'r']
    if len(ra) != 1 or ast.unparse(ra[0].value) not in ('np.arange(n) * dr', '(np.arange(n)) * dr'):
        raise Unsupported('_construct_r_grid: r is not np.arange(n)*dr: %s' % [ast.unparse(x.value) for x in ra])
    defs.append(('direct_grid', '(dr k : A)', '(mul k dr)', 'abel/direct.py:%d  r = (np.arange(n))*dr   (k = pixel index)' % ra[0].lineno))
    call = only_assign(fn.body, '(r, dr)', 'direct_transform')
    if ast.unparse(call.value) != '_construct_r_grid(f.shape[1], dr=dr, r=r)':
        raise Unsupported('direct_transform: grid construction changed')
    top = find_if(fn, "direction == 'inverse'")
    b = top.body
    if not (len(b) == 2 and isinstance(b[0], ast.Assign) and ast.unparse(b[0]) == 'f = derivative(f) / dr'
            and isinstance(b[1], ast.AugAssign) and isinstance(b[1].op, ast.Mult) and ast.unparse(b[1].target) == 'f'):
        raise Unsupported('direct_transform inverse prefactor changed: %s' % [ast.unparse(x) for x in b])
    fac = b[1].value
    # - 1./np.pi
    defs.append(('direct_pre_inverse', '(dr pi g : A)',
                 '(mul (div g dr) %s)' % elem(fac, {'np.pi': 'pi', '1.0': 'one'}, 'direct.py:%d' % b[1].lineno),
                 'abel/direct.py:%d-%d  f = derivative(f)/dr; f *= %s   (g = derivative(f), taken with unit spacing)'
                 % (b[0].lineno, b[1].lineno, ast.unparse(fac))))
    o = top.orelse
    if not (len(o) == 1 and isinstance(o[0], ast.AugAssign) and isinstance(o[0].op, ast.Mult)
            and ast.unparse(o[0].target) == 'f'):
        raise Unsupported('direct_transform forward prefactor changed')
    defs.append(('direct_pre_forward', '(rj v : A)', '(mul v %s)' % elem(o[0].value, {'r[None, :]': 'rj'}, 'direct.py:%d' % o[0].lineno),
                 'abel/direct.py:%d  f *= %s   (rj = r of the pixel)' % (o[0].lineno, ast.unparse(o[0].value))))
    if len(loads_of(fn, 'dr')) != 2:     # the grid call and the derivative division
        raise Unsupported('direct_transform uses dr at other places')
    integ = funcs['_pyabel_direct_integral']
    if loads_of(integ, 'dr'):
        raise Unsupported('_pyabel_direct_integral uses dr')
    s = only_assign(integ.body, 'I_sqrt[mask]', '_pyabel_direct_integral')
    i = only_assign(integ.body, 'I_isqrt[mask]', '_pyabel_direct_integral')
    defs.append(('direct_I_sqrt', '(y r : A)', elem(s.value, {'Y': 'y', 'R': 'r'}, 'direct.py:%d' % s.lineno),
                 'abel/direct.py:%d  I_sqrt[mask] = %s' % (s.lineno, ast.unparse(s.value))))
    defs.append(('direct_I_isqrt', '(y r : A)', elem(i.value, {'I_sqrt[mask]': '(direct_I_sqrt y r)', '1.0': 'one'}, 'direct.py:%d' % i.lineno),
                 'abel/direct.py:%d  I_isqrt[mask] = %s' % (i.lineno, ast.unparse(i.value))))
    # trapezoid spacing for a uniform grid
    u = find_if(integ, 'is_uniform_sampling(r)')
    if ast.unparse(u.body[0]) != "int_opts = {'dx': abs(r[1] - r[0])}":
        raise Unsupported('_pyabel_direct_integral: trapezoid spacing changed')
    P = [n for n in ast.walk(integ) if isinstance(n, ast.Assign) and ast.unparse(n.targets[0]) == 'P']
    if len(P) != 1 or ast.unparse(P[0].value) != 'row[None, :] * I_isqrt':
        raise Unsupported('_pyabel_direct_integral: integrand changed')
    # ---- assembly of the integral (pinned statements) and the end-cell correction (translated) ----
    def stmts(node):
        return [ast.unparse(x) for x in ast.walk(node) if isinstance(x, (ast.Assign, ast.AugAssign))]
    allst = stmts(integ)
    for need in ("mask = II < JJ", "I_sqrt = np.zeros(R.shape)", "I_isqrt = np.zeros(R.shape)",
                 "mask2 = (II > JJ - 2) & (II < JJ + 1)", "R, Y = np.meshgrid(r, r, indexing='ij')",
                 "II, JJ = np.meshgrid(i_vect, i_vect, indexing='ij')", "i_vect = np.arange(len(r), dtype=int)",
                 "out = np.zeros(f.shape)", "out[i, :] = int_func(P, axis=1, **int_opts)",
                 "out[i, :] = out[i, :] - 0.5 * int_func(P * mask2, axis=1, **int_opts)",
                 "isqrt = I_sqrt[II + 1 == JJ]", "ratio = np.append(np.cosh(1), r[2:] / r[1:-1])", "acr = np.arccosh(ratio)"):
        if allst.count(need) != 1:
            raise Unsupported('_pyabel_direct_integral: expected exactly one statement `%s` (found %d)' % (need, allst.count(need)))
    cif = find_if(integ, 'correction == 1')
    fr = only_assign(cif.body, 'f_r', '_pyabel_direct_integral')
    defs.append(('direct_f_r', '(f1 f0 r1 r0 : A)',
                 elem(fr.value, {'f[:, 1:]': 'f1', 'f[:, :-1]': 'f0', 'np.diff(r)[None, :]': '(sub r1 r0)'}, 'direct.py:%d' % fr.lineno),
                 'abel/direct.py:%d  f_r = %s' % (fr.lineno, ast.unparse(fr.value))))
    rif = find_if(integ, 'r[0] < r[1] * 1e-08')
    ra2 = only_assign(rif.orelse, 'ratio', '_pyabel_direct_integral')
    defs.append(('direct_ratio', '(r1 r0 : A)', elem(ra2.value, {'r[1:]': 'r1', 'r[:-1]': 'r0'}, 'direct.py:%d' % ra2.lineno),
                 'abel/direct.py:%d  ratio = %s  (and np.append(np.cosh(1), r[2:]/r[1:-1]) when r[0] = 0)' % (ra2.lineno, ast.unparse(ra2.value))))
    cl = [x for x in ast.walk(cif) if isinstance(x, ast.AugAssign)]
    if len(cl) != 1 or not isinstance(cl[0].op, ast.Add) or ast.unparse(cl[0].target) != 'out[i, :-1]':
        raise Unsupported('_pyabel_direct_integral: correction statement changed')
    defs.append(('direct_corr', '(isq fr ac f0 r0 : A)',
                 elem(cl[0].value, {'isqrt': 'isq', 'f_r[i]': 'fr', 'acr': 'ac', 'row[:-1]': 'f0', 'r[:-1]': 'r0'}, 'direct.py:%d' % cl[0].lineno),
                 'abel/direct.py:%d  out[i, :-1] += %s' % (cl[0].lineno, ast.unparse(cl[0].value))))
    defs.append(('direct_weight', '(dx y r fv : A)', '(mul (mul fv (direct_I_isqrt y r)) dx)',
                 'abel/direct.py:%d  P = row[None, :] * I_isqrt, integrated with dx = |r[1]-r[0]|: one trapezoid term' % P[0].lineno))


HEADER = '''(* GENERATED by tools/translate/dr_sites.py from abel/hansenlaw.py,
   abel/onion_bordas.py, abel/direct.py of %s -- do not edit.
   Element-wise arithmetic at the places where the pixel size dr enters; the
   translator has checked that dr is used nowhere else in these functions. *)
From Coq Require Import List Arith.
Section DrSites.
  Variable A : Type.
  Variables (zero one two : A) (add mul sub div : A -> A -> A) (opp sqrt : A -> A).

'''


def build():
    defs = []
    extra = []
    gen_hansenlaw(defs)
    gen_hansenlaw_recursion(defs, extra)
    gen_onion_bordas(defs)
    gen_direct(defs)
    text = HEADER % '/repo'
    for name, binders, body, comment in defs:
        text += '  (* %s *)\n  Definition %s %s : A := %s.\n\n' % (comment.replace('(*', '( *').replace('*)', '* )'), name, binders, body)
    text += 'End DrSites.\n\n' + '\n'.join(extra)
    return defs, text


def generate():
    defs, text = build()
    vlib.write_if_changed(OUT, text)
    return defs


if __name__ == '__main__':
    print(len(generate()), 'definitions written to', OUT)
