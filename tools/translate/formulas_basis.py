# formulas_basis.py — fail-closed translator  Python `ast`  ->  Coq real expressions
# for the closed forms that the basis generators of PyAbel evaluate (property C09).
#
#   abel/dasch.py  _bs_two_point / _bs_three_point / _bs_onion_peeling
#       scalar formulas J, I0diag, I0, I1diag, I1 and the *assembly* statements
#       (np.diag_indices / np.triu_indices, `[1:]`, `J-1`, `D[I, J] = ...`,
#       `D[0, 1] = ...`) which are executed symbolically into one guarded
#       per-entry formula  <name>_D (cols i j : Z) : R.
#   abel/daun.py   _bs_daun, degrees 0..3: the inner functions p(j) (and q(j)) with
#       their 1-D slice statements `o[:j + 1] += g(x2[:j + 1])`, `o[j] -= ...`,
#       `if j > 0:` are executed symbolically into  daun_p<deg> (j i : Z) : R.
#   abel/rbasex.py _bs_rbasex: F[-1..3], the F[n+2] recursion and the
#       second-difference stencil -> rbasex_F<n> (r rho : R), rbasex_rFRF<n>,
#       rbasex_p<n> (R r : R).
#
# Everything not in the supported subset raises Unsupported (the tie is then
# reported as broken by tools/props/C09.py).  The same intermediate
# representation (IR) is rendered to Coq (coq/gen/FormulasBasis.v) and evaluated
# in binary64 in the order of the Python source (`ev`), together with a
# first-order running error bound used as the documented tolerance of the
# translation validation.
from __future__ import annotations

import ast
import math
import os
from fractions import Fraction

import numpy as np

import vlib


class Unsupported(Exception):
    pass


def fail(node, why=''):
    line = getattr(node, 'lineno', '?')
    try:
        txt = ast.unparse(node)
    except Exception:
        txt = repr(node)
    raise Unsupported('line %s: unsupported %s: %s' % (line, why, txt[:120]))


# ---------------------------------------------------------------------------
# IR
#   real:  ('q', Fraction) ('pi',) ('rv', name) ('izr', z) ('add',a,b) ('sub',a,b)
#          ('mul',a,b) ('div',a,b) ('neg',a) ('pow',a,n) ('fn',f,a)
#          ('call', defname, [args]) ('ite', cond, a, b)
#   int:   ('zv', name) ('zc', k) ('zadd',a,b) ('zsub',a,b) ('zmul',a,b)
#   cond:  ('lt',a,b) ('le',a,b) ('eq',a,b) ('and',c,d) ('not',c) ('true',)
# ---------------------------------------------------------------------------
FUNCS = {'sqrt': 'sqrt', 'log': 'ln', 'exp': 'exp', 'arccos': 'acos', 'arcsin': 'asin',
         'arccosh': 'arccosh'}


def q(x):
    return ('q', Fraction(x))


ZERO = q(0)


def zrender(z):
    t = z[0]
    if t == 'zv':
        return z[1]
    if t == 'zc':
        return '%d' % z[1] if z[1] >= 0 else '(%d)' % z[1]
    op = {'zadd': '+', 'zsub': '-', 'zmul': '*'}[t]
    return '(%s %s %s)' % (zrender(z[1]), op, zrender(z[2]))


def crender(c):
    t = c[0]
    if t == 'true':
        return 'true'
    if t == 'and':
        return '(%s && %s)' % (crender(c[1]), crender(c[2]))
    if t == 'not':
        return '(negb %s)' % crender(c[1])
    op = {'lt': '<?', 'le': '<=?', 'eq': '=?'}[t]
    return '(%s %s %s)%%Z' % (zrender(c[1]), op, zrender(c[2]))


def rrender(e):
    t = e[0]
    if t == 'q':
        f = e[1]
        if f.denominator == 1:
            return '%d' % f.numerator if f.numerator >= 0 else '(%d)' % f.numerator
        return '(%d / %d)' % (f.numerator, f.denominator)
    if t == 'pi':
        return 'PI'
    if t == 'rv':
        return e[1]
    if t == 'izr':
        return '(IZR %s)' % zrender(e[1]) if e[1][0] in ('zv',) else '(IZR %s%%Z)' % zrender(e[1])
    if t in ('add', 'sub', 'mul', 'div'):
        op = {'add': '+', 'sub': '-', 'mul': '*', 'div': '/'}[t]
        return '(%s %s %s)' % (rrender(e[1]), op, rrender(e[2]))
    if t == 'neg':
        return '(- %s)' % rrender(e[1])
    if t == 'pow':
        return '(%s ^ %d)' % (rrender(e[1]), e[2])
    if t == 'fn':
        return '(%s %s)' % (e[1], rrender(e[2]))
    if t == 'call':
        return '(%s %s)' % (e[1], ' '.join(rrender(a) for a in e[2]))
    if t == 'ite':
        return '(if %s then %s else %s)' % (crender(e[1]), rrender(e[2]), rrender(e[3]))
    raise Unsupported('IR node %r' % (t,))


U = 2.0 ** -53


def zev(z, env):
    t = z[0]
    if t == 'zv':
        return int(env[z[1]])
    if t == 'zc':
        return z[1]
    a, b = zev(z[1], env), zev(z[2], env)
    return a + b if t == 'zadd' else a - b if t == 'zsub' else a * b


def cev(c, env):
    t = c[0]
    if t == 'true':
        return True
    if t == 'and':
        return cev(c[1], env) and cev(c[2], env)
    if t == 'not':
        return not cev(c[1], env)
    a, b = zev(c[1], env), zev(c[2], env)
    return a < b if t == 'lt' else a <= b if t == 'le' else a == b


def ev(e, env, defs):
    """binary64 evaluation in source order; returns (value, first-order running error bound)."""
    t = e[0]
    if t == 'q':
        f = e[1]
        v = float(f)
        return v, (0.0 if Fraction(v) == f else U * abs(v))
    if t == 'pi':
        return math.pi, U * math.pi
    if t == 'rv':
        return float(env[e[1]]), 0.0
    if t == 'val':
        return e[1], e[2]
    if t == 'izr':
        return float(zev(e[1], env)), 0.0
    if t in ('add', 'sub', 'mul', 'div'):
        a, ea = ev(e[1], env, defs)
        b, eb = ev(e[2], env, defs)
        with np.errstate(all='ignore'):
            if t == 'add':
                v = a + b; err = ea + eb
            elif t == 'sub':
                v = a - b; err = ea + eb
            elif t == 'mul':
                v = a * b; err = abs(a) * eb + abs(b) * ea
            else:
                v = np.float64(a) / np.float64(b)
                err = (ea / abs(b) + abs(a) * eb / (b * b)) if b != 0 else math.inf
        exact = (ea == 0 and eb == 0 and t != 'div' and float(v) == int(v) and abs(v) < 2.0 ** 52)
        return float(v), err + (0.0 if exact else U * abs(float(v)))
    if t == 'neg':
        a, ea = ev(e[1], env, defs)
        return -a, ea
    if t == 'pow':
        a, ea = ev(e[1], env, defs)
        v = float(np.float64(a) ** e[2])
        exact = ea == 0 and v == int(v) and abs(v) < 2.0 ** 52
        return v, e[2] * abs(a) ** max(e[2] - 1, 0) * ea + (0.0 if exact else e[2] * U * abs(v))
    if t == 'fn':
        a, ea = ev(e[2], env, defs)
        f = e[1]
        with np.errstate(all='ignore'):
            if f == 'sqrt':
                v = float(np.sqrt(np.float64(a)))
                err = (ea / (2 * v) if v > 0 else math.sqrt(ea)) + U * abs(v)
            elif f == 'ln':
                v = float(np.log(np.float64(a)))
                err = (ea / abs(a) if a != 0 else math.inf) + 2 * U * abs(v) + (U if ea else 0)
            elif f == 'exp':
                v = float(np.exp(np.float64(a)))
                err = abs(v) * (ea + 2 * U)
            elif f == 'acos':
                v = float(np.arccos(np.float64(a)))
                d = math.sqrt(max(1 - a * a, 0.0))
                err = (ea / d if d > 0 else math.sqrt(2 * ea)) + 2 * U * max(abs(v), 1.0)
            elif f == 'asin':
                v = float(np.arcsin(np.float64(a)))
                d = math.sqrt(max(1 - a * a, 0.0))
                err = (ea / d if d > 0 else math.sqrt(2 * ea)) + 2 * U * max(abs(v), 1.0)
            else:
                raise Unsupported('function ' + f)
        return v, err
    if t == 'call':
        params, body = defs[e[1]]
        sub = dict(env)
        errs = 0.0
        vals = []
        for p, a in zip(params, e[2]):
            va, ea = ev(a, env, defs)
            vals.append((va, ea))
        if any(ea != 0.0 for _, ea in vals):
            # inexact arguments: evaluate the body on the values and propagate the
            # argument errors to first order through a substituted copy
            m = {p: ('val', va, ea) for p, (va, ea) in zip(params, vals)}
            return ev(subst(body, m), env, defs)
        for p, (va, ea) in zip(params, vals):
            sub[p] = va
        return ev(body, sub, defs)
    if t == 'ite':
        return ev(e[2] if cev(e[1], env) else e[3], env, defs)
    raise Unsupported('IR node %r' % (t,))


# ---------------------------------------------------------------------------
# scalar expression translation (formulas over real parameters)
# ---------------------------------------------------------------------------

def np_attr(node):
    """np.<name> / numpy.<name> -> name, else None"""
    if isinstance(node, ast.Attribute) and isinstance(node.value, ast.Name) and node.value.id in ('np', 'numpy'):
        return node.attr
    return None


def const_value(node):
    if isinstance(node, ast.Constant) and type(node.value) in (int, float):
        return Fraction(node.value)
    return None


class ScalarTr:
    """Translate an expression over names bound in `env` (name -> IR real) and
    previously defined formulas `calls` (python name -> (coq name, arity))."""

    def __init__(self, env, calls):
        self.env = env
        self.calls = calls

    def tr(self, n):
        c = const_value(n)
        if c is not None:
            return q(c)
        if isinstance(n, ast.Name):
            if n.id in self.env:
                return self.env[n.id]
            fail(n, 'free name')
        if np_attr(n) == 'pi':
            return ('pi',)
        if isinstance(n, ast.UnaryOp):
            if isinstance(n.op, ast.USub):
                return ('neg', self.tr(n.operand))
            if isinstance(n.op, ast.UAdd):
                return self.tr(n.operand)
            fail(n, 'unary operator')
        if isinstance(n, ast.BinOp):
            if isinstance(n.op, ast.Pow):
                k = const_value(n.right)
                if k is None or k.denominator != 1 or k < 0 or k > 64:
                    fail(n, 'exponent (only literal naturals)')
                return ('pow', self.tr(n.left), int(k))
            ops = {ast.Add: 'add', ast.Sub: 'sub', ast.Mult: 'mul', ast.Div: 'div'}
            if type(n.op) not in ops:
                fail(n, 'binary operator')
            return (ops[type(n.op)], self.tr(n.left), self.tr(n.right))
        if isinstance(n, ast.Call):
            if n.keywords:
                fail(n, 'keyword arguments')
            f = np_attr(n.func)
            if f in FUNCS:
                if len(n.args) != 1:
                    fail(n, 'arity')
                return ('fn', FUNCS[f], self.tr(n.args[0]))
            if isinstance(n.func, ast.Name) and n.func.id in self.calls:
                cname, ar = self.calls[n.func.id]
                if len(n.args) != ar:
                    fail(n, 'arity')
                return ('call', cname, [self.tr(a) for a in n.args])
            fail(n, 'call')
        fail(n, 'expression')


def single_return(fd):
    body = [s for s in fd.body if not (isinstance(s, ast.Expr) and isinstance(s.value, ast.Constant))]
    if len(body) != 1 or not isinstance(body[0], ast.Return) or body[0].value is None:
        fail(fd, 'formula function must be a single return')
    return body[0].value


def find_function(tree, name):
    for n in tree.body:
        if isinstance(n, ast.FunctionDef) and n.name == name:
            return n
    raise Unsupported('function %s not found' % name)


def strip_doc(body):
    return [s for s in body if not (isinstance(s, ast.Expr) and isinstance(s.value, ast.Constant)
                                    and isinstance(s.value.value, str))]


# ---------------------------------------------------------------------------
# dasch.py: formulas + symbolic execution of the matrix assembly
# ---------------------------------------------------------------------------
ZI, ZJ, ZCOLS = ('zv', 'i'), ('zv', 'j'), ('zv', 'cols')


def zshift(z, k):
    if k == 0:
        return z
    return ('zadd', z, ('zc', k)) if k > 0 else ('zsub', z, ('zc', -k))


def conj(cs):
    cs = [c for c in cs if c != ('true',)]
    if not cs:
        return ('true',)
    out = cs[0]
    for c in cs[1:]:
        out = ('and', out, c)
    return out


class DaschAsm:
    def __init__(self, fd, prefix):
        self.fd = fd
        self.prefix = prefix
        self.defs = []          # (coqname, params, ir)
        self.calls = {}
        self.ix = {}            # name -> dict(base, comp, drop, off)
        self.mats = {}          # matrix name -> list of (cond, ir)
        self.result = None      # (kind, matrix name)   kind in 'direct', 'inv'
        args = [a.arg for a in fd.args.args]
        if args != ['cols']:
            fail(fd, 'signature (cols) expected')

    def run(self):
        for st in strip_doc(self.fd.body):
            self.stmt(st)
        if self.result is None:
            fail(self.fd, 'no return')
        return self

    # -- index-vector expressions
    def ixexpr(self, n):
        if isinstance(n, ast.Name) and n.id in self.ix:
            return dict(self.ix[n.id])
        if isinstance(n, ast.BinOp) and isinstance(n.op, (ast.Add, ast.Sub)) and isinstance(n.left, ast.Name) \
                and n.left.id in self.ix:
            k = const_value(n.right)
            if k is None or k.denominator != 1:
                fail(n, 'index offset')
            d = dict(self.ix[n.left.id])
            d['off'] += int(k) if isinstance(n.op, ast.Add) else -int(k)
            return d
        if isinstance(n, ast.Subscript) and isinstance(n.value, ast.Name) and n.value.id in self.ix:
            s = n.slice
            if isinstance(s, ast.Slice) and s.upper is None and s.step is None and s.lower is not None:
                k = const_value(s.lower)
                if k is None or k.denominator != 1 or k < 0:
                    fail(n, 'slice start')
                d = dict(self.ix[n.value.id])
                d['drop'] += int(k)
                return d
        fail(n, 'index-vector expression')

    def member(self, a, b, node):
        """condition that (i, j) is addressed by the index vectors a (rows), b (cols)"""
        if a['base'] != b['base'] or a['drop'] != b['drop'] or (a['comp'], b['comp']) != (0, 1):
            fail(node, 'row/column index vectors do not come from the same index set')
        bi, bj = zshift(ZI, -a['off']), zshift(ZJ, -b['off'])
        base = a['base']
        if base[0] == 'diag':
            if a['drop'] + a['off'] < 0 or a['drop'] + b['off'] < 0:
                fail(node, 'negative (wrapping) index')
            return conj([('eq', bi, bj), ('le', ('zc', a['drop']), bi), ('lt', bi, ZCOLS)])
        if base[0] == 'triu':
            k = base[1]
            if a['drop'] not in (0, 1) or a['off'] < 0 or k + b['off'] < 0 or k < 0:
                fail(node, 'triu index set: only [0:] / [1:] and non-wrapping offsets')
            cs = [('le', ('zc', 0), bi), ('le', zshift(bi, k), bj), ('lt', bj, ZCOLS)]
            if a['drop'] == 1:
                cs.append(('not', ('and', ('eq', bi, ('zc', 0)), ('eq', bj, ('zc', k)))))
            return conj(cs)
        fail(node, 'index set')

    def stmt(self, st):
        if isinstance(st, ast.FunctionDef):
            params = [a.arg for a in st.args.args]
            if st.args.defaults or st.args.vararg or st.args.kwarg or st.args.kwonlyargs:
                fail(st, 'formula signature')
            env = {p: ('rv', p) for p in params}
            ir = ScalarTr(env, self.calls).tr(single_return(st))
            cname = '%s_%s' % (self.prefix, st.name)
            self.defs.append((cname, params, ir))
            self.calls[st.name] = (cname, len(params))
            return
        if isinstance(st, ast.Return):
            if isinstance(st.value, ast.Name) and self.result and self.result[1] == st.value.id:
                return
            if isinstance(st.value, ast.Name) and st.value.id in self.mats:
                self.result = ('direct', st.value.id)
                return
            fail(st, 'return')
        if not isinstance(st, ast.Assign) or len(st.targets) != 1:
            fail(st, 'statement')
        tg, val = st.targets[0], st.value
        # M = np.zeros((cols, cols))
        if isinstance(tg, ast.Name) and isinstance(val, ast.Call) and np_attr(val.func) == 'zeros':
            a = val.args
            if len(a) == 1 and isinstance(a[0], ast.Tuple) and len(a[0].elts) == 2 and \
                    all(isinstance(x, ast.Name) and x.id == 'cols' for x in a[0].elts) and not val.keywords:
                self.mats[tg.id] = []
                return
            fail(st, 'zeros shape')
        # D = inv(W)
        if isinstance(tg, ast.Name) and isinstance(val, ast.Call) and isinstance(val.func, ast.Name) \
                and val.func.id == 'inv' and len(val.args) == 1 and isinstance(val.args[0], ast.Name) \
                and val.args[0].id in self.mats and not val.keywords:
            self.inv_of = val.args[0].id
            self.result = ('inv', tg.id)
            return
        # I, J = np.diag_indices(cols) | np.triu_indices(cols, k=K) | A, B-1
        if isinstance(tg, ast.Tuple) and len(tg.elts) == 2 and all(isinstance(x, ast.Name) for x in tg.elts):
            n0, n1 = tg.elts[0].id, tg.elts[1].id
            if isinstance(val, ast.Call) and np_attr(val.func) in ('diag_indices', 'triu_indices'):
                if len(val.args) != 1 or not (isinstance(val.args[0], ast.Name) and val.args[0].id == 'cols'):
                    fail(st, 'index-set size')
                if np_attr(val.func) == 'diag_indices':
                    if val.keywords:
                        fail(st, 'keywords')
                    base = ('diag',)
                else:
                    k = 0
                    for kw in val.keywords:
                        if kw.arg != 'k' or const_value(kw.value) is None:
                            fail(st, 'keywords')
                        k = int(const_value(kw.value))
                    base = ('triu', k)
                self.ix[n0] = dict(base=base, comp=0, drop=0, off=0)
                self.ix[n1] = dict(base=base, comp=1, drop=0, off=0)
                return
            if isinstance(val, ast.Tuple) and len(val.elts) == 2:
                a, b = self.ixexpr(val.elts[0]), self.ixexpr(val.elts[1])
                # for the diagonal set both components are the same vector
                if a['base'] == ('diag',):
                    a['comp'] = 0
                if b['base'] == ('diag',):
                    b['comp'] = 1
                self.ix[n0], self.ix[n1] = a, b
                return
            fail(st, 'tuple assignment')
        # I = I[1:]
        if isinstance(tg, ast.Name) and isinstance(val, ast.Subscript):
            self.ix[tg.id] = self.ixexpr(val)
            return
        # M[A, B] = expr   |  M[0, 1] = expr
        if isinstance(tg, ast.Subscript) and isinstance(tg.value, ast.Name) and tg.value.id in self.mats \
                and isinstance(tg.slice, ast.Tuple) and len(tg.slice.elts) == 2:
            ea, eb = tg.slice.elts
            ca, cb = const_value(ea), const_value(eb)
            if ca is not None and cb is not None:
                if ca < 0 or cb < 0 or ca.denominator != 1 or cb.denominator != 1:
                    fail(st, 'constant index')
                cond = conj([('eq', ZI, ('zc', int(ca))), ('eq', ZJ, ('zc', int(cb))),
                             ('lt', ('zc', int(max(ca, cb))), ZCOLS)])
                ir = ScalarTr({}, self.calls).tr(val)
                self.mats[tg.value.id].append((cond, ir))
                return
            if isinstance(ea, ast.Name) and isinstance(eb, ast.Name) and ea.id in self.ix and eb.id in self.ix:
                cond = self.member(self.ix[ea.id], self.ix[eb.id], st)
                env = {ea.id: ('izr', ZI), eb.id: ('izr', ZJ)}
                ir = ScalarTr(env, self.calls).tr(val)
                self.mats[tg.value.id].append((cond, ir))
                return
            fail(st, 'matrix assignment target')
        fail(st, 'statement')

    def entry(self, mat):
        e = ZERO
        for cond, ir in self.mats[mat]:      # later assignments override earlier ones
            e = ('ite', cond, ir, e)
        return e


# ---------------------------------------------------------------------------
# daun.py: symbolic execution of p(j) / q(j)
# ---------------------------------------------------------------------------
class Sc:
    """scalar: IR real + optional affine form a*j + b (Fractions)"""

    def __init__(self, ir, aff=None):
        self.ir, self.aff = ir, aff


class Vec:
    """1-D array: element function idx(Z-IR) -> IR real, stop = affine form or 'n'"""

    def __init__(self, elem, stop, is_arange=False):
        self.elem, self.stop, self.is_arange = elem, stop, is_arange


def aff_z(aff, node=None):
    a, b = aff
    if a.denominator != 1 or b.denominator != 1:
        fail(node, 'non-integer index')
    a, b = int(a), int(b)
    if a == 0:
        return ('zc', b)
    base = ZJ if a == 1 else ('zmul', ('zc', a), ZJ)
    return zshift(base, b)


class DaunExec:
    def __init__(self, fd_outer, fd, jname, shared):
        self.fd = fd
        self.j = jname
        self.env = dict(shared)     # name -> Sc | Vec | ast.FunctionDef
        self.env[jname] = Sc(('izr', ZJ), (Fraction(1), Fraction(0)))
        self.lb = 0                 # lower bound of j under the current guards (j in range(n))
        self.guards = []
        self.contrib = []           # (sign, cond, ir)
        self.acc = None
        self.scale = None

    # ---- helpers
    def lower(self, aff):
        a, b = aff
        if a < 0:
            fail(self.fd, 'decreasing index')
        return a * self.lb + b

    def check_stop(self, aff, node):
        """0 <= stop <= n for every j allowed here (j <= n-1): a in {0,1}, b <= 1"""
        a, b = aff
        if a.denominator != 1 or b.denominator != 1:
            fail(node, 'non-integer slice stop')
        if self.lower(aff) < 0:
            fail(node, 'slice stop may be negative (python would count from the end)')
        if not ((a == 1 and b <= 1) or (a == 0 and b <= 1)):
            fail(node, 'slice stop may exceed n')

    # ---- expression evaluation
    def ev(self, n, env):
        c = const_value(n)
        if c is not None:
            return Sc(q(c), (Fraction(0), c))
        if isinstance(n, ast.Name):
            if n.id in env and isinstance(env[n.id], (Sc, Vec)):
                return env[n.id]
            fail(n, 'free name')
        if np_attr(n) == 'pi':
            return Sc(('pi',))
        if isinstance(n, ast.UnaryOp) and isinstance(n.op, (ast.USub, ast.UAdd)):
            v = self.ev(n.operand, env)
            if isinstance(n.op, ast.UAdd):
                return v
            if isinstance(v, Vec):
                return Vec(lambda i, f=v.elem: ('neg', f(i)), v.stop)
            return Sc(('neg', v.ir), None if v.aff is None else (-v.aff[0], -v.aff[1]))
        if isinstance(n, ast.BinOp):
            if isinstance(n.op, ast.Pow):
                k = const_value(n.right)
                if k is None or k.denominator != 1 or k < 0 or k > 64:
                    fail(n, 'exponent')
                v = self.ev(n.left, env)
                k = int(k)
                if isinstance(v, Vec):
                    return Vec(lambda i, f=v.elem: ('pow', f(i), k), v.stop)
                return Sc(('pow', v.ir, k))
            ops = {ast.Add: 'add', ast.Sub: 'sub', ast.Mult: 'mul', ast.Div: 'div'}
            if type(n.op) not in ops:
                fail(n, 'operator')
            op = ops[type(n.op)]
            a, b = self.ev(n.left, env), self.ev(n.right, env)
            if isinstance(a, Sc) and isinstance(b, Sc):
                aff = None
                if a.aff is not None and b.aff is not None:
                    (a1, b1), (a2, b2) = a.aff, b.aff
                    if op == 'add':
                        aff = (a1 + a2, b1 + b2)
                    elif op == 'sub':
                        aff = (a1 - a2, b1 - b2)
                    elif op == 'mul' and (a1 == 0 or a2 == 0):
                        aff = (a1 * b2 + a2 * b1, b1 * b2)
                    elif op == 'div' and a2 == 0 and b2 != 0:
                        aff = (a1 / b2, b1 / b2)
                return Sc((op, a.ir, b.ir), aff)
            if isinstance(a, Vec) and isinstance(b, Vec):
                if a.stop != b.stop:
                    fail(n, 'array operands of different length')
                return Vec(lambda i, f=a.elem, g=b.elem: (op, f(i), g(i)), a.stop)
            if isinstance(a, Vec):
                return Vec(lambda i, f=a.elem, s=b.ir: (op, f(i), s), a.stop)
            return Vec(lambda i, s=a.ir, g=b.elem: (op, s, g(i)), b.stop)
        if isinstance(n, ast.Subscript):
            v = self.ev(n.value, env)
            if not isinstance(v, Vec):
                fail(n, 'subscript of a scalar')
            s = n.slice
            if isinstance(s, ast.Slice):
                if s.lower is not None or s.step is not None or s.upper is None:
                    fail(n, 'slice form (only [:stop])')
                st = self.ev(s.upper, env)
                if not isinstance(st, Sc) or st.aff is None:
                    fail(n, 'slice stop')
                if v.stop != 'n':
                    fail(n, 'slice of a slice')
                self.check_stop(st.aff, n)
                return Vec(v.elem, st.aff)
            ix = self.ev(s, env)
            if not isinstance(ix, Sc) or ix.aff is None:
                fail(n, 'index')
            if self.lower(ix.aff) < 0 or not (ix.aff[0] in (0, 1) and ix.aff[1] <= 0) or v.stop != 'n':
                fail(n, 'index may be out of range / negative')
            return Sc(v.elem(aff_z(ix.aff, n)))
        if isinstance(n, ast.Call):
            f = np_attr(n.func)
            if f in FUNCS and len(n.args) == 1 and not n.keywords:
                v = self.ev(n.args[0], env)
                if isinstance(v, Vec):
                    return Vec(lambda i, g=v.elem: ('fn', FUNCS[f], g(i)), v.stop)
                return Sc(('fn', FUNCS[f], v.ir))
            if isinstance(n.func, ast.Name) and n.func.id == 'int' and len(n.args) == 1 and not n.keywords:
                v = self.ev(n.args[0], env)
                if not isinstance(v, Sc) or v.aff is None or v.aff[0].denominator != 1:
                    fail(n, 'int() argument')
                if self.lower(v.aff) < 0:
                    fail(n, 'int() of a possibly negative number')
                fl = Fraction(math.floor(v.aff[1]))
                aff = (v.aff[0], fl)
                return Sc(('izr', aff_z(aff, n)), aff)
            if isinstance(n.func, ast.Name) and isinstance(env.get(n.func.id), ast.FunctionDef):
                return self.inline(env[n.func.id], n, env)
            fail(n, 'call')
        fail(n, 'expression')

    def inline(self, fd, call, env):
        params = [a.arg for a in fd.args.args]
        if fd.args.defaults or fd.args.vararg or fd.args.kwarg or call.keywords or len(call.args) != len(params):
            fail(call, 'call signature')
        loc = dict(env)
        for p, a in zip(params, call.args):
            loc[p] = self.ev(a, env)
        body = strip_doc(fd.body)
        for st in body[:-1]:
            if not (isinstance(st, ast.Assign) and len(st.targets) == 1 and isinstance(st.targets[0], ast.Name)):
                fail(st, 'statement in an inlined function')
            loc[st.targets[0].id] = self.ev(st.value, loc)
        if not isinstance(body[-1], ast.Return):
            fail(fd, 'inlined function must end with return')
        return self.ev(body[-1].value, loc)

    # ---- statements of p(j)
    def run(self):
        params = [a.arg for a in self.fd.args.args]
        if params != [self.j]:
            fail(self.fd, 'signature')
        self.block(strip_doc(self.fd.body))
        if self.scale is None:
            fail(self.fd, 'no return')
        e = ZERO
        for sign, cond, ir in self.contrib:
            term = ir if cond == ('true',) else ('ite', cond, ir, ZERO)
            e = ('add' if sign > 0 else 'sub', e, term)
        if self.scale != 1:
            e = ('mul', q(self.scale), e)
        return e

    def block(self, sts):
        for st in sts:
            if isinstance(st, ast.FunctionDef):
                self.env[st.name] = st
            elif isinstance(st, ast.Assign) and len(st.targets) == 1 and isinstance(st.targets[0], ast.Name) \
                    and isinstance(st.value, ast.Call) and np_attr(st.value.func) == 'zeros':
                a = st.value.args
                if self.acc is not None or len(a) != 1 or not (isinstance(a[0], ast.Name) and a[0].id == 'n') \
                        or st.value.keywords or self.guards:
                    fail(st, 'accumulator')
                self.acc = st.targets[0].id
            elif isinstance(st, ast.AugAssign) and isinstance(st.op, (ast.Add, ast.Sub)) and \
                    isinstance(st.target, ast.Subscript) and isinstance(st.target.value, ast.Name) and \
                    st.target.value.id == self.acc:
                sign = 1 if isinstance(st.op, ast.Add) else -1
                s = st.target.slice
                val = self.ev(st.value, self.env)
                if isinstance(s, ast.Slice):
                    if s.lower is not None or s.step is not None or s.upper is None:
                        fail(st, 'slice form')
                    stop = self.ev(s.upper, self.env)
                    if not isinstance(stop, Sc) or stop.aff is None:
                        fail(st, 'slice stop')
                    self.check_stop(stop.aff, st)
                    if isinstance(val, Vec):
                        if val.stop != stop.aff:
                            fail(st, 'shape mismatch between target slice and value')
                        ir = val.elem(ZI)
                    else:
                        ir = val.ir
                    cond = ('lt', ZI, aff_z(stop.aff, st))
                else:
                    ix = self.ev(s, self.env)
                    if not isinstance(ix, Sc) or ix.aff is None or isinstance(val, Vec):
                        fail(st, 'element update')
                    if self.lower(ix.aff) < 0 or not (ix.aff[0] in (0, 1) and ix.aff[1] <= 0):
                        fail(st, 'element index may be negative / out of range')
                    ir = val.ir
                    cond = ('eq', ZI, aff_z(ix.aff, st))
                self.contrib.append((sign, conj(self.guards + [cond]), ir))
            elif isinstance(st, ast.If):
                t = st.test
                if st.orelse or not (isinstance(t, ast.Compare) and len(t.ops) == 1 and isinstance(t.ops[0], ast.Gt)
                                     and isinstance(t.left, ast.Name) and t.left.id == self.j
                                     and const_value(t.comparators[0]) is not None
                                     and const_value(t.comparators[0]).denominator == 1):
                    fail(st, 'if (only `if j > k:` without else)')
                k = int(const_value(t.comparators[0]))
                old = (self.lb, list(self.guards))
                self.lb = max(self.lb, k + 1)
                self.guards.append(('lt', ('zc', k), ZJ))
                self.block(st.body)
                self.lb, self.guards = old
            elif isinstance(st, ast.Return):
                v = st.value
                if self.guards:
                    fail(st, 'conditional return')
                if isinstance(v, ast.Name) and v.id == self.acc:
                    self.scale = Fraction(1)
                elif isinstance(v, ast.BinOp) and isinstance(v.op, ast.Mult) and const_value(v.left) is not None \
                        and isinstance(v.right, ast.Name) and v.right.id == self.acc:
                    self.scale = const_value(v.left)
                else:
                    fail(st, 'return')
            else:
                fail(st, 'statement')


def daun_shared(fd):
    """The common subexpressions defined before the degree dispatch:
         x = np.arange(float(n)); x2 = x**2;
         if degree > 0: x2logx = x2 * np.log(x, np.zeros_like(x), where=x > 0)"""
    shared = {}
    helper = DaunExec(fd, fd, '__j', {})

    def assign(st):
        if not (isinstance(st, ast.Assign) and len(st.targets) == 1 and isinstance(st.targets[0], ast.Name)):
            fail(st, 'preamble statement')
        name, v = st.targets[0].id, st.value
        if isinstance(v, ast.Call) and np_attr(v.func) == 'arange':
            a = v.args
            if len(a) == 1 and isinstance(a[0], ast.Call) and isinstance(a[0].func, ast.Name) and a[0].func.id == 'float' \
                    and len(a[0].args) == 1 and isinstance(a[0].args[0], ast.Name) and a[0].args[0].id == 'n' \
                    and not v.keywords:
                shared[name] = Vec(lambda i: ('izr', i), 'n', is_arange=True)
                return
            fail(st, 'arange form')
        shared[name] = ev_pre(v)

    def ev_pre(v):
        # masked logarithm  np.log(x, np.zeros_like(x), where=x > 0)
        if isinstance(v, ast.Call) and np_attr(v.func) == 'log' and len(v.args) == 2 and len(v.keywords) == 1:
            x, out, kw = v.args[0], v.args[1], v.keywords[0]
            ok = (isinstance(x, ast.Name) and isinstance(shared.get(x.id), Vec) and shared[x.id].is_arange and
                  isinstance(out, ast.Call) and np_attr(out.func) == 'zeros_like' and len(out.args) == 1 and
                  isinstance(out.args[0], ast.Name) and out.args[0].id == x.id and kw.arg == 'where' and
                  isinstance(kw.value, ast.Compare) and len(kw.value.ops) == 1 and isinstance(kw.value.ops[0], ast.Gt)
                  and isinstance(kw.value.left, ast.Name) and kw.value.left.id == x.id
                  and const_value(kw.value.comparators[0]) == 0)
            if not ok:
                fail(v, 'masked log form')
            return Vec(lambda i: ('ite', ('lt', ('zc', 0), i), ('fn', 'ln', ('izr', i)), ZERO), 'n')
        if isinstance(v, ast.BinOp) and not isinstance(v.op, ast.Pow):
            ops = {ast.Add: 'add', ast.Sub: 'sub', ast.Mult: 'mul', ast.Div: 'div'}
            if type(v.op) not in ops:
                fail(v, 'operator')
            a, b = ev_pre(v.left), ev_pre(v.right)
            op = ops[type(v.op)]
            if isinstance(a, Vec) and isinstance(b, Vec):
                return Vec(lambda i, f=a.elem, g=b.elem: (op, f(i), g(i)), 'n')
            fail(v, 'preamble expression')
        return helper.ev(v, shared)

    body = strip_doc(fd.body)
    k = 0
    while k < len(body):
        st = body[k]
        if isinstance(st, ast.Assign):
            assign(st)
        elif isinstance(st, ast.If) and isinstance(st.test, ast.Compare) and isinstance(st.test.left, ast.Name) \
                and st.test.left.id == 'degree' and isinstance(st.test.ops[0], ast.Gt) and not st.orelse:
            for s2 in st.body:
                assign(s2)
        else:
            break
        k += 1
    return shared, body[k:]


def translate_daun(tree):
    fd = find_function(tree, '_bs_daun')
    shared, rest = daun_shared(fd)
    # degree dispatch:  if degree == 0: def p(j) ... elif degree == 1: ... else: raise
    out = {}
    node = rest[0]
    if not isinstance(node, ast.If):
        fail(node, 'degree dispatch expected')
    while True:
        t = node.test
        if not (isinstance(t, ast.Compare) and isinstance(t.left, ast.Name) and t.left.id == 'degree'
                and len(t.ops) == 1 and isinstance(t.ops[0], ast.Eq) and const_value(t.comparators[0]) is not None):
            fail(node, 'degree test')
        deg = int(const_value(t.comparators[0]))
        for st in node.body:
            if not isinstance(st, ast.FunctionDef) or st.name not in ('p', 'q'):
                fail(st, 'only def p(j)/q(j) expected in a degree branch')
            ex = DaunExec(fd, st, st.args.args[0].arg if st.args.args else 'j', shared)
            out['daun_%s%d' % (st.name, deg)] = ex.run()
        if len(node.orelse) == 1 and isinstance(node.orelse[0], ast.If):
            node = node.orelse[0]
            continue
        if not (len(node.orelse) == 1 and isinstance(node.orelse[0], ast.Raise)):
            fail(node, 'final else must raise')
        break
    # assembly:  A = np.empty((n, n)); for j in range(n): A[j] = p(j)
    asm = [s for s in rest[1:] if not isinstance(s, ast.If) or not _is_verbose(s)]
    found = False
    for s in asm:
        if isinstance(s, ast.For) and isinstance(s.target, ast.Name) and isinstance(s.iter, ast.Call) \
                and isinstance(s.iter.func, ast.Name) and s.iter.func.id == 'range' and len(s.iter.args) == 1 \
                and isinstance(s.iter.args[0], ast.Name) and s.iter.args[0].id == 'n' and len(s.body) == 1:
            b = s.body[0]
            if isinstance(b, ast.Assign) and isinstance(b.targets[0], ast.Subscript) and \
                    isinstance(b.targets[0].value, ast.Name) and b.targets[0].value.id == 'A' and \
                    isinstance(b.targets[0].slice, ast.Name) and b.targets[0].slice.id == s.target.id and \
                    isinstance(b.value, ast.Call) and isinstance(b.value.func, ast.Name) and b.value.func.id == 'p' \
                    and len(b.value.args) == 1 and isinstance(b.value.args[0], ast.Name) \
                    and b.value.args[0].id == s.target.id:
                found = True
    if not found:
        raise Unsupported('daun: assembly loop `for j in range(n): A[j] = p(j)` not found')
    return out


def _is_verbose(s):
    return isinstance(s.test, ast.Name) and s.test.id == 'verbose'


# ---------------------------------------------------------------------------
# rbasex.py: F_n, rFRF, stencil
# ---------------------------------------------------------------------------
def translate_rbasex(tree, maxorder=8):
    """Inside `for r in range(1, Rmax + 1):` of _bs_rbasex the code works on the
    vector R = r-1 .. Rmax+1 with rho = max(r, R).  Translated per element:
       rbasex_F<n> (r rho : R)          n = -1 .. maxorder-1... as far as the code defines
       rbasex_rFRF<n> (r Rc : R) := r * F<n-1>(r, max(r,Rc)) - Rc * F<n>(r, max(r,Rc))
       rbasex_p<n> (Rc r : R)   := 2 * (2 * rFRF(Rc) - rFRF(Rc+1) - rFRF(Rc-1))
    The element R = r-1 < r uses rho = r (statement `rho[0] = r`)."""
    fd = find_function(tree, '_bs_rbasex')
    loop = None
    for st in strip_doc(fd.body):
        if isinstance(st, ast.For) and isinstance(st.target, ast.Name) and st.target.id == 'r':
            loop = st
    if loop is None:
        fail(fd, 'loop over r')
    it = loop.iter
    if not (isinstance(it, ast.Call) and isinstance(it.func, ast.Name) and it.func.id == 'range' and len(it.args) == 2
            and const_value(it.args[0]) == 1 and ast.unparse(it.args[1]) == 'Rmax + 1'):
        fail(loop, 'range(1, Rmax + 1)')
    env = {'r': ('rv', 'r')}
    F = {}
    defs = []
    stencil = None
    body = list(loop.body)

    def tr(n, env=env):
        return ScalarTr(env, {}).tr(n)

    for st in body:
        if isinstance(st, ast.Assign) and len(st.targets) == 1 and isinstance(st.targets[0], ast.Name):
            name, v = st.targets[0].id, st.value
            if name == 'R':
                if ast.unparse(v) != 'np.arange(r - 1, Rmax + 2, dtype=float)':
                    fail(st, 'R vector')
                env['R'] = ('rv', 'Rc')
            elif name == 'rho':
                if ast.unparse(v) != 'R.copy()':
                    fail(st, 'rho')
                env['rho'] = ('rv', 'rho')
            elif name == 'F':
                if not isinstance(v, ast.Dict):
                    fail(st, 'F dict')
                for k, val in zip(v.keys, v.values):
                    kk = ast.literal_eval(k)
                    F[kk] = tr(val)
            else:
                env[name] = tr(v)
        elif isinstance(st, ast.Assign) and ast.unparse(st.targets[0]) == 'rho[0]':
            if ast.unparse(st.value) != 'r':
                fail(st, 'rho[0]')
        elif isinstance(st, ast.If):
            t = st.test
            if not (isinstance(t, ast.Compare) and isinstance(t.left, ast.Name) and t.left.id == 'order'
                    and isinstance(t.ops[0], ast.GtE) and const_value(t.comparators[0]) is not None):
                fail(st, 'order guard')
            ordmin = int(const_value(t.comparators[0]))
            if len(st.body) == 1 and isinstance(st.body[0], ast.Assign) and \
                    isinstance(st.body[0].targets[0], ast.Subscript) and \
                    ast.unparse(st.body[0].targets[0].value) == 'F':
                k = ast.literal_eval(st.body[0].targets[0].slice)
                if k != ordmin:
                    fail(st, 'F[k] must be guarded by order >= k')
                F[k] = tr(st.body[0].value)
            else:
                # fn = f.copy(); for n in range(2, order - 1): fn *= f; F[n + 2] = (z * fn + (n - 1) * F[n]) / n
                b = st.body
                if not (len(b) == 2 and ast.unparse(b[0]) == 'fn = f.copy()' and isinstance(b[1], ast.For)
                        and ast.unparse(b[1].iter) == 'range(2, order - 1)' and ordmin == 4
                        and isinstance(b[1].target, ast.Name) and len(b[1].body) == 2
                        and ast.unparse(b[1].body[0]) == 'fn *= f'):
                    fail(st, 'recursion block')
                nname = b[1].target.id
                rec = b[1].body[1]
                if not (isinstance(rec, ast.Assign) and ast.unparse(rec.targets[0]) == 'F[%s + 2]' % nname):
                    fail(rec, 'recursion target')
                fn = env['f']
                for n in range(2, maxorder - 1):
                    fn = ('mul', fn, env['f'])
                    e2 = dict(env)
                    e2['fn'] = ('rv', '__fn')
                    e2[nname] = q(n)

                    class T(ScalarTr):
                        def tr(self, node):
                            if isinstance(node, ast.Subscript) and ast.unparse(node.value) == 'F':
                                idx = ast.unparse(node.slice)
                                if idx != nname:
                                    fail(node, 'F index in recursion')
                                return ('call', 'rbasex_F%s' % n, [('rv', 'r'), ('rv', 'rho')])
                            if isinstance(node, ast.Name) and node.id == 'fn':
                                return fn
                            return super().tr(node)
                    F[n + 2] = T(e2, {}).tr(rec.value)
        elif isinstance(st, ast.For):
            # for i, n in enumerate(orders): rFRF = r * F[n - 1] - R * F[n]; P[i][r:, r] = 2 * (2 * rFRF[1:-1] - rFRF[2:] - rFRF[:-2])
            if not (ast.unparse(st.target) == '(i, n)' or ast.unparse(st.target) == 'i, n') or \
                    ast.unparse(st.iter) != 'enumerate(orders)' or len(st.body) != 2:
                fail(st, 'loop over orders')
            a, b = st.body
            if ast.unparse(a) != 'rFRF = r * F[n - 1] - R * F[n]':
                fail(a, 'rFRF')
            if ast.unparse(b.targets[0]) != 'P[i][r:, r]':
                fail(b, 'stencil target')
            # stencil: expression over rFRF[1:-1] (R), rFRF[2:] (R+1), rFRF[:-2] (R-1)

            class S(ScalarTr):
                def tr(self, node):
                    if isinstance(node, ast.Subscript) and ast.unparse(node.value) == 'rFRF':
                        s = ast.unparse(node.slice)
                        if s == '1:-1':
                            return ('rv', '__c')
                        if s == '2:':
                            return ('rv', '__u')
                        if s == ':-2':
                            return ('rv', '__l')
                        fail(node, 'stencil slice')
                    return super().tr(node)
            stencil = S({}, {}).tr(b.value)
        else:
            fail(st, 'statement in the r loop')
    if stencil is None:
        fail(loop, 'no stencil')
    # rho, z, f, rln must have been defined from r and rho
    return F, env, stencil



# ---------------------------------------------------------------------------
# basex.py: the reconstructed-image basis rho_k(r_i) (matrix Mc of _bs_basex)
# ---------------------------------------------------------------------------
def translate_basex_rho(tree):
    """Mc[:, 0] = np.exp(-U2);  Mc[0, k] = 0;  Mc[1:, k] = np.exp(ek + np.log(U[1:]) * 2 * k2 - U2[1:])
    with U = np.arange(float(n)) / sigma, U2 = U * U, k2 = k * k, ek = (1 - log(k2)) * k2
    ->  basex_Mc0 (sigma i : R),  basex_Mck (k sigma i : R)  (i >= 1; Mc[0, k] = 0 is a constant)."""
    fd = find_function(tree, '_bs_basex')
    mathnames = set()
    for n in tree.body:
        if isinstance(n, ast.ImportFrom) and n.module == 'math':
            mathnames |= {a.asname or a.name for a in n.names}
    env = {'sigma': ('rv', 'sigma')}

    class T(ScalarTr):
        def tr(self, node):
            # elementwise: U[1:], U2[1:] are the vectors themselves at index i >= 1
            if isinstance(node, ast.Subscript) and isinstance(node.value, ast.Name) and node.value.id in ('U', 'U2') \
                    and ast.unparse(node.slice) == '1:':
                return self.env[node.value.id]
            if isinstance(node, ast.Call) and isinstance(node.func, ast.Name) and node.func.id in ('log', 'exp') \
                    and node.func.id in mathnames and len(node.args) == 1 and not node.keywords:
                return ('fn', 'ln' if node.func.id == 'log' else 'exp', self.tr(node.args[0]))
            return super().tr(node)

    out = {}
    seen = set()

    def walk(stmts, inloop):
        for st in stmts:
            if isinstance(st, ast.Assign) and len(st.targets) == 1:
                tg = ast.unparse(st.targets[0])
                if tg == 'U':
                    if ast.unparse(st.value) != 'np.arange(float(n)) / sigma':
                        fail(st, 'U')
                    env['U'] = ('div', ('rv', 'i'), ('rv', 'sigma'))
                elif tg == 'U2':
                    env['U2'] = T(env, {}).tr(st.value)
                elif tg == 'Mc[:, 0]':
                    out['basex_Mc0'] = (['sigma', 'i'], T(env, {}).tr(st.value))
                elif tg == 'k2' and inloop:
                    env['k2'] = T(env, {}).tr(st.value)
                elif tg == 'ek' and inloop:
                    env['ek'] = T(env, {}).tr(st.value)
                elif tg == 'Mc[0, k]' and inloop:
                    if const_value(st.value) != 0:
                        fail(st, 'Mc[0, k] must be 0')
                    seen.add('Mc0k')
                elif tg == 'Mc[1:, k]' and inloop:
                    out['basex_Mck'] = (['k', 'sigma', 'i'], T(env, {}).tr(st.value))
                elif tg == 'Mc':
                    if ast.unparse(st.value) != 'np.empty((n, nbf))':
                        fail(st, 'Mc allocation')
                elif tg.startswith('Mc'):
                    fail(st, 'assignment to Mc')
            elif isinstance(st, ast.For) and ast.unparse(st.target) == 'k' and ast.unparse(st.iter) == 'range(1, nbf)':
                env['k'] = ('rv', 'k')
                walk(st.body, True)
            elif isinstance(st, (ast.For, ast.If, ast.While, ast.With, ast.Try)):
                for sub in ast.walk(st):
                    if isinstance(sub, (ast.Assign, ast.AugAssign)):
                        t = sub.targets[0] if isinstance(sub, ast.Assign) else sub.target
                        if ast.unparse(t).startswith('Mc') and not (isinstance(st, ast.For) and inloop is False and False):
                            if not (isinstance(st, ast.For) and ast.unparse(st.target) == 'k'):
                                fail(sub, 'assignment to Mc in an unsupported place')
            elif isinstance(st, ast.AugAssign) and ast.unparse(st.target).startswith('Mc'):
                fail(st, 'in-place change of Mc')
    walk(strip_doc(fd.body), False)
    if set(out) != {'basex_Mc0', 'basex_Mck'} or 'Mc0k' not in seen:
        raise Unsupported('basex: Mc statements not found')
    return out

# ---------------------------------------------------------------------------
# generation
# ---------------------------------------------------------------------------
HEADER = '''(* GENERATED by tools/translate/formulas_basis.py from %s -- do not edit.
   Closed forms evaluated by abel/dasch.py, abel/daun.py, abel/rbasex.py. *)
From Coq Require Import Reals ZArith Bool.
Open Scope R_scope.
'''


def subst(e, m):
    """substitute real variables"""
    t = e[0]
    if t == 'rv':
        return m.get(e[1], e)
    if t in ('q', 'pi', 'izr', 'val'):
        return e
    if t in ('add', 'sub', 'mul', 'div'):
        return (t, subst(e[1], m), subst(e[2], m))
    if t == 'neg':
        return (t, subst(e[1], m))
    if t == 'pow':
        return (t, subst(e[1], m), e[2])
    if t == 'fn':
        return (t, e[1], subst(e[2], m))
    if t == 'call':
        return (t, e[1], [subst(a, m) for a in e[2]])
    if t == 'ite':
        return (t, e[1], subst(e[2], m), subst(e[3], m))
    raise Unsupported('subst')


def build():
    """Translate; returns dict(defs = [(name, kind, params, ir)], info = {...})."""
    defs = []
    info = {}
    src = {}
    for mod in ('dasch', 'daun', 'rbasex', 'basex'):
        p = os.path.join(vlib.REPO, 'abel', mod + '.py')
        src[mod] = ast.parse(open(p).read(), p)
    # dasch
    for fname, prefix in (('_bs_two_point', 'two_point'), ('_bs_three_point', 'three_point'),
                          ('_bs_onion_peeling', 'onion')):
        a = DaschAsm(find_function(src['dasch'], fname), prefix).run()
        for cname, params, ir in a.defs:
            defs.append((cname, 'R', params, ir))
        kind, name = a.result
        if kind == 'inv':
            mat = a.inv_of
            defs.append(('%s_%s' % (prefix, mat), 'Z', ['cols', 'i', 'j'], a.entry(mat)))
            info[prefix] = dict(result='inv', matrix='%s_%s' % (prefix, mat))
        else:
            defs.append(('%s_%s' % (prefix, name), 'Z', ['cols', 'i', 'j'], a.entry(name)))
            info[prefix] = dict(result='direct', matrix='%s_%s' % (prefix, name))
    # daun
    for name, ir in sorted(translate_daun(src['daun']).items()):
        defs.append((name, 'Z', ['j', 'i'], ir))
    # rbasex
    F, env, stencil = translate_rbasex(src['rbasex'])
    loc = {}
    for nm in ('z', 'f', 'rln'):
        if nm not in env:
            raise Unsupported('rbasex: %s not defined' % nm)
    # expand the local names z, f, rln (they depend on r, rho only)
    order_names = ['z', 'f', 'rln']
    for k in sorted(F):
        defs.append(('rbasex_F%s' % ('m1' if k == -1 else k), 'R', ['r', 'rho'], F[k]))
    info['rbasex_orders'] = sorted(F)
    for k in sorted(F):
        if k - 1 in F:
            Fn = 'rbasex_F%s' % k
            Fm = 'rbasex_F%s' % ('m1' if k - 1 == -1 else k - 1)
            # rFRF(Rc) with rho = max(r, Rc): the code takes rho = R except for the element R = r-1
            # (rho[0] = r); rendered with the guard on reals through two definitions
            for tag, rho in (('ge', ('rv', 'Rc')), ('lt', ('rv', 'r'))):
                defs.append(('rbasex_rFRF%d_%s' % (k, tag), 'R', ['r', 'Rc'],
                             ('sub', ('mul', ('rv', 'r'), ('call', Fm, [('rv', 'r'), rho])),
                              ('mul', ('rv', 'Rc'), ('call', Fn, [('rv', 'r'), rho])))))
    info['rbasex_stencil'] = stencil
    defs.append(('rbasex_stencil', 'R', ['__c', '__u', '__l'], stencil))
    ZR, ZRC = ('zv', 'r'), ('zv', 'Rc')
    pn = []
    for k in sorted(F):
        if k - 1 in F and k >= 0:
            ge, lt = 'rbasex_rFRF%d_ge' % k, 'rbasex_rFRF%d_lt' % k
            r_ = ('izr', ZR)
            c = ('call', ge, [r_, ('izr', ZRC)])
            u = ('call', ge, [r_, ('izr', zshift(ZRC, 1))])
            lo = ('ite', ('le', ZR, zshift(ZRC, -1)), ('call', ge, [r_, ('izr', zshift(ZRC, -1))]),
                  ('call', lt, [r_, ('izr', zshift(ZRC, -1))]))
            defs.append(('rbasex_p%d' % k, 'Z', ['Rc', 'r'], ('call', 'rbasex_stencil', [c, u, lo])))
            pn.append(k)
    info['rbasex_p'] = pn
    # basex rho_k
    for name, (params, ir) in sorted(translate_basex_rho(src['basex']).items()):
        defs.append((name, 'R', params, ir))
    return defs, info


def render(defs, info):
    out = [HEADER % 'abel/{dasch,daun,rbasex,basex}.py', 'Create HintDb c09defs.\n']
    for name, kind, params, ir in defs:
        ty = 'R' if kind == 'R' else 'Z'
        out.append('Definition %s (%s : %s) : R :=\n  %s.\n#[global] Hint Unfold %s : c09defs.\n'
                   % (name, ' '.join(params), ty, rrender(ir), name))
    return '\n'.join(out)


def generate():
    defs, info = build()
    text = render(defs, info)
    vlib.write_if_changed(os.path.join(vlib.COQ, 'gen', 'FormulasBasis.v'), text)
    return defs, info


if __name__ == '__main__':
    d, i = generate()
    print('generated', len(d), 'definitions')
