# matrix_expr.py — translator (a-iii): the numpy linear-algebra expressions of
# abel/basex.py, abel/daun.py, abel/rbasex.py, abel/dasch.py are executed
# symbolically (tools/translate/_symexec.py, Python `ast`, fail closed) on the
# option sets of properties C03 / C04 / C17 and the mathcomp terms they evaluate
# are written to coq/gen/MatrixExpr.v.  The theorems of coq/proofs/MxAlgebra.v
# are about these generated definitions, hence about the expressions the code
# evaluates *now*.
#
# What is abstracted (all recorded in the header of the generated file):
#   * cache state: every run starts from empty module caches, no basis file
#     (`_load_bs` returns None, `_save_bs` does nothing) — cache behaviour is
#     property C07, not this one;
#   * the basis generators (`_bs_daun`, `_bs_rbasex`, `_bs_basex` output M, Mc)
#     return an arbitrary square matrix / list of matrices (the parameters
#     `B`, `P`, `M`, `Mc` of the generated definitions): the entries are
#     property C09;
#   * scipy.optimize.nnls is a parameter `nnls` (specified in
#     coq/model/LinOps.v);
#   * valid=None (no masked radii) for rbasex.
import ast
import os

import vlib
from translate._symexec import (Interp, Unsupported, PyRaise, Dim, Mx, Sc, SymList)

OUT = os.path.join(vlib.COQ, 'gen', 'MatrixExpr.v')


def repo(rel):
    return os.path.join(vlib.REPO, rel)


class Emitter:
    def __init__(self):
        self.defs = []          # (name, text)
        self.names = set()
        self.index = {}         # name -> dict(binders=[...], assumed=[...])

    def add(self, name, it, res, comment):
        if name in self.names:
            raise Unsupported('duplicate definition ' + name)
        if not isinstance(res, Mx):
            raise Unsupported('%s: result is not a matrix: %r' % (name, res))
        import re
        used = [(b, t) for (b, t) in it.binders if re.search(r'(?<![A-Za-z0-9_\'])%s(?![A-Za-z0-9_\'])' % re.escape(b), res.coq)]
        order = ['M', 'Mc', 'B', 'P', 'W', 'D', 'A', 'cor', 'LTL', 'GTG', 'nnls', 'reg', 's', 'dr', 'X', 'x', 'p']
        used.sort(key=lambda bt: (order.index(bt[0]) if bt[0] in order else len(order), bt[0]))
        bs = ' '.join('(%s : %s)' % bt for bt in used)
        tr = '; '.join('l.%d %s -> %s' % (ln, s if len(s) < 70 else s[:67] + '...', 'T' if v else 'F')
                       for (ln, s, v) in it.trace)
        asm = ('; path assumptions: ' + ', '.join(sorted(set(it.assumed)))) if it.assumed else ''
        txt = '(* %s%s\n   branches: %s *)\nDefinition %s %s :=\n  %s.\n' % (
            comment, asm, tr.replace('(*', '( *').replace('*)', '* )'), name, bs, res.coq)
        self.defs.append((name, txt))
        self.names.add(name)
        self.index[name] = dict(binders=[b for b, _ in used], assumed=sorted(set(it.assumed)), term=res.coq, ev=res.ev)


# --------------------------------------------------------------------------
# basex
# --------------------------------------------------------------------------

def gen_basex(em):
    path = repo('abel/basex.py')
    n, nbf, h = Dim('n'), Dim('nbf'), Dim('h')
    for direction in ('forward', 'inverse'):
        it = Interp(path)
        M, Mc = it.sym_mx('M', n, n), it.sym_mx('Mc', n, n)
        res = it.call_function('_get_A', [M, Mc, 0.0, direction])
        em.add('basex_A_%s_exact' % direction, it, res,
               'abel/basex.py _get_A(M, Mc, reg=0.0, direction=%r), M square (nbf == n)' % direction)
        it = Interp(path)
        M, Mc = it.sym_mx('M', n, nbf), it.sym_mx('Mc', n, nbf)
        reg = it.sym_sc('reg', nonzero=True)
        res = it.call_function('_get_A', [M, Mc, reg, direction])
        em.add('basex_A_%s_reg' % direction, it, res,
               'abel/basex.py _get_A(M, Mc, reg, direction=%r), general branch' % direction)
    it = Interp(path)
    X, A = it.sym_mx('X', h, n), it.sym_mx('A', n, n)
    em.add('basex_core', it, it.call_function('basex_core_transform', [X, A]),
           'abel/basex.py basex_core_transform(rawdata, A)')
    # tail of get_bs_cached: A = _get_A(*_bs, ...); correction; dr scaling
    def correction_stub(it, e, args, kwargs):
        A = args[0]
        if not (isinstance(A, Mx) and not A.vec):
            raise Unsupported('get_basex_correction: unexpected first argument')
        return it.sym_mx('cor', 1, A.c, vec=True)       # depends on (A, sigma, direction) only: data independent

    for direction, corr in [(d, c) for d in ('forward', 'inverse') for c in (False, True)]:
        for drname in ('dr1', 'dr'):
            it = Interp(path, stubs={'local.get_basex_correction': correction_stub})
            M, Mc = it.sym_mx('M', n, n), it.sym_mx('Mc', n, n)
            f = it.funcs['get_bs_cached']
            # the transform-matrix chain: the last statement before `return A`, together with the plain
            # assignments that immediately precede it (e.g. a local holding the cache parameters)
            body = f.body
            if not (isinstance(body[-1], ast.Return) and ast.unparse(body[-1]) == 'return A' and isinstance(body[-2], ast.If)):
                raise Unsupported('basex.get_bs_cached does not end with an if-chain followed by `return A`')
            ifn = body[-2]
            pre = []
            k = len(body) - 3
            while k >= 0 and isinstance(body[k], ast.Assign) and not any(isinstance(x, ast.Call) for x in ast.walk(body[k])):
                pre.insert(0, body[k])
                k -= 1
            gl = set()
            for node in ast.walk(f):
                if isinstance(node, ast.Global):
                    gl.update(node.names)
            for g in gl:
                it.globals[g] = None
            it.globals['_bs'] = [M, Mc]
            dr = 1.0 if drname == 'dr1' else it.sym_sc('dr', notone=True)
            fr = dict(env=dict(reg=0.0, correction=corr, dr=dr, direction=direction, verbose=False, n=n, sigma=1.0),
                      globals_decl=gl, closure=None)
            for st in pre:
                it.stmt(st, fr)
            it.stmt(ifn, fr)
            em.add('basex_matrix_%s_%s%s' % (direction, 'corr_' if corr else '', drname), it, fr['env']['A'],
                   'abel/basex.py get_bs_cached(..., reg=0.0, correction=%r, dr=%s, direction=%r): '
                   'the recalculation branch (fresh caches)%s' % (corr, '1.0' if drname == 'dr1' else 'dr', direction,
                   '; cor = get_basex_correction(A, sigma, direction)' if corr else ''))


# --------------------------------------------------------------------------
# daun
# --------------------------------------------------------------------------

DAUN_REGS = [('none', None), ('int0', 0), ('float0', 0.0), ('diff0', ('diff', 0)), ('L20', ('L2', 0)),
             ('L2c0', ('L2c', 0)), ('diff', ('diff', 's')), ('L2', ('L2', 's')), ('L2c', ('L2c', 's')),
             ('num', 's'), ('nonneg', 'nonneg')]


def daun_interp(path):
    n = Dim('n')

    def bs_daun(it, e, args, kwargs):
        return it.sym_mx('B', n, n)

    def load_bs(it, e, args, kwargs):
        return None

    def save_bs(it, e, args, kwargs):
        return None

    def toeplitz(it, e, args, kwargs):
        return it.opaque('LTL', n, n)

    def nnls(it, e, args, kwargs):
        A, b = args
        if kwargs or not (isinstance(A, Mx) and isinstance(b, Mx) and b.vec and not A.vec and A.r == A.c == b.c):
            raise Unsupported('nnls call shape')
        it.bind('nnls', "'M[F]_(%s) -> 'rV[F]_(%s) -> 'rV[F]_(%s)" % (A.r.coq(), A.r.coq(), A.r.coq()))
        return (Mx('nnls %s %s' % (A.p(), b.p()), 1, A.c, vec=True,
                   ev=lambda env: env['nnls'](A.ev(env), b.ev(env))), None)

    it = Interp(path, stubs={'local._bs_daun': bs_daun, 'local._load_bs': load_bs, 'local._save_bs': save_bs,
                             'scipy.linalg.toeplitz': toeplitz, 'scipy.optimize.nnls': nnls},
                lazy={'scipy.linalg.toeplitz'})
    for g in ('_bs', '_bs_prm', '_tr', '_tr_prm'):
        it.globals[g] = None
    return it


def gen_daun(em):
    path = repo('abel/daun.py')
    n, h = Dim('n'), Dim('h')
    for direction in ('forward', 'inverse'):
        for degree in (0, 1, 2, 3):
            for rname, reg in DAUN_REGS:
                if direction == 'forward' and rname not in ('none', 'diff'):
                    continue
                for drname in ('dr1', 'dr'):
                    it = daun_interp(path)
                    X = it.sym_mx('X', h, n)
                    if reg == 's':
                        r = it.sym_sc('s', nonzero=True)
                    elif isinstance(reg, tuple) and reg[1] == 's':
                        r = (reg[0], it.sym_sc('s', nonzero=True))
                    else:
                        r = reg
                    dr = 1.0 if drname == 'dr1' else it.sym_sc('dr', notone=True)
                    res = it.call_function('daun_transform', [X], dict(
                        reg=r, degree=degree, dr=dr, direction=direction, basis_dir=None, verbose=False))
                    em.add('daun_%s_deg%d_%s_%s' % (direction, degree, rname, drname), it, res,
                           'abel/daun.py daun_transform(X, reg=%r, degree=%d, dr=%s, direction=%r), 2-D data, fresh caches'
                           % (reg, degree, '1.0' if drname == 'dr1' else 'dr', direction))
    # single-row inputs: a one-row 2-D image and a 1-D profile
    for direction in ('forward', 'inverse'):
        for degree in (0, 3):
            for shape in ('onerow', '1d'):
                it = daun_interp(path)
                x = it.sym_mx('x', 1, n, vec=(shape == '1d'))
                dr = it.sym_sc('dr', notone=True)
                res = it.call_function('daun_transform', [x], dict(reg=None, degree=degree, dr=dr, direction=direction,
                                                                   basis_dir=None, verbose=False))
                if shape == '1d' and not res.vec:
                    raise Unsupported('daun_transform: a 1-D input does not give a 1-D output')
                em.add('daun_%s_deg%d_none_%s_dr' % (direction, degree, shape), it, res,
                       'abel/daun.py daun_transform(x, reg=None, degree=%d, dr=dr, direction=%r), x = %s'
                       % (degree, direction, 'one-row 2-D array' if shape == 'onerow' else '1-D array'))
    # the matrix returned by get_bs_cached for a Tikhonov regularisation
    for rname in ('diff', 'L2', 'L2c'):
        it = daun_interp(path)
        s = it.sym_sc('s', nonzero=True)
        res = it.call_function('get_bs_cached', [n], dict(degree=0, reg_type=rname, strength=s,
                                                          direction='inverse', basis_dir=None, verbose=False))
        em.add('daun_tikhonov_%s' % rname, it, res,
               'abel/daun.py get_bs_cached(n, 0, %r, s, "inverse"): regularised inverse matrix' % rname)


# --------------------------------------------------------------------------
# rbasex
# --------------------------------------------------------------------------

def rbasex_interp(path):
    N = Dim('Rmax', 1)

    def load_bs(it, e, args, kwargs):
        return (None, None)

    def bs_rbasex(it, e, args, kwargs):
        return SymList(it.sym_mx('P', N, N))

    def save_bs(it, e, args, kwargs):
        return None

    it = Interp(path, stubs={'local._load_bs': load_bs, 'local._bs_rbasex': bs_rbasex, 'local._save_bs': save_bs})
    for g in ('_bs_prm', '_bs', '_trf', '_tri_full', '_tri_prm', '_tri'):
        it.globals[g] = None
    return it


def gen_rbasex(em):
    path = repo('abel/rbasex.py')
    Rmax = Dim('Rmax')
    N = Dim('Rmax', 1)
    regs = [('none', None), ('L2', ('L2', 's')), ('diff', ('diff', 's'))]
    for direction in ('forward', 'inverse'):
        for rname, reg in regs:
            if direction == 'forward' and rname != 'none':
                continue
            it = rbasex_interp(path)
            r = reg if reg is None else (reg[0], it.sym_sc('s'))
            A = it.call_function('get_bs_cached', [Rmax, 2, False, direction, r, None, None, False])
            if not isinstance(A, SymList) or not isinstance(A.elem, Mx):
                raise Unsupported('rbasex.get_bs_cached did not return a list of matrices')
            em.add('rbasex_matrix_%s_%s' % (direction, rname), it, A.elem,
                   'abel/rbasex.py get_bs_cached(Rmax, order, odd, %r, reg=%r, valid=None): matrix of one angular order '
                   '(P = basis of that order), fresh caches' % (direction, reg))
            # its application to the radial profile of that order (rbasex_transform)
            ifn = it.find_if('rbasex_transform', "reg == 'pos'")
            asgs = [x for x in ifn.orelse if isinstance(x, ast.Assign) and ast.unparse(x.targets[0]) == 'c']
            if len(asgs) != 1 or not isinstance(asgs[0].value, ast.ListComp):
                raise Unsupported("rbasex_transform: expected `c = [...]` in the else-branch of `if reg == 'pos'`")
            asg = asgs[0]
            p = SymList(it.sym_mx('p', 1, N, vec=True))
            fr = dict(env=dict(A=A, p=p), globals_decl=set(), closure=None)
            it.stmt(asg, fr)
            c = fr['env']['c']
            em.add('rbasex_apply_%s_%s' % (direction, rname), it, c.elem,
                   'abel/rbasex.py rbasex_transform: c = [An.dot(pn) ...] with A from get_bs_cached(%r, reg=%r); '
                   'p = radial profile of one order (row vector)' % (direction, reg))


# --------------------------------------------------------------------------
# dasch
# --------------------------------------------------------------------------

def gen_dasch(em):
    path = repo('abel/dasch.py')
    n, h = Dim('n'), Dim('h')
    # D = inv(W) of _bs_onion_peeling
    it0 = Interp(path)
    f = it0.funcs['_bs_onion_peeling']
    asg = it0.find_assign('_bs_onion_peeling', 'D')
    if not (isinstance(f.body[-1], ast.Return) and ast.unparse(f.body[-1]) == 'return D' and f.body[-2] is asg):
        raise Unsupported('_bs_onion_peeling does not end with D = ...; return D')
    for method in ('onion_peeling', 'two_point', 'three_point'):
        def get_bs(it, e, args, kwargs, method=method):
            if args[0] != method:
                raise Unsupported('dasch get_bs_cached called with method %r' % (args[0],))
            if method == 'onion_peeling':
                W = it.sym_mx('W', n, n)
                fr = dict(env=dict(W=W), globals_decl=set(), closure=None)
                return it.eval(asg.value, fr)
            return it.sym_mx('D', n, n)
        for drname in ('dr1', 'dr'):
            it = Interp(path, stubs={'local.get_bs_cached': get_bs})
            X = it.sym_mx('X', h, n)
            dr = 1 if drname == 'dr1' else it.sym_sc('dr')
            res = it.call_function('_dasch_transform', [X], dict(basis_dir=None, dr=dr, direction='inverse',
                                                                 method=method, verbose=False))
            em.add('dasch_%s_%s' % (method, drname), it, res,
                   'abel/dasch.py _dasch_transform(X, dr=%s, direction="inverse", method=%r); %s'
                   % (drname, method, 'W = weight matrix of _bs_onion_peeling, D = inv(W)' if method == 'onion_peeling'
                      else 'D = deconvolution operator'))
    for method in ('onion_peeling', 'two_point', 'three_point'):
        def get_bs1(it, e, args, kwargs, method=method):
            if args[0] != method:
                raise Unsupported('dasch get_bs_cached called with method %r' % (args[0],))
            if method == 'onion_peeling':
                W = it.sym_mx('W', n, n)
                return it.eval(asg.value, dict(env=dict(W=W), globals_decl=set(), closure=None))
            return it.sym_mx('D', n, n)
        for shape in ('onerow', '1d'):
            it = Interp(path, stubs={'local.get_bs_cached': get_bs1})
            x = it.sym_mx('x', 1, n, vec=(shape == '1d'))
            dr = it.sym_sc('dr')
            res = it.call_function('_dasch_transform', [x], dict(basis_dir=None, dr=dr, direction='inverse', method=method, verbose=False))
            em.add('dasch_%s_%s_dr' % (method, shape), it, res,
                   'abel/dasch.py _dasch_transform(x, dr=dr, method=%r), x = %s' % (method, 'one-row 2-D array' if shape == 'onerow' else '1-D array'))
    # the public wrappers pass their arguments unchanged
    for w, method in (('two_point_transform', 'two_point'), ('three_point_transform', 'three_point'),
                      ('onion_peeling_transform', 'onion_peeling')):
        seen = {}

        def inner(it, e, args, kwargs):
            seen['args'] = (args, kwargs)
            return args[0]
        it = Interp(path, stubs={'local._dasch_transform': inner})
        X = it.sym_mx('X', h, n)
        dr = it.sym_sc('dr')
        it.call_function(w, [X], dict(basis_dir='BD', dr=dr, direction='DIR', verbose='VB'))
        args, kwargs = seen.get('args', (None, None))
        full = dict(zip(['IM', 'basis_dir', 'dr', 'direction', 'method', 'verbose'], args or []))
        full.update(kwargs or {})
        if not (full.get('IM') is X and full.get('basis_dir') == 'BD' and full.get('dr') is dr
                and full.get('direction') == 'DIR' and full.get('method') == method and full.get('verbose') == 'VB'):
            raise Unsupported('%s does not pass its arguments unchanged to _dasch_transform(method=%r)' % (w, method))


HEADER = '''(* GENERATED by tools/translate/matrix_expr.py from the sources of %(repo)s
   (abel/basex.py, abel/daun.py, abel/rbasex.py, abel/dasch.py) -- do not edit.
   Each definition is the mathcomp term evaluated by the named call on the
   stated option set (symbolic execution of the Python ast; fresh caches; the
   basis matrices B / P / M, Mc / W, opaque Tikhonov matrices and the NNLS
   solver are parameters).  numpy operations: coq/base/MxNp.v. *)
From mathcomp Require Import all_ssreflect all_algebra.
From PA Require Import base.MxNp.
Set Implicit Arguments.
Unset Strict Implicit.
Unset Printing Implicit Defensive.
Import GRing.Theory.
Local Open Scope ring_scope.

Section MatrixExpr.
Variable F : fieldType.
Variables (n nbf h Rmax : nat).

'''


def build():
    em = Emitter()
    gen_basex(em)
    gen_daun(em)
    gen_rbasex(em)
    gen_dasch(em)
    text = HEADER % dict(repo='/repo') + '\n'.join(t for _, t in em.defs) + '\nEnd MatrixExpr.\n'
    return em, text


def generate():
    em, text = build()
    vlib.write_if_changed(OUT, text)
    return em


if __name__ == '__main__':
    em = generate()
    print(len(em.defs), 'definitions written to', OUT)
