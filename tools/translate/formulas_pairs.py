# formulas_pairs.py — fail-closed translator (Python `ast` -> Coq real
# expressions) for the closed forms of
#     abel/tools/transform_pairs.py   profile1 .. profile7  (source, projection)
#     abel/tools/analytical.py        StepAnalytical (func mask, abel_step_analytical),
#                                     GaussianAnalytical (func, abel)
# Output: coq/gen/FormulasPairs.v (regenerated on every run).
#
# Supported subset (anything else raises Unsupported and the check reports the
# tie as broken):
#   expressions  int/float constants (floats are taken as the decimal written in
#                the source), names, + - * /, ** with a non-negative integer
#                constant, unary -, np.sqrt/np.log/np.exp/np.abs, np.pi,
#                np.ones_like(x) (= 1), a(n, x) of transform_pairs, calls of
#                local one-expression functions (inlined)
#   statements   docstrings; `x = expr`; masks `rl = r[r <= c]` / `rr = r[r > c]`
#                (the selected values carry the guard); `np.concatenate((l, r))`
#                of a `<= c` part and a `> c` part (becomes `if Rle_dec r c`);
#                zero array + masked assignments `F[mask] = expr` (become nested
#                ifs, later assignments win); the argument checks
#                `if np.any(..) or np.any(..): raise ValueError` (recorded as the
#                domain); `if not hasattr(r, '__len__'): r = np.asarray([r])`
import ast
import os
from fractions import Fraction

import vlib

TP = 'abel/tools/transform_pairs.py'
AN = 'abel/tools/analytical.py'


class Unsupported(Exception):
    pass


def fail(node, why):
    raise Unsupported('%s at line %s: %s' % (why, getattr(node, 'lineno', '?'),
                                             ast.dump(node)[:200] if isinstance(node, ast.AST) else node))


def num(v):
    if isinstance(v, bool):
        raise Unsupported('bool constant')
    if isinstance(v, int):
        return '%d' % v if v >= 0 else '(%d)' % v
    if isinstance(v, float):
        f = Fraction(repr(v))          # the decimal as written
        if f.denominator == 1:
            return num(int(f.numerator))
        return '(%d / %d)' % (f.numerator, f.denominator)
    raise Unsupported('constant %r' % (v,))


def is_np(node, name):
    return (isinstance(node, ast.Attribute) and isinstance(node.value, ast.Name)
            and node.value.id == 'np' and node.attr == name)


GLOBAL_FUNCS = {}


class Env:
    """names -> Coq expression; `guards` maps a name to the guard (op, const)
    under which its values exist (mask selections)."""

    def __init__(self, names, funcs=None):
        self.e = dict(names)
        self.g = {}
        self.funcs = dict(GLOBAL_FUNCS)      # module-level functions of the source (a)
        self.funcs.update(funcs or {})       # local python functions: name -> FunctionDef

    def copy(self):
        n = Env(self.e, self.funcs)
        n.g = dict(self.g)
        return n


def tr(node, env, used=None):
    """Translate an expression; `used` collects the guards of the names used."""
    if used is None:
        used = set()
    if isinstance(node, ast.Constant):
        return num(node.value)
    if isinstance(node, ast.Name):
        if node.id not in env.e:
            fail(node, 'unknown name')
        if node.id in env.g:
            used.add(env.g[node.id])
        return env.e[node.id]
    if isinstance(node, ast.Attribute):
        if is_np(node, 'pi'):
            return 'PI'
        fail(node, 'attribute')
    if isinstance(node, ast.UnaryOp):
        if isinstance(node.op, ast.USub):
            return '(- %s)' % tr(node.operand, env, used)
        if isinstance(node.op, ast.UAdd):
            return tr(node.operand, env, used)
        fail(node, 'unary operator')
    if isinstance(node, ast.BinOp):
        if isinstance(node.op, ast.Pow):
            if not (isinstance(node.right, ast.Constant) and isinstance(node.right.value, int)
                    and not isinstance(node.right.value, bool) and node.right.value >= 0):
                fail(node, 'power with a non-constant or negative exponent')
            return '(%s ^ %d)' % (tr(node.left, env, used), node.right.value)
        ops = {ast.Add: '+', ast.Sub: '-', ast.Mult: '*', ast.Div: '/'}
        if type(node.op) not in ops:
            fail(node, 'binary operator')
        return '(%s %s %s)' % (tr(node.left, env, used), ops[type(node.op)], tr(node.right, env, used))
    if isinstance(node, ast.Call):
        if node.keywords:
            fail(node, 'keyword arguments')
        f = node.func
        for pyname, coq in (('sqrt', 'sqrt'), ('log', 'ln'), ('exp', 'exp'), ('abs', 'Rabs')):
            if is_np(f, pyname):
                if len(node.args) != 1:
                    fail(node, 'arity')
                return '(%s %s)' % (coq, tr(node.args[0], env, used))
        if is_np(f, 'ones_like'):
            if len(node.args) != 1:
                fail(node, 'arity')
            tr(node.args[0], env, used)
            return '1'
        if isinstance(f, ast.Name) and f.id in env.funcs:
            fd = env.funcs[f.id]
            params = [a.arg for a in fd.args.args]
            if len(params) != len(node.args) or fd.args.defaults or fd.args.vararg or fd.args.kwarg:
                fail(node, 'call signature')
            sub = Env({}, env.funcs)
            for p, a in zip(params, node.args):
                g = set()
                sub.e[p] = tr(a, env, g)
                used |= g
            return tr_function_body(fd, sub)
        fail(node, 'call')
    fail(node, 'expression')


def strip_doc(body):
    if body and isinstance(body[0], ast.Expr) and isinstance(body[0].value, ast.Constant) \
            and isinstance(body[0].value.value, str):
        return body[1:]
    return body


def tr_function_body(fd, env):
    """A local function: docstring, assignments, one return expression."""
    body = strip_doc(fd.body)
    for st in body[:-1]:
        if isinstance(st, ast.Assign) and len(st.targets) == 1 and isinstance(st.targets[0], ast.Name):
            env.e[st.targets[0].id] = tr(st.value, env)
        else:
            fail(st, 'statement in a local function')
    if not (body and isinstance(body[-1], ast.Return) and body[-1].value is not None):
        fail(fd, 'local function without a final return')
    return tr(body[-1].value, env)


def cmp_guard(node, var):
    """`var <= c` / `var > c` / `var < c` / `var >= c` with a constant -> (op, c)."""
    if not (isinstance(node, ast.Compare) and len(node.ops) == 1 and isinstance(node.left, ast.Name)
            and node.left.id == var and isinstance(node.comparators[0], ast.Constant)):
        fail(node, 'mask comparison')
    ops = {ast.LtE: '<=', ast.Gt: '>', ast.Lt: '<', ast.GtE: '>='}
    if type(node.ops[0]) not in ops:
        fail(node, 'mask comparison operator')
    return ops[type(node.ops[0])], num(node.comparators[0].value)


HASATTR = "If(test=UnaryOp(op=Not(), operand=Call(func=Name(id='hasattr', ctx=Load()), args=[Name(id='r', ctx=Load()), " \
          "Constant(value='__len__')], keywords=[])), body=[Assign(targets=[Name(id='r', ctx=Store())], " \
          "value=Call(func=Attribute(value=Name(id='np', ctx=Load()), attr='asarray', ctx=Load()), " \
          "args=[List(elts=[Name(id='r', ctx=Load())], ctx=Load())], keywords=[]))], orelse=[])"


def domain_check(st):
    """if np.any(r <op> c) or np.any(r <op> c): raise ValueError(...) -> list of excluded (op, c)."""
    if not (isinstance(st, ast.If) and not st.orelse and len(st.body) == 1 and isinstance(st.body[0], ast.Raise)
            and isinstance(st.test, ast.BoolOp) and isinstance(st.test.op, ast.Or)):
        return None
    out = []
    for v in st.test.values:
        if not (isinstance(v, ast.Call) and is_np(v.func, 'any') and len(v.args) == 1):
            return None
        out.append(cmp_guard(v.args[0], 'r'))
    return out


def translate_profile(fd):
    """-> dict(domain, pieces) ; pieces: either {'all': (src, proj)} or
    {'brk': c, 'l': (src, proj), 'r': (src, proj)}"""
    if [a.arg for a in fd.args.args] != ['r']:
        fail(fd, 'profile signature')
    env = Env({'r': 'r'})
    body = strip_doc(fd.body)
    domain = None
    conc = {}          # name -> (left name, right name)
    ret = None
    for st in body:
        if isinstance(st, ast.FunctionDef):
            env.funcs[st.name] = st
            continue
        d = domain_check(st)
        if d is not None:
            domain = d
            continue
        if isinstance(st, ast.If):
            if ast.dump(st) == HASATTR:
                continue
            fail(st, 'if statement')
        if isinstance(st, ast.Return):
            if not (isinstance(st.value, ast.Tuple) and len(st.value.elts) == 2
                    and all(isinstance(e, ast.Name) for e in st.value.elts)):
                fail(st, 'return')
            ret = (st.value.elts[0].id, st.value.elts[1].id)
            continue
        if not (isinstance(st, ast.Assign) and len(st.targets) == 1 and isinstance(st.targets[0], ast.Name)):
            fail(st, 'statement')
        name = st.targets[0].id
        v = st.value
        # mask selection  rl = r[r <= c]
        if isinstance(v, ast.Subscript) and isinstance(v.value, ast.Name) and v.value.id == 'r':
            g = cmp_guard(v.slice, 'r')
            if g[0] not in ('<=', '>'):
                fail(st, 'mask must be `<=` or `>`')
            env.e[name] = 'r'
            env.g[name] = g
            continue
        # concatenation of the two parts
        if isinstance(v, ast.Call) and is_np(v.func, 'concatenate'):
            if not (len(v.args) == 1 and isinstance(v.args[0], ast.Tuple) and len(v.args[0].elts) == 2
                    and all(isinstance(e, ast.Name) for e in v.args[0].elts)):
                fail(st, 'concatenate')
            conc[name] = (v.args[0].elts[0].id, v.args[0].elts[1].id)
            continue
        used = set()
        env.e[name] = tr(v, env, used)
        if len(used) > 1:
            fail(st, 'expression mixes values selected by different masks')
        if used:
            env.g[name] = next(iter(used))
    if ret is None or domain is None:
        fail(fd, 'profile without return or without argument check')
    src, prj = ret
    if src in conc or prj in conc:
        if not (src in conc and prj in conc):
            fail(fd, 'only one of source/projection is piecewise')
        (sl, sr), (pl, pr) = conc[src], conc[prj]
        gl, gr = env.g.get(sl), env.g.get(sr)
        if not (gl and gr and gl[0] == '<=' and gr[0] == '>' and gl[1] == gr[1]
                and env.g.get(pl) == gl and env.g.get(pr) == gr):
            fail(fd, 'pieces are not a `<= c` part followed by the `> c` part')
        return dict(domain=domain, brk=gl[1], l=(env.e[sl], env.e[pl]), r=(env.e[sr], env.e[pr]))
    if src in env.g or prj in env.g:
        fail(fd, 'masked value returned without concatenation')
    return dict(domain=domain, all=(env.e[src], env.e[prj]))


def find_def(tree, name, cls=None):
    body = tree.body
    if cls:
        c = [n for n in body if isinstance(n, ast.ClassDef) and n.name == cls]
        if len(c) != 1:
            raise Unsupported('class %s not found' % cls)
        body = c[0].body
    f = [n for n in body if isinstance(n, ast.FunctionDef) and n.name == name]
    if len(f) != 1:
        raise Unsupported('function %s not found exactly once' % name)
    return f[0]


# ---- analytical.py ---------------------------------------------------------

def self_attr(node, name):
    return (isinstance(node, ast.Attribute) and isinstance(node.value, ast.Name) and node.value.id == 'self'
            and node.attr == name)


def translate_gaussian(tree):
    fd = find_def(tree, '__init__', 'GaussianAnalytical')
    env = Env({'A0': 'A0', 'sigma': 'sigma'})
    out = {}
    for st in strip_doc(fd.body):
        if isinstance(st, ast.Assign) and len(st.targets) == 1:
            t = st.targets[0]
            if isinstance(t, ast.Name) and t.id == 'r' and self_attr(st.value, 'r'):
                env.e['r'] = 'r'
            elif self_attr(t, 'func') or self_attr(t, 'abel'):
                if 'r' not in env.e:
                    fail(st, 'r not bound to self.r')
                out[t.attr] = tr(st.value, env)
    if set(out) != {'func', 'abel'}:
        raise Unsupported('GaussianAnalytical: func/abel assignments not found')
    return out


def mask_expr(node, env):
    """(r >= r0)*(r < r1)  |  r < r0  -> Coq Prop-decision as a list of (lhs, op, rhs)"""
    if isinstance(node, ast.BinOp) and isinstance(node.op, (ast.Mult, ast.BitAnd)):     # boolean arrays: * and & are "and"
        return mask_expr(node.left, env) + mask_expr(node.right, env)
    if isinstance(node, ast.Compare) and len(node.ops) == 1:
        ops = {ast.LtE: '<=', ast.Gt: '>', ast.Lt: '<', ast.GtE: '>='}
        if type(node.ops[0]) not in ops:
            fail(node, 'comparison')
        return [(tr(node.left, env), ops[type(node.ops[0])], tr(node.comparators[0], env))]
    fail(node, 'mask')


DEC = {'<': 'Rlt_dec %s %s', '<=': 'Rle_dec %s %s', '>': 'Rlt_dec %s %s', '>=': 'Rle_dec %s %s'}


def cond(c):
    lhs, op, rhs = c
    if op in ('>', '>='):
        lhs, rhs = rhs, lhs
    return DEC[op] % (lhs, rhs)


def ifs(conds, then, els):
    out = then
    for c in reversed(conds):
        out = '(if %s then %s else %s)' % (cond(c), out, els)
    return out


def translate_step(tree):
    # abel_step_analytical(self, r, A0, r0, r1)
    fd = find_def(tree, 'abel_step_analytical', 'StepAnalytical')
    if [a.arg for a in fd.args.args] != ['self', 'r', 'A0', 'r0', 'r1']:
        fail(fd, 'signature')
    env = Env({'r': 'r', 'A0': 'A0', 'r0': 'r0', 'r1': 'r1'})
    arr = None          # current expression of F_1d
    mask = None
    seen_ret = False
    for st in strip_doc(fd.body):
        if isinstance(st, ast.If):
            # if np.all(r[[0, -1]]): raise ...   (argument check of the array, not of the formula)
            if len(st.body) == 1 and isinstance(st.body[0], ast.Raise) and not st.orelse:
                continue
            if ast.unparse(st) == 'if A0.ndim == 1:\n    A0 = A0[:, np.newaxis]':     # shape only
                continue
            fail(st, 'if')
        if isinstance(st, ast.Assign) and len(st.targets) == 1:
            t = st.targets[0]
            v = st.value
            if isinstance(t, ast.Name) and t.id == 'F_1d':
                if not (isinstance(v, ast.Call) and is_np(v.func, 'zeros')):
                    fail(st, 'F_1d initialisation')
                arr = '0'
                continue
            if isinstance(t, ast.Name) and t.id == 'mask':
                mask = mask_expr(v, env)
                continue
            if isinstance(t, ast.Subscript) and isinstance(t.value, ast.Name) and t.value.id == 'F_1d' \
                    and isinstance(t.slice, ast.Name) and t.slice.id == 'mask':
                if arr is None or mask is None:
                    fail(st, 'masked assignment before initialisation')
                # r[mask] inside the value is r under the mask
                sub = env.copy()
                val = tr(ast.parse(ast.unparse(v).replace('r[mask]', 'r'), mode='eval').body, sub)
                arr = ifs(mask, val, arr)
                continue
            if ast.unparse(st) == 'A0 = np.atleast_1d(A0)':      # shape only
                continue
            fail(st, 'assignment')
        if isinstance(st, ast.Return):
            # return F_1d[np.newaxis, :]*A0
            v = st.value
            if not (isinstance(v, ast.BinOp) and isinstance(v.op, ast.Mult) and isinstance(v.right, ast.Name)
                    and v.right.id == 'A0' and isinstance(v.left, ast.Subscript)
                    and isinstance(v.left.value, ast.Name) and v.left.value.id == 'F_1d'):
                fail(st, 'return')
            seen_ret = True
            continue
        fail(st, 'statement')
    if not seen_ret or arr is None:
        raise Unsupported('abel_step_analytical: no return')
    abel = '(%s * A0)' % arr
    # func: mask = np.abs(np.abs(self.r) - 0.5*(r1 + r2)) < 0.5*(r2 - r1); fr[mask] = A0
    fd = find_def(tree, '__init__', 'StepAnalytical')
    env = Env({'r1': 'r1', 'r2': 'r2', 'A0': 'A0', 'ratio_valid_step': 'ratio'})
    fmask = vmask = None
    for st in strip_doc(fd.body):
        if isinstance(st, ast.Assign) and len(st.targets) == 1:
            t = st.targets[0]
            src = ast.unparse(st.value).replace('self.r', 'r')
            if isinstance(t, ast.Name) and t.id == 'mask':
                e = Env(dict(env.e, r='r'))
                fmask = mask_expr(ast.parse(src, mode='eval').body, e)
            if self_attr(t, 'mask_valid'):
                e = Env(dict(env.e, r='r'))
                vmask = mask_expr(ast.parse(src, mode='eval').body, e)
    if not fmask or not vmask:
        raise Unsupported('StepAnalytical.__init__: masks not found')
    return dict(abel=abel, func=ifs(fmask, 'A0', '0'), mask_valid=ifs(vmask, '1', '0'))


# ---- output ----------------------------------------------------------------

HEADER = '''(* generated by tools/translate/formulas_pairs.py from
   abel/tools/transform_pairs.py and abel/tools/analytical.py — do not edit *)
From Coq Require Import Reals.
Open Scope R_scope.

'''


def generate(repo=None):
    repo = repo or vlib.REPO
    tp = ast.parse(open(os.path.join(repo, TP)).read())
    an = ast.parse(open(os.path.join(repo, AN)).read())
    # a(n, r) = np.sqrt(n*n - r*r)
    afd = find_def(tp, 'a')
    if [x.arg for x in afd.args.args] != ['n', 'r']:
        fail(afd, 'a(n, r) signature')
    abody = tr_function_body(afd, Env({'n': 'n', 'r': 'r'}))
    GLOBAL_FUNCS.clear()
    GLOBAL_FUNCS['a'] = afd
    out = [HEADER, 'Definition tp_a (n r : R) : R := %s.\n' % abody]
    info = {}
    for k in range(1, 8):
        fd = find_def(tp, 'profile%d' % k)
        p = translate_profile(fd)
        info[k] = p
        dom = ' '.join('r %s %s excluded;' % d for d in p['domain'])
        out.append('(* profile%d: argument check: %s *)' % (k, dom))
        if 'all' in p:
            out.append('Definition prof%d_source (r : R) : R := %s.' % (k, p['all'][0]))
            out.append('Definition prof%d_proj (r : R) : R := %s.\n' % (k, p['all'][1]))
        else:
            out.append('Definition prof%d_brk : R := %s.' % (k, p['brk']))
            for side in ('l', 'r'):
                out.append('Definition prof%d_source_%s (r : R) : R := %s.' % (k, side, p[side][0]))
                out.append('Definition prof%d_proj_%s (r : R) : R := %s.' % (k, side, p[side][1]))
            out.append('Definition prof%d_source (r : R) : R :=\n  if Rle_dec r prof%d_brk then prof%d_source_l r else prof%d_source_r r.' % (k, k, k, k))
            out.append('Definition prof%d_proj (r : R) : R :=\n  if Rle_dec r prof%d_brk then prof%d_proj_l r else prof%d_proj_r r.\n' % (k, k, k, k))
    g = translate_gaussian(an)
    out.append('(* GaussianAnalytical.__init__ *)')
    out.append('Definition gauss_func (A0 sigma r : R) : R := %s.' % g['func'])
    out.append('Definition gauss_abel (A0 sigma r : R) : R := %s.\n' % g['abel'])
    s = translate_step(an)
    out.append('(* StepAnalytical: func mask, abel_step_analytical (for r >= 0; the class mirrors it to r < 0), mask_valid *)')
    out.append('Definition step_func (A0 r1 r2 r : R) : R := %s.' % s['func'])
    out.append('Definition step_abel (A0 r0 r1 r : R) : R := %s.' % s['abel'])
    out.append('Definition step_mask_valid (ratio r1 r2 r : R) : R := %s.' % s['mask_valid'])
    text = '\n'.join(out) + '\n'
    vlib.write_if_changed(os.path.join(vlib.COQ, 'gen', 'FormulasPairs.v'), text)
    return info


if __name__ == '__main__':
    generate()
    print(open(os.path.join(vlib.COQ, 'gen', 'FormulasPairs.v')).read())
