# alias_prog.py — fail-closed translator (Python `ast`) from the function
# bodies of /repo/abel to programs of the buffer language of coq/model/Alias.v
# (property C18).  Writes coq/gen/AliasProgs.v.
#
# What is kept of a Python function: which variables may hold (a view of) which
# array/dict buffers, which buffers are written in place, which are stored in
# / loaded from module-level globals, which are returned.  Everything else
# (numbers, strings, control conditions) is dropped; `if` / loops become
# non-deterministic.  Locals are renamed SSA-style (name#k) so that the
# flow-insensitive checker of Alias.v does not confuse `x = x.copy()` with x.
#
# Trusted parts: this translator, and the effect summaries of numpy / scipy /
# builtins in _alias_numpy.py.  Summaries of PyAbel's own functions are NOT
# trusted: they are computed here only as a convenience and re-checked inside
# Coq against the callee's program (`calls_consistent`).
#
# Objects of PyAbel classes are treated as regions: an object and every array
# stored in its attributes are one buffer; inside the class's own constructor
# (with the self-methods it calls inlined) attributes are separate variables.
#
# Any construct, callable or method that is not explicitly supported raises
# Untranslatable: the function is then reported, not skipped silently.
import ast
import os
import sys

sys.path.insert(0, os.path.dirname(os.path.dirname(os.path.abspath(__file__))))
import vlib                                                    # noqa: E402
from translate import _alias_numpy as NP                       # noqa: E402
from translate import _alias_specs as SP                       # noqa: E402


class Untranslatable(Exception):
    pass


def fail(node, msg):
    raise Untranslatable('%s (line %s)' % (msg, getattr(node, 'lineno', '?')))


# The callables whose translation is REQUIRED (a failure breaks the tie).
def required(key):
    mod, name = key.rsplit('.', 1)
    if mod in ('abel.tools.center', 'abel.tools.symmetry', 'abel.tools.polar', 'abel.tools.circularize'):
        return True
    if mod == 'abel.tools.vmi':
        return name != 'Distributions'
    if key == 'abel.transform.Transform':
        return True
    return name.endswith('_transform') or name.endswith('_transform_full')


# ------------------------------------------------------------------ modules

class Module(object):
    def __init__(self, name, path):
        self.name = name
        self.path = path
        self.tree = ast.parse(open(path).read(), path)
        self.imports = {}        # local name -> dotted canonical name
        self.funcs = {}          # name -> FunctionDef
        self.classes = {}        # name -> ClassDef
        self.globals = set()     # module-level variables (mutable state / tables)
        self.consts = {}         # module-level names bound to constants or function tables: name -> node
        self.is_pkg = os.path.basename(path) == '__init__.py'
        self._scan()

    def _pkg(self, level):
        parts = self.name.split('.')
        if not self.is_pkg:
            parts = parts[:-1]
        if level > 1:
            parts = parts[:-(level - 1)]
        return '.'.join(parts)

    def _scan(self):
        declared_global = set()
        for n in ast.walk(self.tree):
            if isinstance(n, ast.Global):
                declared_global.update(n.names)
        body = list(self.tree.body)
        # flatten top-level if/try (e.g. `if hasattr(np, 'trapezoid'): trapezoid = np.trapezoid`)
        flat = []
        for st in body:
            if isinstance(st, ast.If):
                flat += st.body + st.orelse
            elif isinstance(st, ast.Try):
                flat += st.body + [s for h in st.handlers for s in h.body] + st.orelse
            else:
                flat.append(st)
        for st in flat:
            if isinstance(st, ast.Import):
                for a in st.names:
                    if a.asname:
                        self.imports[a.asname] = a.name
                    else:
                        self.imports[a.name.split('.')[0]] = a.name.split('.')[0]
            elif isinstance(st, ast.ImportFrom):
                base = st.module or ''
                if st.level:
                    pkg = self._pkg(st.level)
                    base = pkg + ('.' + base if base else '')
                for a in st.names:
                    self.imports[a.asname or a.name] = base + '.' + a.name
            elif isinstance(st, ast.FunctionDef):
                self.funcs[st.name] = st
            elif isinstance(st, ast.ClassDef):
                self.classes[st.name] = st
            elif isinstance(st, ast.Assign):
                for t in st.targets:
                    if isinstance(t, ast.Name):
                        if t.id.startswith('__') and t.id.endswith('__'):
                            continue
                        if t.id in declared_global or not isinstance(st.value, (ast.Constant, ast.Dict, ast.Attribute, ast.Name, ast.JoinedStr, ast.BinOp)):
                            self.globals.add(t.id)
                        else:
                            self.consts[t.id] = st.value
        self.globals |= {g for g in declared_global}
        for g in self.globals:
            self.consts.pop(g, None)


class World(object):
    def __init__(self, repo):
        self.repo = repo
        self.modules = {}
        root = os.path.join(repo, 'abel')
        for dirpath, dirs, files in os.walk(root):
            for f in sorted(files):
                if not f.endswith('.py') or f in ('_version.py',):
                    continue
                p = os.path.join(dirpath, f)
                rel = os.path.relpath(p, repo)[:-3].replace(os.sep, '.')
                if rel.endswith('.__init__'):
                    rel = rel[:-9]
                if rel.startswith('abel.tests') or rel.startswith('abel.lib'):
                    continue
                try:
                    self.modules[rel] = Module(rel, p)
                except SyntaxError:
                    pass

    def canon(self, dotted):
        """Follow import aliases: 'abel.tools.center.center_image' stays;
        'abel.center_image' -> 'abel.tools.center.center_image'."""
        for _ in range(8):
            parts = dotted.split('.')
            changed = False
            for k in range(len(parts) - 1, 0, -1):
                mod = '.'.join(parts[:k])
                if mod in self.modules:
                    m = self.modules[mod]
                    head = parts[k]
                    if head in m.funcs or head in m.classes or head in m.globals or head in m.consts:
                        return dotted
                    if head in m.imports and mod + '.' + head not in self.modules:
                        dotted = '.'.join([m.imports[head]] + parts[k + 1:])
                        changed = True
                    break
            if not changed:
                return dotted
        return dotted

    def lookup(self, dotted):
        """('func', module, FunctionDef) | ('class', module, ClassDef) | ('module', Module) |
        ('global', module, name) | ('const', module, node) | None"""
        dotted = self.canon(dotted)
        if dotted in self.modules:
            return ('module', self.modules[dotted])
        parts = dotted.split('.')
        for k in range(len(parts) - 1, 0, -1):
            mod = '.'.join(parts[:k])
            if mod in self.modules:
                m = self.modules[mod]
                rest = parts[k:]
                if len(rest) == 1:
                    if rest[0] in m.funcs:
                        return ('func', m, m.funcs[rest[0]])
                    if rest[0] in m.classes:
                        return ('class', m, m.classes[rest[0]])
                    if rest[0] in m.globals:
                        return ('global', m, rest[0])
                    if rest[0] in m.consts:
                        return ('const', m, m.consts[rest[0]])
                elif rest[0] in m.classes:
                    c = m.classes[rest[0]]
                    for depth, nm in enumerate(rest[1:]):
                        last = depth == len(rest) - 2
                        found = None
                        for st in c.body:
                            if isinstance(st, ast.ClassDef) and st.name == nm:
                                found = ('class', st)
                            elif isinstance(st, ast.FunctionDef) and st.name == nm:
                                found = ('method', st)
                        if found is None:
                            return None
                        if last:
                            return ('class', m, found[1]) if found[0] == 'class' else ('method', m, c, found[1])
                        if found[0] != 'class':
                            return None
                        c = found[1]
                return None
        return None


# ----------------------------------------------------------- abstract values

class AV(object):
    """What an expression may evaluate to."""
    __slots__ = ('srcs', 'fresh', 'kind', 'funcs', 'elems', 'cls', 'shell')

    def __init__(self, srcs=(), fresh=False, kind=None, funcs=(), elems=None, cls=(), shell=False):
        # shell: the container object itself is certainly new (a literal, a copy, **kwargs);
        # only its elements may alias srcs, so writing *the container* touches no older buffer
        self.shell = shell
        self.srcs = frozenset(srcs)
        self.fresh = fresh
        self.kind = kind
        self.funcs = tuple(funcs)
        self.elems = elems
        self.cls = frozenset(cls)

    def isbuf(self):
        return bool(self.srcs) or self.fresh


NB = AV()


def join(*avs):
    avs = [a for a in avs if a is not None]
    srcs, fresh, funcs, cls = set(), False, [], set()
    kinds = set()
    for a in avs:
        srcs |= a.srcs
        fresh = fresh or a.fresh
        for f in a.funcs:
            if f not in funcs:
                funcs.append(f)
        cls |= a.cls
        if a.isbuf():
            kinds.add(a.kind)
    kind = kinds.pop() if len(kinds) == 1 else ('unk' if kinds else None)
    bufs = [a for a in avs if a.isbuf()]
    return AV(srcs, fresh, kind, funcs, None, cls, bool(bufs) and all(a.shell for a in bufs))


def meta_join(old, new):
    if old is None:
        return AV((), False, new.kind, new.funcs, new.elems, new.cls, new.shell)
    return AV((), False, new.kind if old.kind == new.kind else 'unk',
              tuple(old.funcs) + tuple(f for f in new.funcs if f not in old.funcs),
              None, old.cls | new.cls, old.shell and new.shell)


def view_of(av, kind='unk'):
    return AV(av.srcs, av.fresh, kind if av.isbuf() else None, (), None, ())


def assigned_names(stmts):
    out = set()

    def tgt(t):
        if isinstance(t, ast.Name):
            out.add(t.id)
        elif isinstance(t, (ast.Tuple, ast.List)):
            for e in t.elts:
                tgt(e)
        elif isinstance(t, ast.Starred):
            tgt(t.value)
        elif isinstance(t, ast.Attribute) and isinstance(t.value, ast.Name) and t.value.id == 'self':
            out.add('self.' + t.attr)

    class V(ast.NodeVisitor):
        def visit_Assign(self, n):
            for t in n.targets:
                tgt(t)
            self.generic_visit(n)

        def visit_AugAssign(self, n):
            tgt(n.target)
            self.generic_visit(n)

        def visit_For(self, n):
            tgt(n.target)
            self.generic_visit(n)

        def visit_With(self, n):
            for it in n.items:
                if it.optional_vars is not None:
                    tgt(it.optional_vars)
            self.generic_visit(n)

        def visit_ExceptHandler(self, n):
            if n.name:
                out.add(n.name)
            self.generic_visit(n)

        def visit_FunctionDef(self, n):
            out.add(n.name)      # do not descend: separate scope

        def visit_Lambda(self, n):
            pass

        def visit_ListComp(self, n):
            pass

        def visit_GeneratorExp(self, n):
            pass

        def visit_DictComp(self, n):
            pass

        def visit_SetComp(self, n):
            pass

        def visit_Call(self, n):
            # self-method calls may assign attributes of self: be conservative
            if isinstance(n.func, ast.Attribute) and isinstance(n.func.value, ast.Name) and n.func.value.id == 'self':
                out.add('self.*')
            self.generic_visit(n)

    for s in stmts:
        V().visit(s)
    return out


def param_list(fn, drop_self=False):
    """[(name, role)] in program-parameter order; role in pos/vararg/kwonly/kwarg"""
    a = fn.args
    out = [(x.arg, 'pos') for x in list(getattr(a, 'posonlyargs', [])) + list(a.args)]
    if drop_self and out:
        out = out[1:]
    if a.vararg:
        out.append((a.vararg.arg, 'vararg'))
    out += [(x.arg, 'kwonly') for x in a.kwonlyargs]
    if a.kwarg:
        out.append((a.kwarg.arg, 'kwarg'))
    return out


def defaults_of(fn, drop_self=False):
    a = fn.args
    pos = list(getattr(a, 'posonlyargs', [])) + list(a.args)
    d = {}
    for x, v in zip(pos[len(pos) - len(a.defaults):], a.defaults):
        d[x.arg] = v
    for x, v in zip(a.kwonlyargs, a.kw_defaults):
        if v is not None:
            d[x.arg] = v
    return d



def terminates(stmts):
    """'return' / 'raise' when control cannot fall out of the end of stmts, else None"""
    if not stmts:
        return None
    last = stmts[-1]
    if isinstance(last, ast.Return):
        return 'return'
    if isinstance(last, ast.Raise):
        return 'raise'
    if isinstance(last, ast.If):
        a, b = terminates(last.body), terminates(last.orelse)
        if a and b:
            return 'raise' if a == b == 'raise' else 'return'
    return None

# ------------------------------------------------------------ the translator

class Scope(object):
    def __init__(self, parent=None, prefix=''):
        self.parent = parent
        self.prefix = prefix
        self.cur = {}            # name -> versioned variable
        self.nb = {}             # name -> AV without buffer (functions, classes, modules, scalars with elems)
        self.weak = {}           # name -> merged variable (inside try blocks)
        self.globals_decl = set()
        self.loops = []          # stack of {name: loop variable}
        self.retvar = None       # inlined call: variable receiving returned values
        self.retmeta = None

    def find(self, name):
        s = self
        while s is not None:
            if name in s.cur or name in s.nb:
                return s
            s = s.parent
        return None


class FuncTranslator(object):
    def __init__(self, world, module, fn, qual, cls=None, ctor=False, method=False, array_params=None):
        self.w = world
        self.m = module
        self.fn = fn
        self.qual = qual
        self.cls = cls                   # ClassDef when translating a method / constructor
        self.ctor = ctor
        self.method = method             # method translated with `self` as parameter 0
        self.array_params = array_params  # None: every parameter may hold a buffer
        self.counter = {}
        self.site = 0
        self.blocks = [[]]
        self.meta = {}                   # versioned var -> AV (kind, funcs, cls, elems)
        self.from_global = set()
        self.inline_depth = 0
        self.inlining = []
        self.inline_frames = {}
        self.calls = []                  # (callee qual) for the call graph
        self.selffields = set()
        self.params = []
        self.ret_cls = set()
        self.escaped = set()
        self.field_assign = {}
        self.scalar_fields = set()

    # -- emission ---------------------------------------------------------
    def emit(self, c):
        self.blocks[-1].append(c)

    def newver(self, name, scope=None):
        base = (scope.prefix if scope is not None else '') + name
        k = self.counter.get(base, 0)
        self.counter[base] = k + 1
        return '%s#%d' % (base, k)

    def newsite(self):
        self.site += 1
        return self.site

    def tmp(self, hint='t'):
        return self.newver('$' + hint)

    def emit_assign(self, target, av):
        cmds = [('assign', target, ('view', s)) for s in sorted(av.srcs)]
        if av.fresh:
            cmds.append(('assign', target, ('fresh', self.newsite())))
        if not cmds:
            return
        c = cmds[-1]
        for d in reversed(cmds[:-1]):
            c = ('if', d, c)
        self.emit(c)
        self.meta[target] = meta_join(self.meta.get(target), av)

    def as_var(self, av, hint='t'):
        """a variable holding av (None when av holds no buffer)"""
        if not av.isbuf():
            return None
        if len(av.srcs) == 1 and not av.fresh:
            return next(iter(av.srcs))
        t = self.tmp(hint)
        self.emit_assign(t, av)
        return t

    def emit_write(self, av):
        if av.shell:
            return
        cmds = [('write', s) for s in sorted(av.srcs)]
        if not cmds:
            return
        c = cmds[-1]
        for d in reversed(cmds[:-1]):
            c = ('if', d, c)
        self.emit(c)

    def emit_storeg(self, av):
        for s in sorted(av.srcs):
            self.emit(('storeg', s))
        if av.fresh:
            t = self.as_var(AV((), True, av.kind), 'g')
            self.emit(('storeg', t))

    def emit_ret(self, av):
        if self.method and self.params and (set(av.srcs) & self.escaped):
            self.emit(('ret', self.params[0]))
        for s in sorted(av.srcs):
            self.emit(('ret', s))
        if av.fresh:
            t = self.as_var(AV((), True, av.kind), 'r')
            self.emit(('ret', t))

    # -- names ------------------------------------------------------------
    def load_name(self, name, scope, node=None):
        s = scope.find(name)
        if s is not None:
            if name in s.weak:
                v = s.weak[name]
                m = self.meta.get(v, NB)
                return AV([v], False, m.kind or 'unk', m.funcs, None, m.cls, m.shell)
            if name in s.cur:
                v = s.cur[name]
                m = self.meta.get(v, NB)
                return AV([v], False, m.kind or 'unk', m.funcs, m.elems, m.cls, m.shell)
            return s.nb[name]
        return self.load_global_name(name, node)

    def load_global_name(self, name, node, module=None):
        m = module or self.m
        if name in m.globals:
            t = self.tmp('G_' + name)
            self.emit(('if', ('loadg', t), ('skip',)))
            self.from_global.add(t)
            cls = self.w.global_classes.get((m.name, name), ())
            self.meta[t] = AV((), False, 'unk', (), None, cls)
            return AV([t], False, 'unk', (), None, cls)
        if name in m.funcs:
            return AV(funcs=[('abel', m.name + '.' + name)])
        if name in m.classes:
            return AV(funcs=[('class', m.name + '.' + name)])
        if name in m.consts:
            return self.const_value(m, m.consts[name])
        if name in m.imports:
            return self.ref_value(m.imports[name], node)
        if name in ('True', 'False', 'None'):
            return NB
        import builtins
        if hasattr(builtins, name):
            return AV(funcs=[('ext', 'builtins.' + name)])
        fail(node, 'unknown name %r' % name)

    def const_value(self, m, node):
        if isinstance(node, ast.Dict):
            fs = []
            for v in node.values:
                if isinstance(v, ast.Name) and v.id in m.funcs:
                    fs.append(('abel', m.name + '.' + v.id))
                elif isinstance(v, ast.Constant):
                    pass
                else:
                    fail(node, 'module-level table with unsupported values')
            return AV(funcs=fs)
        if isinstance(node, (ast.Attribute, ast.Name)):
            d = dotted_name(node)
            if d:
                head = d.split('.')[0]
                if head in m.imports:
                    return self.ref_value(m.imports[head] + d[len(head):], node)
                if head in m.funcs:
                    return AV(funcs=[('abel', m.name + '.' + head)])
            fail(node, 'module-level alias not understood')
        return NB     # Constant, JoinedStr, BinOp of constants

    def ref_value(self, dotted, node):
        """value of a (possibly dotted) reference to something imported"""
        dotted = self.w.canon(dotted)
        r = self.w.lookup(dotted)
        if r is not None:
            if r[0] == 'func':
                return AV(funcs=[('abel', r[1].name + '.' + r[2].name)])
            if r[0] == 'class':
                return AV(funcs=[('class', dotted)])
            if r[0] == 'method':
                return AV(funcs=[('abelmethod', dotted)])
            if r[0] == 'module':
                return AV(funcs=[('module', r[1].name)])
            if r[0] == 'global':
                return self.load_global_name(r[2], node, r[1])
            if r[0] == 'const':
                return self.const_value(r[1], r[2])
        if dotted.startswith('abel.lib.'):
            return AV(funcs=[('ext', dotted)])         # compiled extension
        if dotted.startswith('abel.') or dotted == 'abel':
            if dotted in ('abel._deprecate', 'abel._deprecated'):
                return AV(funcs=[('ext', 'warnings.warn')]) if dotted.endswith('te') else NB
            fail(node, 'cannot resolve %s' % dotted)
        top = dotted.split('.')[0]
        if top in ('numpy', 'scipy', 'os', 'sys', 'time', 'math', 'warnings', 'glob', 're', 'platform', 'tempfile',
                   'itertools', 'six', 'png', 'timeit', 'matplotlib'):
            if top == 'numpy' and dotted.split('.')[-1] in NP.NUMPY_CONSTANTS and dotted.count('.') == 1:
                return NB
            if dotted in ('scipy.constants',):
                return AV(funcs=[('module', dotted)])
            return AV(funcs=[('ext', dotted)])
        fail(node, 'reference to unknown module %s' % dotted)

    def bind(self, name, av, scope):
        """name = av"""
        if name in scope.globals_decl:
            self.emit_storeg(av)
            if av.cls:
                pass
            return
        if name in scope.weak:
            self.emit_assign(scope.weak[name], av)
            if not av.isbuf() and (av.funcs or av.elems):
                scope.nb[name] = join(scope.nb.get(name), av) if name in scope.nb else av
            return
        if av.isbuf():
            v = self.newver(name, scope)
            self.emit_assign(v, av)
            scope.cur[name] = v
            scope.nb.pop(name, None)
        else:
            scope.cur.pop(name, None)
            if name in scope.nb and (scope.loops or self.blocks and len(self.blocks) > 1):
                old = scope.nb[name]
                scope.nb[name] = AV((), False, None, tuple(old.funcs) + tuple(f for f in av.funcs if f not in old.funcs),
                                    av.elems if old.elems is None else None, old.cls | av.cls)
            else:
                scope.nb[name] = av

    # -- statements -------------------------------------------------------
    def block(self, stmts, scope):
        self.blocks.append([])
        self.stmts(stmts, scope)
        return self.blocks.pop()

    def stmts(self, stmts, scope):
        """a statement list; code after `if c: ...; return/raise` runs only on the other branch"""
        for i, st in enumerate(stmts):
            rest = stmts[i + 1:]
            if isinstance(st, ast.If) and rest:
                tb, te = terminates(st.body), terminates(st.orelse)
                if tb and not te:
                    self.st_If(st, scope, extra_else=rest)
                    return
                if te and not tb:
                    self.st_If(st, scope, extra_body=rest)
                    return
            self.stmt(st, scope)

    def seq(self, cmds):
        cmds = [c for c in cmds if c != ('skip',)]
        if not cmds:
            return ('skip',)
        c = cmds[-1]
        for d in reversed(cmds[:-1]):
            c = ('seq', d, c)
        return c

    def merge(self, scope, pre, branches):
        """branches: list of (block, cur-dict); creates join versions"""
        names = set()
        for _, cur in branches:
            names |= set(cur)
        merged = {}
        for name in names:
            vs = [cur.get(name) for _, cur in branches]
            if all(v == vs[0] for v in vs):
                merged[name] = vs[0]
                continue
            nv = self.newver(name, scope)
            for (blk, cur), v in zip(branches, vs):
                if v is None and self.method and name.startswith('self.') and self.params \
                        and name[5:] not in self.scalar_fields:
                    # attribute of an existing object not assigned on this path: whatever the object holds
                    blk.append(('assign', nv, ('view', self.params[0])))
                    self.meta[nv] = meta_join(self.meta.get(nv), AV((), False, 'unk'))
                if v is not None:
                    blk.append(('assign', nv, ('var', v)))
                    m = self.meta.get(v)
                    if m is not None:
                        self.meta[nv] = meta_join(self.meta.get(nv), m)
            merged[name] = nv
        scope.cur = merged

    def stmt(self, n, scope):
        meth = getattr(self, 'st_' + type(n).__name__, None)
        if meth is None:
            fail(n, 'unsupported statement %s' % type(n).__name__)
        meth(n, scope)

    def st_Expr(self, n, scope):
        if isinstance(n.value, ast.Constant):
            return
        self.expr(n.value, scope)

    def st_Pass(self, n, scope):
        pass

    def st_Assert(self, n, scope):
        self.expr(n.test, scope)

    def st_Delete(self, n, scope):
        pass

    def st_Import(self, n, scope):
        for a in n.names:
            scope.nb[(a.asname or a.name).split('.')[0]] = AV(funcs=[('ext', a.name if a.asname else a.name.split('.')[0])])

    def st_ImportFrom(self, n, scope):
        base = n.module or ''
        if n.level:
            base = self.m._pkg(n.level) + ('.' + base if base else '')
        for a in n.names:
            try:
                scope.nb[a.asname or a.name] = self.ref_value(base + '.' + a.name, n)
            except Untranslatable:
                scope.nb[a.asname or a.name] = AV(funcs=[('ext', base + '.' + a.name)])

    def st_Global(self, n, scope):
        scope.globals_decl.update(n.names)
        for g in n.names:
            scope.cur.pop(g, None)

    def st_Nonlocal(self, n, scope):
        fail(n, 'nonlocal')

    def st_Raise(self, n, scope):
        if n.exc is not None:
            self.expr(n.exc, scope)

    def st_Return(self, n, scope):
        av = self.expr(n.value, scope) if n.value is not None else NB
        if scope_ret(scope) is not None:
            rs = scope_ret(scope)
            if av.isbuf():
                self.emit_assign(rs.retvar, av)
            rs.retmeta = av if rs.retmeta is None else join(rs.retmeta, av)
            return
        self.ret_cls |= set(av.cls)
        self.emit_ret(self.closure_extras(av, scope))

    def closure_extras(self, av, scope):
        """a returned/stored function value keeps its free variables alive"""
        extra = []
        for f in av.funcs:
            if f[0] == 'closure':
                node, sc = f[1], f[2]
                for nm in free_names(node):
                    s = sc.find(nm)
                    if s is not None and nm in s.cur:
                        extra.append(AV([s.cur[nm]]))
        return join(av, *extra) if extra else av

    def st_FunctionDef(self, n, scope):
        if any(dotted_name(d) not in ('cache', 'functools.cache', 'lru_cache', 'functools.lru_cache')
               for d in n.decorator_list):
            fail(n, 'decorated nested function')
        # (a memoising decorator only keeps the returned objects alive while the closure lives)
        scope.nb[n.name] = AV(funcs=[('closure', n, scope)])
        scope.cur.pop(n.name, None)

    def st_Assign(self, n, scope):
        av = self.expr(n.value, scope)
        for t in n.targets:
            self.assign_target(t, av, scope, n)

    def st_AnnAssign(self, n, scope):
        if n.value is not None:
            self.assign_target(n.target, self.expr(n.value, scope), scope, n)

    def assign_target(self, t, av, scope, node):
        if isinstance(t, ast.Name):
            self.bind(t.id, av, scope)
        elif isinstance(t, (ast.Tuple, ast.List)):
            if av.elems is not None and len(av.elems) == len(t.elts) and not any(isinstance(e, ast.Starred) for e in t.elts):
                for e, a in zip(t.elts, av.elems):
                    self.assign_target(e, a, scope, node)
            else:
                for e in t.elts:
                    self.assign_target(e.value if isinstance(e, ast.Starred) else e, view_of(av), scope, node)
        elif isinstance(t, ast.Attribute):
            if isinstance(t.value, ast.Name) and t.value.id == 'self' and self.cls is not None and scope_self(scope):
                self.store_self_field(t.attr, av, scope)
            else:
                base = self.expr(t.value, scope)
                self.store_into(base, av)
        elif isinstance(t, ast.Subscript):
            base = self.expr(t.value, scope)
            self.expr_slice(t.slice, scope)
            self.emit_write(base)
            if base.kind != 'arr':
                self.store_into(base, av, write=False)
        else:
            fail(node, 'unsupported assignment target %s' % type(t).__name__)

    def store_into(self, base, av, write=True):
        """container/object `base` now also holds `av`"""
        if write:
            self.emit_write(base)
        if av.isbuf():
            for s in sorted(base.srcs):
                self.emit(('if', self.seq_assign(s, av), ('skip',)))
                if s in self.from_global:
                    self.emit_storeg(av)

    def seq_assign(self, target, av):
        self.blocks.append([])
        self.emit_assign(target, av)
        return self.seq(self.blocks.pop())

    def store_self_field(self, attr, av, scope):
        name = 'self.' + attr
        root = scope_root(scope)
        self.selffields.add(name)
        fa = self.field_assign.setdefault(attr, dict(buf=False, nb=False))
        fa['buf' if av.isbuf() else 'nb'] = True
        if self.method and av.isbuf() and attr in self.scalar_fields:
            raise Untranslatable('attribute %s was classified as a number but receives an array' % attr)
        if self.method:
            # `self` is a parameter (an existing object, seen as one region).  Within this
            # invocation the attribute is exactly av; the region of self grows by av, and a
            # value that was stored in self and is returned later is part of self.
            selfv = root.cur.get('self')
            self.bind(name, av, root)
            if av.isbuf() and selfv:
                self.emit(('if', self.seq_assign(selfv, AV(av.srcs, av.fresh, 'unk')), ('skip',)))
                self.escaped |= set(av.srcs)
                if name in root.cur:
                    self.escaped.add(root.cur[name])
        else:
            if av.isbuf() or av.funcs or av.elems:
                self.bind(name, av, root)
            else:
                root.cur.pop(name, None)
                root.nb[name] = av

    def st_AugAssign(self, n, scope):
        val = self.expr(n.value, scope)
        t = n.target
        if isinstance(t, ast.Name):
            if t.id in scope.globals_decl:
                g = self.load_global_name(t.id, n)
                self.emit_write(g)
                return
            s = scope.find(t.id)
            if s is None or (t.id not in s.cur and t.id not in s.weak):
                return                                   # a number: rebinding
            cur = self.load_name(t.id, scope, n)
            self.emit_write(cur)                          # x op= ...  is in place for arrays and lists
            if cur.kind != 'arr' and val.isbuf() and isinstance(n.op, ast.Add):
                self.store_into(cur, val, write=False)
        elif isinstance(t, ast.Subscript):
            base = self.expr(t.value, scope)
            self.expr_slice(t.slice, scope)
            self.emit_write(base)
        elif isinstance(t, ast.Attribute):
            cur = self.expr(t, scope)
            self.emit_write(cur)
        else:
            fail(n, 'unsupported augmented assignment')

    def st_If(self, n, scope, extra_body=(), extra_else=()):
        self.expr(n.test, scope)
        pre_cur, pre_nb = dict(scope.cur), dict(scope.nb)
        root = scope_root(scope)
        if root is scope:
            root = None                     # (attributes of self live in the root scope: branch them too)
        pre_rcur = dict(root.cur) if root is not None else None
        none_in_body = none_in_else = None
        t = n.test
        if isinstance(t, ast.Compare) and len(t.ops) == 1 and isinstance(t.left, ast.Name) and \
                isinstance(t.comparators[0], ast.Constant) and t.comparators[0].value is None and \
                t.left.id in scope.cur and t.left.id not in scope.weak:
            if isinstance(t.ops[0], ast.Is):
                none_in_body = t.left.id
            elif isinstance(t.ops[0], ast.IsNot):
                none_in_else = t.left.id
        self.blocks.append([])
        if none_in_body:
            scope.cur.pop(none_in_body, None)          # `x is None` holds here: x holds no buffer
        self.stmts(list(n.body) + list(extra_body), scope)
        b1 = self.blocks.pop()
        cur1, nb1 = scope.cur, scope.nb
        scope.cur, scope.nb = dict(pre_cur), dict(pre_nb)
        if root is not None:
            rcur1 = root.cur
            root.cur = dict(pre_rcur)
        self.blocks.append([])
        if none_in_else:
            scope.cur.pop(none_in_else, None)
        self.stmts(list(n.orelse) + list(extra_else), scope)
        b2 = self.blocks.pop()
        cur2, nb2 = scope.cur, scope.nb
        # a branch that always raises contributes nothing to the state after the `if`
        live = [(b, c) for (b, c), t in (((b1, cur1), terminates(list(n.body) + list(extra_body))),
                                         ((b2, cur2), terminates(list(n.orelse) + list(extra_else)))) if t != 'raise']
        if root is not None:
            rcur2 = root.cur
        if len(live) == 1:
            scope.cur = live[0][1]
            if root is not None:
                root.cur = rcur1 if live[0][0] is b1 else rcur2
        else:
            self.merge(scope, pre_cur, [(b1, cur1), (b2, cur2)])
            if root is not None:
                self.merge(root, pre_rcur, [(b1, rcur1), (b2, rcur2)])
        nb = dict(nb1)
        for k, v in nb2.items():
            nb[k] = v if k not in nb or nb[k] is v else AV((), False, None, tuple(nb[k].funcs) + tuple(f for f in v.funcs if f not in nb[k].funcs), None, nb[k].cls | v.cls)
        scope.nb = nb
        self.emit(('if', self.seq(b1), self.seq(b2)))

    def loop(self, n, scope, bind_target):
        names = assigned_names(n.body + n.orelse) | (assigned_names([n]) if isinstance(n, ast.For) else set())
        if 'self.*' in names:
            names.discard('self.*')
            names |= {k for k in scope_root(scope).cur if k.startswith('self.')}
        root = scope_root(scope)
        loopvars = {}
        for name in sorted(names):
            sc = root if name.startswith('self.') else scope
            if name in sc.globals_decl or name in sc.weak:
                continue
            lv = self.newver(name, sc)
            if name in sc.cur:
                self.emit(('assign', lv, ('var', sc.cur[name])))
                self.meta[lv] = self.meta.get(sc.cur[name], NB)
            elif self.method and name.startswith('self.') and self.params and name[5:] not in self.scalar_fields:
                self.emit(('assign', lv, ('view', self.params[0])))
                self.meta[lv] = AV((), False, 'unk')
            sc.cur[name] = lv
            loopvars[name] = (sc, lv)
        scope.loops.append(loopvars)
        self.blocks.append([])
        bind_target()
        self.stmts(n.body, scope)
        self.loop_back(scope)
        body = self.blocks.pop()
        scope.loops.pop()
        for name, (sc, lv) in loopvars.items():
            sc.cur[name] = lv
        self.emit(('loop', self.seq(body)))
        for s in n.orelse:
            self.stmt(s, scope)

    def loop_back(self, scope):
        if not scope.loops:
            return
        for name, (sc, lv) in scope.loops[-1].items():
            v = sc.cur.get(name)
            if v is not None and v != lv:
                self.emit(('assign', lv, ('var', v)))
                m = self.meta.get(v)
                if m is not None:
                    self.meta[lv] = meta_join(self.meta.get(lv), m)

    def st_For(self, n, scope):
        it = self.expr(n.iter, scope)

        def bind_target():
            el = None
            if it.elems:
                el = join(*it.elems)
                if all(e.elems is not None for e in it.elems) and len({len(e.elems) for e in it.elems}) == 1:
                    k = len(it.elems[0].elems)
                    el = AV(el.srcs, el.fresh, el.kind, el.funcs, [join(*[e.elems[i] for e in it.elems]) for i in range(k)], el.cls)
            self.assign_target(n.target, el if el is not None else view_of(it), scope, n)
        self.loop(n, scope, bind_target)

    def st_While(self, n, scope):
        self.loop(n, scope, lambda: self.expr(n.test, scope))

    def st_Break(self, n, scope):
        self.loop_back(scope)

    def st_Continue(self, n, scope):
        self.loop_back(scope)

    def st_With(self, n, scope):
        for it in n.items:
            av = self.expr(it.context_expr, scope)
            if it.optional_vars is not None:
                self.assign_target(it.optional_vars, view_of(av), scope, n)
        for s in n.body:
            self.stmt(s, scope)

    def st_Try(self, n, scope):
        stmts = n.body + [s for h in n.handlers for s in h.body] + n.orelse + n.finalbody
        names = assigned_names(stmts)
        root = scope_root(scope)
        if 'self.*' in names:
            names.discard('self.*')
            names |= {k for k in root.cur if k.startswith('self.')}
        saved = []
        for name in sorted(names):
            sc = root if name.startswith('self.') else scope
            if name in sc.globals_decl or name in sc.weak:
                continue
            tv = self.newver(name, sc)
            if name in sc.cur:
                self.emit(('assign', tv, ('var', sc.cur[name])))
                self.meta[tv] = self.meta.get(sc.cur[name], NB)
            sc.weak[name] = tv
            sc.cur[name] = tv
            saved.append((sc, name))
        body = self.block(n.body, scope)
        hs = []
        for h in n.handlers:
            if h.type is not None:
                self.expr(h.type, scope)
            hs.append(self.block(h.body, scope))
        orelse = self.block(n.orelse, scope)
        final = self.block(n.finalbody, scope)
        c = self.seq(body)
        for h in hs:
            c = ('seq', c, ('if', self.seq(h), ('skip',)))
        c = ('seq', c, ('if', self.seq(orelse), ('skip',)))
        c = ('seq', c, self.seq(final))
        self.emit(c)
        for sc, name in saved:
            del sc.weak[name]

    # -- expressions ------------------------------------------------------
    def expr(self, n, scope):
        if n is None:
            return NB
        meth = getattr(self, 'ex_' + type(n).__name__, None)
        if meth is None:
            fail(n, 'unsupported expression %s' % type(n).__name__)
        return meth(n, scope)

    def expr_slice(self, n, scope):
        return self.expr(n, scope)

    def ex_Constant(self, n, scope):
        return NB

    def ex_JoinedStr(self, n, scope):
        for v in n.values:
            self.expr(v, scope)
        return NB

    def ex_FormattedValue(self, n, scope):
        self.expr(n.value, scope)
        return NB

    def ex_Name(self, n, scope):
        if n.id == 'self' and self.cls is not None and scope_self(scope) and not self.method:
            root = scope_root(scope)
            return join(*[AV([v], False, 'cont') for k, v in root.cur.items() if k.startswith('self.')]) \
                if any(k.startswith('self.') for k in root.cur) else AV((), False, None, (), None, ())
        return self.load_name(n.id, scope, n)

    def ex_Slice(self, n, scope):
        for p in (n.lower, n.upper, n.step):
            if p is not None:
                self.expr(p, scope)
        return NB

    def ex_Index(self, n, scope):        # py<3.9
        return self.expr(n.value, scope)

    def ex_ExtSlice(self, n, scope):
        for d in n.dims:
            self.expr(d, scope)
        return NB

    def ex_Starred(self, n, scope):
        return view_of(self.expr(n.value, scope))

    def ex_Tuple(self, n, scope):
        elems = [self.expr(e, scope) for e in n.elts]
        j = join(*elems) if elems else NB
        return AV(j.srcs, j.fresh, 'cont' if j.isbuf() else None, j.funcs, elems, j.cls, True)

    def ex_List(self, n, scope):
        elems = [self.expr(e, scope) for e in n.elts]
        j = join(*elems) if elems else NB
        return AV(j.srcs, True, 'cont', j.funcs, elems, j.cls, True)

    ex_Set = ex_List

    def ex_Dict(self, n, scope):
        vals = [self.expr(v, scope) for v in n.values]
        for k in n.keys:
            if k is not None:
                self.expr(k, scope)
        j = join(*vals) if vals else NB
        return AV(j.srcs, True, 'cont', j.funcs, None, j.cls, True)

    def ex_BinOp(self, n, scope):
        a, b = self.expr(n.left, scope), self.expr(n.right, scope)
        if isinstance(n.op, ast.Mod) and isinstance(n.left, ast.Constant) and isinstance(n.left.value, str):
            return NB
        if a.kind == 'cont' or b.kind == 'cont':
            if isinstance(n.op, (ast.Add, ast.Mult)):      # list/tuple concatenation, repetition
                j = join(a, b)
                return AV(j.srcs, True, 'cont', j.funcs, None, j.cls, True)
        if a.isbuf() or b.isbuf():
            return AV((), True, 'arr')
        return NB

    def ex_UnaryOp(self, n, scope):
        a = self.expr(n.operand, scope)
        if isinstance(n.op, ast.Not):
            return NB
        return AV((), True, 'arr') if a.isbuf() else NB

    def ex_BoolOp(self, n, scope):
        return join(*[self.expr(v, scope) for v in n.values])      # `a or b` returns one of its operands

    def ex_Compare(self, n, scope):
        a = self.expr(n.left, scope)
        bs = [self.expr(c, scope) for c in n.comparators]
        if all(isinstance(o, (ast.Is, ast.IsNot, ast.In, ast.NotIn)) for o in n.ops):
            return NB
        return AV((), True, 'arr') if (a.isbuf() or any(b.isbuf() for b in bs)) else NB

    def ex_IfExp(self, n, scope):
        self.expr(n.test, scope)
        return join(self.expr(n.body, scope), self.expr(n.orelse, scope))

    def ex_Lambda(self, n, scope):
        return AV(funcs=[('closure', n, scope)])

    def comp(self, n, scope, elts):
        sub = Scope(scope, scope.prefix)
        for g in n.generators:
            it = self.expr(g.iter, sub)
            self.assign_target(g.target, view_of(it) if not it.elems else join(*it.elems), sub, n)
            for c in g.ifs:
                self.expr(c, sub)
        self.blocks.append([])
        vals = [self.expr(e, sub) for e in elts]
        body = self.blocks.pop()
        if body:
            self.emit(('loop', self.seq(body)))
        j = join(*vals)
        return AV(j.srcs, True, 'cont', j.funcs, None, j.cls, True)

    def ex_ListComp(self, n, scope):
        return self.comp(n, scope, [n.elt])

    ex_GeneratorExp = ex_ListComp
    ex_SetComp = ex_ListComp

    def ex_DictComp(self, n, scope):
        return self.comp(n, scope, [n.key, n.value])

    def ex_Subscript(self, n, scope):
        base = self.expr(n.value, scope)
        self.expr_slice(n.slice, scope)
        if base.elems is not None:
            idx = n.slice.value if isinstance(n.slice, ast.Index) else n.slice
            if isinstance(idx, ast.Constant) and isinstance(idx.value, int) and -len(base.elems) <= idx.value < len(base.elems):
                return base.elems[idx.value]
            j = join(*base.elems) if base.elems else NB
            return j
        if base.funcs and not base.isbuf():
            return AV(funcs=base.funcs)               # table of functions
        return AV(base.srcs, base.fresh, ('arr' if base.kind == 'arr' else 'unk') if base.isbuf() else None,
                  base.funcs, None, base.cls if base.kind == 'cont' else ())

    def ex_Attribute(self, n, scope):
        # self.X
        if isinstance(n.value, ast.Name) and n.value.id == 'self' and self.cls is not None and scope_self(scope):
            return self.load_self_field(n.attr, scope, n)
        d = dotted_name(n)
        if d is not None:
            head = d.split('.')[0]
            s = scope.find(head)
            if s is None and head not in self.m.globals and head not in self.m.funcs and head not in self.m.classes \
                    and head in self.m.imports:
                return self.ref_value(self.m.imports[head] + d[len(head):], n)
            if s is not None and head in s.nb and not s.nb[head].isbuf():
                hv = s.nb[head]
                mods = [f for f in hv.funcs if f[0] in ('module', 'ext')]
                if mods and len(mods) == len(hv.funcs):
                    return self.ref_value(mods[0][1] + d[len(head):], n)
        base = self.expr(n.value, scope)
        return self.attr_of(base, n.attr, n)

    def attr_of(self, base, attr, n):
        mods = [f for f in base.funcs if f[0] in ('module', 'ext')]
        if mods and not base.isbuf():
            return self.ref_value(mods[0][1] + '.' + attr, n)
        classes = [f for f in base.funcs if f[0] == 'class']
        if classes and not base.isbuf():
            r = self.w.lookup(classes[0][1] + '.' + attr)
            if r is not None and r[0] == 'class':
                return AV(funcs=[('class', classes[0][1] + '.' + attr)])
            if r is not None and r[0] == 'method':
                return AV(funcs=[('abelmethod', classes[0][1] + '.' + attr)])
            fail(n, 'class attribute %s' % attr)
        if attr in NP.ATTR_SCALAR:
            return NB
        if not base.isbuf():
            return NB
        if base.cls:
            ms = []
            for c in base.cls:
                probe = FuncTranslator.__new__(FuncTranslator)
                probe.w = self.w
                probe.clsq = c
                r = FuncTranslator.find_member(probe, attr, c)
                if r is not None and r[0] == 'method':
                    if any(dotted_name(d) == 'property' for d in r[2].decorator_list):
                        continue
                    ms.append(('boundmethod', r[1][2] + '.' + attr, base))
                elif r is not None and r[0] == 'class':
                    ms.append(('class', r[1]))
            if ms:
                return AV((), False, None, ms, None, ())
        return AV(base.srcs, base.fresh, 'arr' if (attr in NP.ATTR_VIEW and base.kind == 'arr') else 'unk', (), None, ())

    def load_self_field(self, attr, scope, n):
        name = 'self.' + attr
        root = scope_root(scope)
        if name in root.weak or name in root.cur:
            v = root.weak.get(name) or root.cur[name]
            m = self.meta.get(v, NB)
            return AV([v], False, m.kind or 'unk', m.funcs, m.elems if name not in root.weak else None, m.cls)
        if name in root.nb:
            return root.nb[name]
        # a method or nested class of the class
        r = self.find_member(attr)
        if r is not None:
            if r[0] == 'method':
                return AV(funcs=[('selfmethod', r[1], r[2])])
            if r[0] == 'class':
                return AV(funcs=[('class', r[1])])
            if r[0] == 'const':
                return NB
        if self.method:
            if attr in self.scalar_fields:
                return NB                     # a number / string in every assignment of the constructor
            selfv = root.cur.get('self')
            return AV([selfv], False, 'unk') if selfv else NB
        return NB         # attribute not set on this path (or a number)

    def class_chain(self, cq=None):
        """[(module, ClassDef, qualname)] following base classes inside abel"""
        out = []
        todo = [cq or self.clsq]
        while todo:
            q = todo.pop(0)
            r = self.w.lookup(q)
            if r is None or r[0] != 'class':
                continue
            out.append((r[1], r[2], q))
            for b in r[2].bases:
                d = dotted_name(b)
                if d is None or d == 'object':
                    continue
                head = d.split('.')[0]
                if head in r[1].classes:
                    todo.append(r[1].name + '.' + d)
                elif head in r[1].imports:
                    todo.append(self.w.canon(r[1].imports[head] + d[len(head):]))
        return out

    def find_member(self, attr, cq=None, skip_first=False):
        chain = self.class_chain(cq)
        if skip_first:
            chain = chain[1:]
        for m, c, q in chain:
            for st in c.body:
                if isinstance(st, ast.FunctionDef) and st.name == attr:
                    return ('method', (m, c, q), st)
                if isinstance(st, ast.ClassDef) and st.name == attr:
                    return ('class', q + '.' + attr)
                if isinstance(st, ast.Assign) and any(isinstance(t, ast.Name) and t.id == attr for t in st.targets):
                    return ('const', st.value)
        return None

    # -- calls --------------------------------------------------------------
    def ex_Call(self, n, scope):
        # super().__init__(...) / super(C, self).__init__(...)
        if isinstance(n.func, ast.Attribute) and isinstance(n.func.value, ast.Call) and \
                isinstance(n.func.value.func, ast.Name) and n.func.value.func.id == 'super':
            if self.cls is None:
                fail(n, 'super() outside a class')
            owner = scope_owner(scope) or self.clsq
            r = self.find_member(n.func.attr, owner, skip_first=True)
            if r is None or r[0] != 'method':
                if n.func.attr == '__init__':
                    return NB
                fail(n, 'super().%s not found' % n.func.attr)
            return self.inline(r[2], n, scope, scope_root(scope), owner=r[1][2], is_method=True)
        f = self.expr(n.func, scope)
        args = [(a, self.expr(a, scope)) for a in n.args]
        kws = [(k.arg, self.expr(k.value, scope)) for k in n.keywords]
        results = []
        if isinstance(n.func, ast.Attribute) and not f.funcs:
            # method of an array / container / unknown object
            base = self.expr(n.func.value, scope) if not f.isbuf() else f
            if not base.isbuf() and not f.isbuf():
                # method of a scalar / string / module-less object
                spec = NP.METHODS.get(n.func.attr)
                if spec is None:
                    fail(n, 'method .%s() has no summary' % n.func.attr)
                if spec == 'scalar':
                    return NB
                return AV((), spec in ('fresh', 'copy', 'view'), 'unk') if any(a.isbuf() for _, a in args) or spec in ('fresh', 'copy') else NB
            return self.method_call(n, base, n.func.attr, args, kws)
        if not f.funcs:
            if f.isbuf() and f.cls:
                ms = []
                for c in f.cls:
                    probe = FuncTranslator.__new__(FuncTranslator)
                    probe.w = self.w
                    probe.clsq = c
                    r = FuncTranslator.find_member(probe, '__call__', c)
                    if r is None or r[0] != 'method':
                        fail(n, 'object of class %s is not callable' % c)
                    ms.append(self.call_abel(r[1][2] + '.__call__', r[2], n, [(None, f)] + args, kws, drop_self=False, method_of=f))
                return join(*ms)
            if f.isbuf():
                # calling an object (spline, interp1d, user-supplied function value held in a container)
                return AV((), True, 'arr')
            # a parameter that is a user-supplied callable: assumed not to write its arguments
            j = join(*[a for _, a in args] + [a for _, a in kws])
            return AV(j.srcs, True, 'unk')
        for fn in f.funcs:
            results.append(self.call_one(fn, n, args, kws, scope, f))
        out = join(*results)
        if len(results) == 1:
            return results[0]
        return out

    def apply_out_kw(self, kws):
        outs = [a for k, a in kws if k in ('out', 'output') and a.isbuf()]
        for o in outs:
            self.emit_write(o)
        return outs

    def method_call(self, n, base, name, args, kws):
        spec = NP.METHODS.get(name)
        if spec is None:
            fail(n, 'method .%s() has no summary' % name)
        outs = self.apply_out_kw(kws)
        argav = join(*[a for _, a in args] + [a for k, a in kws if k not in ('out', 'output')]) if (args or kws) else NB
        if name == 'astype' and any(k == 'copy' for k, _ in kws):
            spec = 'view'
        if spec == 'scalar':
            res = NB
        elif spec == 'fresh':
            res = AV((), True, 'arr')
        elif spec == 'copy':
            res = AV(base.srcs, True, 'cont', (), None, (), True) if base.kind == 'cont' else AV((), True, base.kind or 'arr')
        elif spec == 'view':
            res = AV(base.srcs, True if base.fresh else False, base.kind if name not in ('get', 'items', 'values') else 'unk')
            if name == 'get' and argav.isbuf():
                res = join(res, argav)
        elif spec == 'write':
            self.emit_write(base)
            res = view_of(base) if name in ('pop', 'popitem') else NB
        elif spec == 'write+hold':
            self.store_into(base, argav)
            res = view_of(base) if name == 'setdefault' else NB
        else:
            fail(n, 'bad method summary %r' % spec)
        return join(res, *outs) if outs else res

    def call_one(self, fn, n, args, kws, scope, fav):
        kind = fn[0]
        if kind == 'ext':
            return self.call_ext(fn[1], n, args, kws, scope)
        if kind == 'abel':
            r = self.w.lookup(fn[1])
            if r is None or r[0] != 'func':
                fail(n, 'cannot find %s' % fn[1])
            return self.call_abel(r[1].name + '.' + r[2].name, r[2], n, args, kws, drop_self=False)
        if kind == 'class':
            return self.call_class(fn[1], n, args, kws)
        if kind == 'closure':
            return self.inline(fn[1], n, fn[2], None, args=args, kws=kws, call_scope=scope)
        if kind == 'selfmethod':
            return self.inline(fn[2], n, scope, scope_root(scope), owner=fn[1][2], is_method=True, args=args, kws=kws, call_scope=scope)
        if kind == 'boundmethod':
            r = self.w.lookup(fn[1])
            if r is None or r[0] != 'method':
                fail(n, 'cannot find method %s' % fn[1])
            return self.call_abel(fn[1], r[3], n, [(None, fn[2])] + args, kws, drop_self=False, method_of=fn[2])
        if kind == 'abelmethod':
            r = self.w.lookup(fn[1])
            decos = [dotted_name(d) for d in r[3].decorator_list]
            if 'classmethod' in decos:
                return self.call_abel(fn[1], r[3], n, [(None, NB)] + args, kws, drop_self=False)
            return self.call_abel(fn[1], r[3], n, args, kws, drop_self=False)
        if kind == 'unknown':
            j = join(*[a for _, a in args] + [a for _, a in kws]) if (args or kws) else NB
            return AV(j.srcs, True, 'unk')
        if kind == 'module':
            fail(n, 'module %s is not callable' % fn[1])
        fail(n, 'cannot call %r' % (fn,))

    def call_ext(self, name, n, args, kws, scope):
        spec = NP.EXT.get(name)
        if name == 'builtins.print' or name.startswith('builtins.') and name.endswith(('Error', 'Warning', 'Exception')):
            return NB
        if name == 'numpy.array' and any(k.arg == 'copy' and not (isinstance(k.value, ast.Constant) and k.value.value is True)
                                         for k in n.keywords):
            spec = 'view:0'             # np.array(x, copy=False / copy=<expr>) may return x itself
        if name == 'builtins.getattr' and args and not args[0][1].isbuf():
            mods = [f for f in args[0][1].funcs if f[0] == 'module' and f[1] in self.w.modules]
            if mods:
                m = self.w.modules[mods[0][1]]
                return AV(funcs=[('abel', m.name + '.' + f) for f in sorted(m.funcs) if not f.startswith('_')])
        if name == 'builtins.dict' and not args:
            j = join(*[a for _, a in kws]) if kws else NB
            return AV(j.srcs, True, 'cont', j.funcs, None, (), True)
        if spec is None:
            fail(n, 'no summary for external callable %s' % name)
        outs = self.apply_out_kw(kws)
        pos = [a for _, a in args]
        allav = join(*(pos + [a for k, a in kws if k not in ('out', 'output')])) if (pos or kws) else NB
        if spec == 'scalar':
            res = NB
        elif spec == 'fresh':
            res = AV((), True, 'arr')
        elif spec == 'view':
            res = AV(allav.srcs, True, 'arr' if all(a.kind == 'arr' for a in pos if a.isbuf()) else 'unk')
        elif spec.startswith('view:'):
            k = int(spec[5:])
            a = pos[k] if k < len(pos) else allav
            res = AV(a.srcs, True, 'arr' if a.kind == 'arr' else 'unk')
        elif spec == 'hold':
            res = AV(allav.srcs, True, 'cont', allav.funcs, pos[0].elems if (len(pos) == 1 and name in ('builtins.list', 'builtins.tuple')) else None, (), True)
            if name in ('builtins.zip', 'builtins.enumerate') and pos:
                # elements are tuples of the elements of the arguments
                el = [view_of(a) if a.elems is None else join(*a.elems) for a in pos]
                if name == 'builtins.enumerate':
                    el = [NB] + el[:1]
                res = AV(allav.srcs, True, 'cont', (), [AV(join(*el).srcs, join(*el).fresh, 'cont', (), el, (), True)], (), True)
        elif spec.startswith('write:'):
            k = int(spec[6:])
            if k < len(pos):
                self.emit_write(pos[k])
                res = view_of(pos[k])
            else:
                res = NB
        elif spec.startswith('ufunc'):
            nin = int(spec[5:])
            extra = [a for a in pos[nin:] if a.isbuf()]
            for o in extra:
                self.emit_write(o)
            outs = outs + extra
            res = AV((), True, 'arr') if not outs else NB
        elif spec.startswith('callback:'):
            k = int(spec[9:])
            others = [a for i, a in enumerate(pos) if i != k] + [a for kk, a in kws]
            data = join(*others) if others else NB
            cbres = NB
            if k < len(pos):
                for fn in pos[k].funcs:
                    cbres = join(cbres, self.call_callback(fn, n, data, scope))
            res = join(AV((), True, 'unk'), cbres)
            res = AV(res.srcs, True, 'unk')
        else:
            fail(n, 'bad summary %r for %s' % (spec, name))
        if outs:
            res = join(res, *outs)
        return res

    def call_callback(self, fn, n, data, scope):
        """an external routine calls fn with new arrays and/or (views of) data"""
        anyarg = AV(data.srcs, True, 'unk')
        if fn[0] == 'closure':
            node = fn[1]
            npar = len(param_list(node))
            return self.inline(node, n, fn[2], None, args=[(None, anyarg)] * npar, kws=[], call_scope=scope, lenient=True)
        if fn[0] == 'abel':
            r = self.w.lookup(fn[1])
            npar = len([p for p in param_list(r[2]) if p[1] == 'pos'])
            return self.call_abel(fn[1], r[2], n, [(None, anyarg)] * npar, [], drop_self=False)
        if fn[0] == 'ext':
            return AV((), True, 'unk')
        if fn[0] in ('boundmethod',):
            r = self.w.lookup(fn[1])
            npar = len([p for p in param_list(r[3]) if p[1] == 'pos']) - 1
            return self.call_abel(fn[1], r[3], n, [(None, fn[2])] + [(None, anyarg)] * npar, [], drop_self=False)
        fail(n, 'callback of kind %s' % fn[0])

    def bind_args(self, plist, n, args, kws, lenient=False):
        """-> {param index: AV}"""
        bound = {}

        def add(i, av):
            bound[i] = join(bound[i], av) if i in bound else av
        npos = [i for i, (nm, role) in enumerate(plist) if role == 'pos']
        vararg = [i for i, (nm, role) in enumerate(plist) if role == 'vararg']
        kwarg = [i for i, (nm, role) in enumerate(plist) if role == 'kwarg']
        names = {nm: i for i, (nm, role) in enumerate(plist) if role in ('pos', 'kwonly')}
        k = 0
        for node, av in args:
            if isinstance(node, ast.Starred):
                for i in npos[k:]:
                    add(i, view_of(av))
                for i in vararg:
                    add(i, view_of(av))
                k = len(npos)
                continue
            if k < len(npos):
                add(npos[k], av)
                k += 1
            elif vararg:
                add(vararg[0], AV(av.srcs, av.fresh, 'cont' if av.isbuf() else None, av.funcs, None, av.cls, True))
            elif not lenient:
                fail(n, 'too many positional arguments')
        explicit = set(bound)
        for name, av in kws:
            if name is None:                       # **d
                for i, (nm, role) in enumerate(plist):
                    if i not in explicit and role in ('pos', 'kwonly', 'kwarg'):
                        add(i, view_of(av))
            elif name in names:
                add(names[name], av)
                explicit.add(names[name])
            elif kwarg:
                add(kwarg[0], AV(av.srcs, av.fresh, 'cont' if av.isbuf() else None, av.funcs, None, av.cls, True))
            elif not lenient:
                fail(n, 'unexpected keyword argument %s' % name)
        return bound

    def call_abel(self, qual, fdef, n, args, kws, drop_self, method_of=None):
        plist = param_list(fdef, drop_self)
        bound = self.bind_args(plist, n, args, kws)
        argvars = []
        for i in range(len(plist)):
            av = bound.get(i)
            argvars.append(self.as_var(av, 'a') if av is not None else None)
        res = self.tmp('c')
        site = self.newsite()
        self.emit(('call', res, qual, argvars, site))
        self.calls.append(qual)
        info = self.w.ensure(qual)
        if info is False:
            fail(n, 'callee %s is not translatable: %s' % (qual, self.w.failed.get(qual, '?')))
        cls = tuple(info['ret_cls']) if info else ()
        self.meta[res] = AV((), False, 'cont' if cls else 'unk', (), None, cls)
        # a method may store its arguments in the object: the region grows
        if method_of is not None:
            links = info.get('links') if info else None
            for i in range(1, len(plist)):
                av = bound.get(i)
                if av is not None and av.isbuf() and (links is None or i in links):
                    self.store_into(method_of, av, write=False)
        return AV([res], False, 'unk', (), None, cls)

    def call_class(self, cq, n, args, kws):
        r = self.w.lookup(cq)
        if r is None or r[0] != 'class':
            fail(n, 'cannot find class %s' % cq)
        init = None
        sub = FuncTranslator.__new__(FuncTranslator)
        sub.w = self.w
        sub.clsq = cq
        m = FuncTranslator.find_member(sub, '__init__', cq)
        if m is None or m[0] != 'method':
            # no constructor inside abel: an empty object
            return AV((), True, 'cont', (), None, [cq], True)
        init = m[2]
        qual = cq + '.__init__'
        plist = param_list(init, True)
        bound = self.bind_args(plist, n, args, kws)
        argvars = []
        for i in range(len(plist)):
            av = bound.get(i)
            argvars.append(self.as_var(av, 'a') if av is not None else None)
        res = self.tmp('o')
        site = self.newsite()
        self.emit(('call', res, qual, argvars, site))
        self.calls.append(qual)
        if self.w.ensure(qual) is False:
            fail(n, 'constructor %s is not translatable: %s' % (qual, self.w.failed.get(qual, '?')))
        self.meta[res] = AV((), False, 'cont', (), None, [cq])
        return AV([res], False, 'cont', (), None, [cq])

    def inline(self, fdef, n, def_scope, self_root, owner=None, is_method=False, args=None, kws=None,
               call_scope=None, lenient=False):
        """expand the body of a nested function / lambda / method of self at the call site"""
        if args is None:
            cs = call_scope or def_scope
            args = [(a, self.expr(a, cs)) for a in n.args]
            kws = [(k.arg, self.expr(k.value, cs)) for k in n.keywords]
        key = id(fdef)
        if key in self.inlining and key in self.inline_frames:
            # recursive call: its arguments flow into the parameters of the running expansion, its result
            # is whatever that expansion returns
            fr = self.inline_frames[key]
            plist_r = fr['plist']
            bound_r = self.bind_args(plist_r, n, args, kws, lenient=True)
            for i, (nm, role) in enumerate(plist_r):
                av = bound_r.get(i)
                if av is not None and av.isbuf():
                    pv = fr['pvars'].get(nm)
                    if pv is None:
                        fail(n, 'recursive call passes an array for a parameter that was a number')
                    self.emit_assign(pv, av)
            fr['recursive'] = True
            return AV([fr['retvar']], False, 'unk')
        if key in self.inlining or self.inline_depth > 12:
            fail(n, 'recursive inlining')
        self.inlining.append(key)
        self.inline_depth += 1
        try:
            idx = self.counter.get('$inl', 0)
            self.counter['$inl'] = idx + 1
            sc = Scope(def_scope, 'i%d:' % idx)
            sc.owner = owner
            sc.is_self_scope = is_method
            sc.root_override = self_root
            if isinstance(fdef, ast.Lambda):
                plist = param_list(fdef)
                dflt = defaults_of(fdef)
            else:
                plist = param_list(fdef, is_method)
                dflt = defaults_of(fdef, is_method)
            bound = self.bind_args(plist, n, args, kws, lenient=lenient)
            for i, (nm, role) in enumerate(plist):
                av = bound.get(i)
                if av is None and nm in dflt:
                    av = self.expr(dflt[nm], def_scope)
                if av is None:
                    av = AV((), True, 'cont', (), None, (), True) if role in ('vararg', 'kwarg') else NB
                if role in ('kwarg', 'vararg') and av is not None:
                    av = AV(av.srcs, True, 'cont', av.funcs, None, (), True)
                if role == 'pos' and not av.isbuf() and not isinstance(fdef, ast.Lambda):
                    # keep a variable for the parameter in case a recursive call passes an array
                    pass
                self.bind(nm, av, sc)
            sc.retvar = self.tmp('ret')
            sc.retmeta = None
            self.inline_frames[key] = dict(plist=plist, pvars={nm: sc.cur[nm] for nm, _ in plist if nm in sc.cur},
                                           retvar=sc.retvar, recursive=False)
            if isinstance(fdef, ast.Lambda):
                av = self.expr(fdef.body, sc)
                return av
            self.stmts(fdef.body, sc)
            rm = sc.retmeta
            if self.inline_frames.get(key, {}).get('recursive') and rm is not None and rm.isbuf():
                rm = AV(rm.srcs, rm.fresh, 'unk', rm.funcs, None, rm.cls)
            if rm is None or not rm.isbuf():
                return rm if rm is not None else NB
            return AV([sc.retvar], False, rm.kind, rm.funcs, rm.elems, rm.cls)
        finally:
            self.inlining.pop()
            self.inline_depth -= 1
            self.inline_frames.pop(key, None)

    # -- whole function -----------------------------------------------------
    def translate(self):
        fn = self.fn
        drop_self = self.ctor
        plist = param_list(fn, drop_self)
        dflt = defaults_of(fn, drop_self)
        scope = Scope(None, '')
        scope.is_self_scope = self.cls is not None
        scope.owner = self.clsq if self.cls is not None else None
        self.params = []
        decos = [dotted_name(d) for d in fn.decorator_list]
        if any(d not in ('staticmethod', 'classmethod', 'property') for d in decos):
            fail(fn, 'decorated function (%s)' % ', '.join(str(d) for d in decos))
        for i, (nm, role) in enumerate(plist):
            pv = '%s#p' % nm
            self.params.append(pv)
            if self.array_params is not None and nm not in self.array_params and role in ('pos', 'kwonly'):
                # a scalar parameter of a public callable (possibly a function, e.g. derivative=gradient)
                dv = NB
                d = dflt.get(nm)
                if isinstance(d, (ast.Name, ast.Attribute)):
                    try:
                        dv = self.expr(d, Scope(None, ''))
                    except Untranslatable:
                        dv = NB
                    dv = AV(funcs=tuple(dv.funcs) + (('unknown',),)) if dv.funcs else NB
                scope.nb[nm] = dv
                continue
            if self.method and i == 0 and 'classmethod' in decos:
                continue
            scope.cur[nm] = pv
            kind = 'cont' if role in ('vararg', 'kwarg') else 'unk'
            cls = [self.clsq] if (self.method and i == 0) else ()
            self.meta[pv] = AV((), False, kind, (), None, cls)
            if role in ('vararg', 'kwarg'):
                # *args / **kwargs are new containers holding (references to) what the caller passed
                self.bind(nm, AV([pv], True, 'cont', (), None, (), True), scope)
            d = dflt.get(nm)
            if d is not None and isinstance(d, (ast.List, ast.Dict, ast.Set)) or \
                    (isinstance(d, ast.Call) and isinstance(d.func, ast.Name) and d.func.id in ('dict', 'list', 'set')):
                # a mutable default object is shared by all calls: a module-level buffer
                self.emit(('if', ('loadg', pv), ('skip',)))
                self.meta[pv] = AV((), False, 'cont', (), None, ())
        if self.method and plist and 'classmethod' not in decos and 'staticmethod' not in decos:
            scope.cur['self'] = self.params[0]
            ci = self.w.ensure(self.clsq + '.__init__')
            if ci:
                self.scalar_fields = set(ci.get('scalar_fields', ()))
        self.stmts(fn.body, scope)
        if self.ctor:
            # the constructed object: everything stored in its attributes
            for k, v in sorted(scope.cur.items()):
                if k.startswith('self.') and not k.startswith('self._'):
                    self.emit(('ret', v))        # (private attributes are not part of the result)
            t = self.tmp('self')
            self.emit(('assign', t, ('fresh', self.newsite())))
            self.emit(('ret', t))
        return self.params, self.seq(self.blocks[0])


def scope_root(scope):
    s = scope
    while s is not None:
        ro = getattr(s, 'root_override', None)
        if ro is not None:
            return ro
        if s.parent is None:
            return s
        s = s.parent
    return scope


def scope_self(scope):
    s = scope
    while s is not None:
        if getattr(s, 'is_self_scope', False):
            return True
        s = s.parent
    return False


def scope_owner(scope):
    s = scope
    while s is not None:
        if getattr(s, 'owner', None):
            return s.owner
        s = s.parent
    return None


def scope_ret(scope):
    s = scope
    while s is not None:
        if s.retvar is not None:
            return s
        s = s.parent
    return None


def dotted_name(n):
    if isinstance(n, ast.Name):
        return n.id
    if isinstance(n, ast.Attribute):
        b = dotted_name(n.value)
        return b + '.' + n.attr if b else None
    return None


def free_names(fdef):
    body = fdef.body if isinstance(fdef.body, list) else [fdef.body]
    names = set()
    for b in body:
        for x in ast.walk(b):
            if isinstance(x, ast.Name) and isinstance(x.ctx, ast.Load):
                names.add(x.id)
    return names


# ------------------------------------------------------- analysis (mirror of Alias.v)

def atoms(c):
    if c[0] in ('seq', 'if'):
        for x in atoms(c[1]):
            yield x
        for x in atoms(c[2]):
            yield x
    elif c[0] == 'loop':
        for x in atoms(c[1]):
            yield x
    else:
        yield c


BOTTOM = dict(writes=(), rets=(), fresh=False, retg=False, stores=(), wglob=False)


def analyze(params, body, summaries):
    pts = {}
    for i, p in enumerate(params):
        pts.setdefault(p, set()).add(('A', i))
    T, W, R = {('G',)}, set(), set()
    at = list(atoms(body))
    changed = True

    def add(s, items):
        n = len(s)
        s |= items
        return len(s) != n
    while changed:
        changed = False
        for c in at:
            k = c[0]
            if k == 'assign':
                e = c[2]
                src = {('S', e[1])} if e[0] == 'fresh' else pts.get(e[1], set())
                changed |= add(pts.setdefault(c[1], set()), set(src))
            elif k == 'write':
                changed |= add(W, set(pts.get(c[1], ())))
            elif k == 'storeg':
                changed |= add(T, set(pts.get(c[1], ())))
            elif k == 'loadg':
                changed |= add(pts.setdefault(c[1], set()), set(T))
            elif k == 'ret':
                changed |= add(R, set(pts.get(c[1], ())))
            elif k == 'call':
                s = summaries.get(c[2], BOTTOM)
                args = c[3]

                def ap(i):
                    return set(pts.get(args[i], ())) if i < len(args) and args[i] is not None else set()
                for i in s['writes']:
                    changed |= add(W, ap(i))
                if s['wglob']:
                    changed |= add(W, set(T))
                for i in s['stores']:
                    changed |= add(T, ap(i))
                x = pts.setdefault(c[1], set())
                for i in s['rets']:
                    changed |= add(x, ap(i))
                if s['retg']:
                    changed |= add(x, set(T))
                if s['fresh']:
                    changed |= add(x, {('S', c[4])})
    return pts, T, W, R


def summary_of(params, T, W, R):
    n = len(params)
    return dict(writes=tuple(i for i in range(n) if ('A', i) in W),
                rets=tuple(i for i in range(n) if ('A', i) in R),
                fresh=any(l[0] == 'S' and l not in T for l in R),
                retg=bool(R & T),
                stores=tuple(i for i in range(n) if ('A', i) in T),
                wglob=bool(W & T))


# ------------------------------------------------------------------ Coq output

def coq_str(s):
    return '"%s"' % s.replace('"', "'")


def coq_summary(s, site):
    return ('{| s_writes := [%s]; s_rets := [%s]; s_fresh := %s; s_retg := %s; s_stores := [%s]; s_wglob := %s |}'
            % ('; '.join(str(i) for i in s['writes']), '; '.join(str(i) for i in s['rets']),
               ('Some %d' % site) if s['fresh'] else 'None', 'true' if s['retg'] else 'false',
               '; '.join(str(i) for i in s['stores']), 'true' if s['wglob'] else 'false'))


def coq_cmd(c, summaries, ind=2):
    sp = ' ' * ind
    k = c[0]
    if k == 'skip':
        return sp + 'Skip'
    if k == 'assign':
        e = c[2]
        ex = 'Fresh %d' % e[1] if e[0] == 'fresh' else ('%s %s' % ('View' if e[0] == 'view' else 'Var', coq_str(e[1])))
        return sp + 'Assign %s (%s)' % (coq_str(c[1]), ex)
    if k == 'write':
        return sp + 'Write %s' % coq_str(c[1])
    if k == 'storeg':
        return sp + 'StoreG %s' % coq_str(c[1])
    if k == 'loadg':
        return sp + 'LoadG %s' % coq_str(c[1])
    if k == 'ret':
        return sp + 'Ret %s' % coq_str(c[1])
    if k == 'call':
        s = summaries.get(c[2], BOTTOM)
        return sp + 'Call %s %s\n%s  %s\n%s  [%s]' % (
            coq_str(c[1]), coq_str(c[2]), sp, coq_summary(s, c[4]), sp,
            '; '.join(coq_str(a if a is not None else '_') for a in c[3]))
    if k == 'seq':
        # flatten right-nested sequences for readability
        items = []
        while c[0] == 'seq':
            items.append(c[1])
            c = c[2]
        items.append(c)
        out = ''
        for it in items[:-1]:
            out += sp + 'Seq (\n' + coq_cmd(it, summaries, ind + 2) + ') (\n'
        out += coq_cmd(items[-1], summaries, ind + 2) + ')' * (len(items) - 1)
        return out
    if k == 'if':
        return sp + 'If (\n' + coq_cmd(c[1], summaries, ind + 2) + ') (\n' + coq_cmd(c[2], summaries, ind + 2) + ')'
    if k == 'loop':
        return sp + 'Loop (\n' + coq_cmd(c[1], summaries, ind + 2) + ')'
    raise ValueError(k)


def ident(q):
    return 'p_' + ''.join(ch if ch.isalnum() else '_' for ch in q)


# --------------------------------------------------------------------- driver

def build(repo=None):
    """Translate every public callable (and, transitively, every abel function
    they call).  Returns dict(progs, summaries, public, failed, world)."""
    repo = repo or vlib.REPO
    w = World(repo)
    w.needed = set()
    w.global_classes = {}
    # classes assigned to module globals (e.g. rbasex._dst = Distributions(...))
    def class_of_call(m, call):
        d = dotted_name(call.func)
        if d is None:
            return None
        head = d.split('.')[0]
        if head in m.classes and '.' not in d:
            return m.name + '.' + d
        if head in m.imports:
            r = w.lookup(m.imports[head] + d[len(head):])
            if r is not None and r[0] == 'class':
                return w.canon(m.imports[head] + d[len(head):])
        return None
    for m in w.modules.values():
        # `g = x` where the local x was built by `x = Cls(...)` in the same function
        for fn in ast.walk(m.tree):
            if not isinstance(fn, ast.FunctionDef):
                continue
            local_cls = {}
            for n in ast.walk(fn):
                if isinstance(n, ast.Assign) and isinstance(n.value, ast.Call):
                    c = class_of_call(m, n.value)
                    if c:
                        for t in n.targets:
                            if isinstance(t, ast.Name):
                                local_cls.setdefault(t.id, set()).add(c)
            for n in ast.walk(fn):
                if isinstance(n, ast.Assign) and isinstance(n.value, ast.Name) and n.value.id in local_cls:
                    for t in n.targets:
                        if isinstance(t, ast.Name) and t.id in m.globals:
                            w.global_classes.setdefault((m.name, t.id), set()).update(local_cls[n.value.id])
        for n in ast.walk(m.tree):
            if isinstance(n, ast.Assign) and isinstance(n.value, ast.Call):
                d = dotted_name(n.value.func)
                if d is None:
                    continue
                head = d.split('.')[0]
                tgt = None
                if head in m.classes and '.' not in d:
                    tgt = m.name + '.' + d
                elif head in m.imports:
                    r = w.lookup(m.imports[head] + d[len(head):])
                    if r is not None and r[0] == 'class':
                        tgt = w.canon(m.imports[head] + d[len(head):])
                if tgt:
                    for t in n.targets:
                        if isinstance(t, ast.Name) and t.id in m.globals:
                            w.global_classes.setdefault((m.name, t.id), set()).add(tgt)
    public = {}
    for mn in SP.MODULES:
        if mn not in w.modules:
            continue
        m = w.modules[mn]
        for name in list(m.funcs) + list(m.classes):
            if not name.startswith('_'):
                public[mn + '.' + name] = True
    progs, failed, infos = {}, {}, {}
    w.progs, w.failed = progs, failed
    w.summ_cache = {}
    inprogress = set()

    def spec_arrays(q):
        s = SP.SPECS.get(q)
        if s is None:
            return None
        return set(s['arrays']) | set(s.get('containers', ()))

    def translator_for(q):
        if q.endswith('.__init__'):
            cq = q[:-9]
            rc = w.lookup(cq)
            if rc is None or rc[0] != 'class':
                raise Untranslatable('cannot find class %s' % cq)
            probe = FuncTranslator.__new__(FuncTranslator)
            probe.w = w
            probe.clsq = cq
            mem = FuncTranslator.find_member(probe, '__init__', cq)
            if mem is None:
                return None, cq
            (mm, cdef, oq), init = mem[1], mem[2]
            ft = FuncTranslator(w, mm, init, q, cls=rc[2], ctor=True, array_params=spec_arrays(cq))
            ft.clsq = cq
            return ft, cq
        r = w.lookup(q)
        if r is None:
            raise Untranslatable('cannot find %s' % q)
        if r[0] == 'func':
            ft = FuncTranslator(w, r[1], r[2], q, array_params=spec_arrays(q))
            ft.clsq = None
            return ft, None
        if r[0] == 'method':
            cq = q.rsplit('.', 1)[0]
            ft = FuncTranslator(w, r[1], r[3], q, cls=r[2], method=True)
            ft.clsq = cq
            return ft, None
        raise Untranslatable('%s is a %s' % (q, r[0]))

    def ensure(q):
        """translate q (a function, a method, or 'Class.__init__') on demand.
        Returns its info dict, None while it is being translated (recursion),
        False when it cannot be translated."""
        if q in infos:
            return infos[q]
        if q in failed:
            return False
        if q in inprogress:
            return None
        inprogress.add(q)
        try:
            ft, cq = translator_for(q)
            if ft is None:            # a class without constructor: an empty object
                progs[q] = ([], ('seq', ('assign', '$self#0', ('fresh', 1)), ('ret', '$self#0')))
                infos[q] = dict(ret_cls={cq})
            else:
                params, body = ft.translate()
                progs[q] = (params, body)
                infos[q] = dict(ret_cls={cq} if cq else set(ft.ret_cls))
                if ft.ctor:
                    infos[q]['scalar_fields'] = {f for f, fa in ft.field_assign.items() if fa['nb'] and not fa['buf']}
                if ft.method and params:
                    # which arguments may end up stored in the object (parameter 0)?
                    summ = {k: summary_of(progs[k][0], *analyze(progs[k][0], progs[k][1], w.summ_cache)[1:]) for k in ()}
                    for k in progs:
                        if k not in w.summ_cache:
                            w.summ_cache[k] = dict(BOTTOM)
                    for _ in range(6):
                        ch = False
                        for k in list(progs):
                            pts_k, T, W, R = analyze(progs[k][0], progs[k][1], w.summ_cache)
                            sk = summary_of(progs[k][0], T, W, R)
                            if sk != w.summ_cache[k]:
                                w.summ_cache[k] = sk
                                ch = True
                        if not ch:
                            break
                    pts_q = analyze(params, body, w.summ_cache)[0]
                    infos[q]['links'] = {j for (kk, *rest) in [tuple(x) for x in pts_q.get(params[0], ())] if kk == 'A' for j in rest if j != 0}
            return infos[q]
        except Untranslatable as e:
            failed[q] = str(e)
            return False
        except RecursionError:
            failed[q] = 'recursion limit'
            return False
        finally:
            inprogress.discard(q)
    w.ensure = ensure

    for q in sorted(public):
        r = w.lookup(q)
        tq = q + '.__init__' if (r is not None and r[0] == 'class') else q
        ensure(tq)
    # public methods of the public classes with a spec (and of the classes nested in them)
    methods, methods_failed = [], {}

    def class_methods(m, cdef, cq):
        for st in cdef.body:
            if isinstance(st, ast.ClassDef) and not st.name.startswith('_'):
                class_methods(m, st, cq + '.' + st.name)
            elif isinstance(st, ast.FunctionDef) and (not st.name.startswith('_') or st.name == '__call__'):
                decos = [dotted_name(d) for d in st.decorator_list]
                if any(d in ('property', 'classmethod', 'staticmethod') for d in decos):
                    continue
                q = cq + '.' + st.name
                if ensure(q) is False:
                    methods_failed[q] = failed.get(q, '?')
                else:
                    methods.append(q)
    for q in sorted(public):
        r = w.lookup(q)
        if r is not None and r[0] == 'class' and q in SP.SPECS:
            probe = FuncTranslator.__new__(FuncTranslator)
            probe.w = w
            probe.clsq = q
            for (mm, cdef, cq) in FuncTranslator.class_chain(probe, q):
                class_methods(mm, cdef, cq)
    methods = sorted(set(methods))
    # summaries: least fixpoint over the call graph
    summaries = {q: dict(BOTTOM) for q in progs}
    for _ in range(50):
        changed = False
        for q, (params, body) in progs.items():
            pts, T, W, R = analyze(params, body, summaries)
            s = summary_of(params, T, W, R)
            if s != summaries[q]:
                summaries[q] = s
                changed = True
        if not changed:
            break
    # callees that could not be translated: the caller cannot be trusted either
    bad_callers = {}
    for q, (params, body) in progs.items():
        for c in atoms(body):
            if c[0] == 'call' and c[2] not in progs:
                bad_callers.setdefault(q, set()).add(c[2])
    return dict(progs=progs, summaries=summaries, public=sorted(public), failed=failed,
                bad_callers=bad_callers, world=w, methods=methods, methods_failed=methods_failed)


def public_key(q):
    return q[:-9] if q.endswith('.__init__') else q


def verdicts(res):
    """python-side preview of safe_args / safe_ret for every translated public callable"""
    out = {}
    for q, (params, body) in res['progs'].items():
        pts, T, W, R = analyze(params, body, res['summaries'])
        out[q] = dict(arg_writes=sorted(i for (k, *r) in [tuple(x) for x in W] if k == 'A' for i in r),
                      returns_cached=bool(R & T),
                      returns_args=sorted(i for (k, *r) in [tuple(x) for x in R] if k == 'A' for i in r))
    return out


HEADER = '''(* AliasProgs.v — GENERATED by tools/translate/alias_prog.py from the sources
   of %s/abel on every run; do not edit.  One program of the buffer language of
   model/Alias.v per translated function; `public_functions` lists the public
   callables, `helper_functions` the library-internal callees. *)
From Coq Require Import List String.
From PA Require Import model.Alias.
Import ListNotations.
Open Scope string_scope.

'''


def generate(repo=None, path=None):
    res = build(repo)
    progs, summaries = res['progs'], res['summaries']
    out = [HEADER % (repo or vlib.REPO)]
    pub, other, helpers = [], [], []
    for q in sorted(progs):
        params, body = progs[q]
        out.append('Definition %s : prog := {| params := [%s]; body :=\n%s |}.\n'
                   % (ident(q), '; '.join(coq_str(p) for p in params), coq_cmd(body, summaries)))
        k = public_key(q)
        if k in res['public'] and (q.endswith('.__init__') or q in res['public']):
            (pub if k in SP.SPECS else other).append(q)
        else:
            helpers.append(q)

    def lst(name, qs, comment):
        return '(* %s *)\nDefinition %s : list (string * prog) := [\n  %s].\n' % (
            comment, name, ';\n  '.join('(%s, %s)' % (coq_str(public_key(q)), ident(q)) for q in qs))
    out.append(lst('public_functions', pub, 'public callables that take part in property C18 (they have an argument spec)'))
    out.append(lst('other_public_functions', other, 'public callables without array/dict arguments (administration, timing, file names)'))
    out.append('(* library-internal callees, under the names used by the Call commands *)\n'
               'Definition callee_functions : list (string * prog) := [\n  %s].\n'
               % ';\n  '.join('(%s, %s)' % (coq_str(q), ident(q)) for q in sorted(progs)))
    out.append('(* public methods of the public classes, translated with self as parameter 0 *)\n'
               'Definition public_methods : list (string * prog) := [\n  %s].\n'
               % ';\n  '.join('(%s, %s)' % (coq_str(q), ident(q)) for q in res['methods']))
    untr = sorted(res['failed'])
    out.append('(* not translated (reported by the check, never skipped silently):\n%s *)\n'
               % '\n'.join('   %s : %s' % (q, res['failed'][q].replace('*)', '* )')) for q in untr))
    text = '\n'.join(out)
    vlib.write_if_changed(path or os.path.join(vlib.COQ, 'gen', 'AliasProgs.v'), text)
    res['public_translated'] = [public_key(q) for q in pub]
    return res


def known_static_exceptions():
    """exceptions of safe_all_public, derived from the committed KNOWN_FINDINGS.json
    (keys 'C18:args:<callable>:...' and 'C18:result-mutation:<callable>:...')"""
    writers, returners = set(), set()
    kfs = list(vlib.known_findings('C18'))
    extra = os.environ.get('VERIF_C18_EXTRA_FINDINGS')       # self-test only: proposed, not yet merged entries
    if extra:
        import json
        kfs += [f for f in json.load(open(extra)).get('findings', []) if f.get('property') == 'C18']
    for kf in kfs:
        parts = kf.get('key', '').split(':')
        if len(parts) >= 3 and parts[0] == 'C18':
            if parts[1] == 'args':
                writers.add(parts[2])
            elif parts[1] == 'result-mutation':
                returners.add(parts[2])
    return sorted(writers), sorted(returners)


def generate_exceptions(path=None, res=None):
    writers, returners = known_static_exceptions()
    accessors = sorted(k for k, v in SP.SPECS.items() if v.get('cache_accessor'))
    unproved = []
    for k in sorted(SP.ALIAS_UNPROVED_ARGS):
        names = SP.ALIAS_UNPROVED_ARGS[k][0]
        prog = None
        if res is not None:
            prog = res['progs'].get(k) or res['progs'].get(k + '.__init__')
        params = [q.rsplit('#', 1)[0] for q in prog[0]] if prog else []
        pos = [params.index(nm) for nm in names if nm in params]      # a missing name is simply not exempt
        if prog:
            # exempt only what the checker still rejects (an exemption that is no longer needed disappears)
            pts_, T_, W_, R_ = analyze(prog[0], prog[1], res['summaries'])
            pos = [i for i in pos if ('A', i) in W_]
        if pos:
            unproved.append((k, pos))

    def lst(name, items, comment):
        return '(* %s *)\nDefinition %s : list string := [%s].\n' % (comment, name, '; '.join(coq_str(x) for x in items))
    # argument positions a public callable may hand back: committed by-design list + recorded findings
    # (KNOWN_FINDINGS keys C18:result-aliases-arg:<callable>:...), only where the checker still rejects
    retarg = []
    if res is not None:
        recorded_ra = {kf.get('key', '').split(':')[2] for kf in vlib.known_findings('C18')
                       if kf.get('key', '').startswith('C18:result-aliases-arg:')}
        extra = os.environ.get('VERIF_C18_EXTRA_FINDINGS')
        if extra:
            import json
            recorded_ra |= {f['key'].split(':')[2] for f in json.load(open(extra)).get('findings', [])
                            if f.get('key', '').startswith('C18:result-aliases-arg:')}
        for k in sorted(set(SP.ALIAS_RETURNS_ARG) | recorded_ra):
            prog = res['progs'].get(k) or res['progs'].get(k + '.__init__')
            if not prog:
                continue
            params = [q.rsplit('#', 1)[0] for q in prog[0]]
            pts_, T_, W_, R_ = analyze(prog[0], prog[1], res['summaries'])
            rej = [i for i in range(len(params)) if ('A', i) in R_]
            if k in recorded_ra:
                pos = rej
            else:
                pos = [i for i in rej if params[i] in SP.ALIAS_RETURNS_ARG[k][0]]
            if pos:
                retarg.append((k, pos))
    mex = []
    if res is not None:
        kfs = list(vlib.known_findings('C18'))
        recorded = [kf.get('key', '') for kf in kfs if kf.get('key', '').startswith('C18:object-')]
        for q in res['methods']:
            params, body = res['progs'][q]
            pts_, T_, W_, R_ = analyze(params, body, res['summaries'])
            rejected = any(l[0] == 'A' and l[1] != 0 for l in W_) or bool(R_ & T_) or ('A', 0) in R_
            if not rejected:
                continue
            short = q.rsplit('.', 1)[1]
            known = any(('.%s(' % short) in k and k.split(':')[2] in q for k in recorded)
            if known or q in SP.ALIAS_METHOD_UNPROVED:
                mex.append(q)
    text = ('(* AliasExceptions.v — GENERATED by tools/translate/alias_prog.py from\n'
            '   /verif/KNOWN_FINDINGS.json (recorded C18 findings) and the committed list\n'
            '   ALIAS_UNPROVED_ARGS of tools/translate/_alias_specs.py; do not edit. *)\n'
            'From Coq Require Import List String.\nImport ListNotations.\nOpen Scope string_scope.\n\n'
            + lst('known_arg_writers', writers, 'recorded findings: the callable writes into an argument (safe_args is refuted)')
            + lst('known_cache_returners', returners, 'recorded findings: a returned array is held by a module-level cache (safe_ret is refuted)')
            + '(* argument positions for which safe_args is not established (analysis too coarse: see\n'
              '   ALIAS_UNPROVED_ARGS in _alias_specs.py); covered dynamically *)\n'
              'Definition unproved_args : list (string * list nat) := [%s].\n'
              % '; '.join('(%s, [%s])' % (coq_str(k), '; '.join(str(i) for i in pos)) for k, pos in unproved)
            + '(* argument positions whose buffer the callable may hand back (by design, see ALIAS_RETURNS_ARG in\n'
              '   _alias_specs.py, or recorded finding) *)\n'
              'Definition returned_args_allowed : list (string * list nat) := [%s].\n'
              % '; '.join('(%s, [%s])' % (coq_str(k), '; '.join(str(i) for i in pos)) for k, pos in retarg)
            + lst('method_exempt', mex, 'public methods the checker rejects: recorded findings (KNOWN_FINDINGS keys C18:object-...) '
                  'or analysis too coarse (ALIAS_METHOD_UNPROVED in _alias_specs.py)')
            + lst('cache_accessors', accessors, 'documented cache accessors: returning the cached arrays is their purpose'))
    vlib.write_if_changed(path or os.path.join(vlib.COQ, 'gen', 'AliasExceptions.v'), text)
    return dict(writers=writers, returners=returners, unproved=[k for k, _ in unproved],
                unproved_positions=dict(unproved), accessors=accessors, method_exempt=mex,
                returned_args_allowed=dict(retarg))


_generate_progs = generate


def generate(repo=None):           # entry point used by tools/gen_all.py
    res = _generate_progs(repo)
    res['exceptions'] = generate_exceptions(res=res)
    return res


if __name__ == '__main__':
    res = build()
    v = verdicts(res)
    print('translated', len(res['progs']), 'failed', len(res['failed']))
    for q, why in sorted(res['failed'].items()):
        print('  FAILED%s %s: %s' % ('*' if required(q) else ' ', q, why))
    for q in sorted(v):
        if v[q]['arg_writes'] or v[q]['returns_cached']:
            print('  UNSAFE', q, v[q], 'params', res['progs'][q][0])
