# center_prep_src.py — fail-closed translator: the origin preprocessing of
# set_center (abel/tools/center.py, the body of `for a in [0, 1]:`)
#   -> coq/gen/CenterPrepGen.v
#
# Re-generates from the Python AST of the *current* source
#   prep_axis_gen n order o : Z * Q * Z
#     = (origin[a], subpixel[a], origin_[a]) after the else-branch of the loop
#       body for one axis of length n whose origin component is the number o,
# with a small typed symbolic execution: origin[a] starts as a rational (Q:
# Python int or float) and becomes an integer (Z) after int(...)/int(round(...)).
# coq/proofs/CenterPrepGenEq.v proves that it is the hand-written prep_axis of
# model/Center.v (plus origin_ = shape - 1 - origin).
#
# Supported subset (anything else raises Unsupported = the tie is broken):
#   x = e, x += e, `a, b = e1, e2` on the per-axis cells origin[a], subpixel[a],
#   origin_[a] and local names; e built from those cells, shape[a], integer
#   constants, + -, int(e), round(e); if / else on `cell < const` and on the
#   truth value of `order`.  The statements around the else-branch (axes
#   normalisation, array set-up, the None / not-selected test, the
#   `np.all(subpixel == 0)` reset) must be exactly the recorded ones.
import ast
import os

import vlib


class Unsupported(Exception):
    pass


SETUP = ["if isinstance(axes, int):\n    axes = [axes]", "axes = set(axes)", "origin = np.array(origin, dtype=object)",
         "subpixel = np.zeros(2)", "origin_ = [None, None]"]
LOOP_HEAD = ("for a in [0, 1]:", "origin[a] is None or a not in axes", ["axes.discard(a)"])
AFTER_TEST = "np.all(subpixel == 0)"
AFTER_BODY = ["order = 0"]
CELLS = {'origin[a]': 'origin_a', 'subpixel[a]': 'subpixel_a', 'origin_[a]': 'origin__a', 'shape[a]': 'shape_a'}


def src(n):
    return ast.unparse(n)


class Tr:
    def __init__(self):
        # variable -> type ('Q' rational, 'Z' integer)
        self.env = {'origin[a]': 'Q', 'subpixel[a]': 'Q', 'shape[a]': 'Z'}

    def name(self, key):
        return CELLS.get(key, key)

    def key(self, n):
        if isinstance(n, ast.Name):
            return n.id
        if isinstance(n, ast.Subscript) and src(n) in CELLS:
            return src(n)
        raise Unsupported('variable: ' + src(n))

    def q(self, e):
        c, t = e
        return c if t == 'Q' else 'inject_Z %s' % c if c.isidentifier() else 'inject_Z (%s)' % c

    def expr(self, n):
        if isinstance(n, ast.Constant) and type(n.value) is int:
            return ('(%d)%%Z' % n.value, 'Z')
        if isinstance(n, (ast.Name, ast.Subscript)):
            k = self.key(n)
            if k not in self.env:
                raise Unsupported('not bound here: ' + k)
            return (self.name(k), self.env[k])
        if isinstance(n, ast.BinOp) and isinstance(n.op, (ast.Add, ast.Sub)):
            a, b = self.expr(n.left), self.expr(n.right)
            op = '+' if isinstance(n.op, ast.Add) else '-'
            if a[1] == 'Z' and b[1] == 'Z':
                return ('(%s %s %s)%%Z' % (a[0], op, b[0]), 'Z')
            return ('(%s %s %s)%%Q' % (self.q(a), op, self.q(b)), 'Q')
        if isinstance(n, ast.Call) and isinstance(n.func, ast.Name) and len(n.args) == 1 and not n.keywords:
            a = self.expr(n.args[0])
            if n.func.id == 'int':
                return a if a[1] == 'Z' else ('(qtrunc %s)' % a[0], 'Z')
            if n.func.id == 'round':
                return a if a[1] == 'Z' else ('(qround_even %s)' % a[0], 'Z')
        raise Unsupported('expression: ' + src(n))

    def cond(self, n):
        if isinstance(n, ast.Name) and n.id == 'order':
            return '(negb (Nat.eqb order 0))'
        if isinstance(n, ast.Compare) and len(n.ops) == 1 and isinstance(n.ops[0], ast.Lt):
            a, b = self.expr(n.left), self.expr(n.comparators[0])
            if a[1] == 'Z' and b[1] == 'Z':
                return '(%s <? %s)%%Z' % (a[0], b[0])
            return '(negb (Qle_bool (%s) (%s)))' % (self.q(b), self.q(a))      # a < b  <=>  not (b <= a)
        raise Unsupported('condition: ' + src(n))

    def assigned(self, stmts):
        out = []
        for s in stmts:
            if isinstance(s, ast.Assign) and len(s.targets) == 1:
                t = s.targets[0]
                ks = [self.key(e) for e in t.elts] if isinstance(t, ast.Tuple) else [self.key(t)]
            elif isinstance(s, ast.AugAssign):
                ks = [self.key(s.target)]
            elif isinstance(s, ast.If):
                ks = self.assigned(s.body) + self.assigned(s.orelse)
            else:
                raise Unsupported('statement: ' + src(s)[:80])
            out += [k for k in ks if k not in out]
        return out

    def block(self, stmts, result):
        if not stmts:
            for k in result:
                if k not in self.env:
                    raise Unsupported('not bound on every path: ' + k)
            return '(' + ', '.join(self.name(k) for k in result) + ')' if len(result) > 1 else self.name(result[0])
        s, rest = stmts[0], stmts[1:]
        if isinstance(s, ast.Assign) and len(s.targets) == 1 and not isinstance(s.targets[0], ast.Tuple):
            k = self.key(s.targets[0])
            e = self.expr(s.value)
            self.env[k] = e[1]
            return 'let %s := %s in\n  %s' % (self.name(k), e[0], self.block(rest, result))
        if isinstance(s, ast.Assign) and len(s.targets) == 1 and isinstance(s.value, ast.Tuple) \
                and len(s.value.elts) == len(s.targets[0].elts):
            ks = [self.key(e) for e in s.targets[0].elts]
            es = [self.expr(e) for e in s.value.elts]          # right-hand side first (old values)
            for k, e in zip(ks, es):
                self.env[k] = e[1]
            return "let '(%s) := (%s) in\n  %s" % (', '.join(self.name(k) for k in ks), ', '.join(e[0] for e in es),
                                                 self.block(rest, result))
        if isinstance(s, ast.AugAssign) and isinstance(s.op, (ast.Add, ast.Sub)):
            k = self.key(s.target)
            e = self.expr(ast.BinOp(left=s.target, op=s.op, right=s.value))
            self.env[k] = e[1]
            return 'let %s := %s in\n  %s' % (self.name(k), e[0], self.block(rest, result))
        if isinstance(s, ast.If):
            c = self.cond(s.test)
            before = dict(self.env)
            vs = [k for k in self.assigned(s.body) + self.assigned(s.orelse)]
            vs = [k for i, k in enumerate(vs) if k not in vs[:i]]
            self.env = dict(before)
            try:
                tb = self.block(s.body, vs)
                tenv = self.env
                self.env = dict(before)
                eb = self.block(s.orelse, vs)
                eenv = self.env
            except Unsupported as e:
                # a variable assigned in one branch only and unknown before: local to that branch
                local = [k for k in vs if k not in before and not (k in self.assigned(s.body) and k in self.assigned(s.orelse))]
                if not local:
                    raise
                vs = [k for k in vs if k not in local]
                self.env = dict(before)
                tb = self.block(s.body, vs)
                tenv = self.env
                self.env = dict(before)
                eb = self.block(s.orelse, vs)
                eenv = self.env
            for k in vs:
                if tenv[k] != eenv[k]:
                    raise Unsupported('%s has type %s in one branch and %s in the other' % (k, tenv[k], eenv[k]))
            self.env = dict(before)
            for k in vs:
                self.env[k] = tenv[k]
            pat = self.name(vs[0]) if len(vs) == 1 else "'(" + ', '.join(self.name(k) for k in vs) + ')'
            return 'let %s := if %s then (%s) else (%s) in\n  %s' % (pat, c, tb, eb, self.block(rest, result))
        raise Unsupported('statement: ' + src(s)[:80])


HEADER = '''(* GENERATED by tools/translate/center_prep_src.py from %s -- do not edit.
   Regenerated from the current source on every run of the checks. *)
From Coq Require Import List Arith Bool ZArith QArith Qround.
From PA Require Import base.Arr model.Center.
Local Open Scope nat_scope.

'''


def loop_else_body():
    path = os.path.join(vlib.REPO, 'abel', 'tools', 'center.py')
    tree = ast.parse(open(path).read())
    fns = {f.name: f for f in tree.body if isinstance(f, ast.FunctionDef)}
    body = fns['set_center'].body
    idx = next((i for i, s in enumerate(body) if isinstance(s, ast.For)), None)
    if idx is None:
        raise Unsupported('preprocessing loop not found')
    loop = body[idx]
    if 'for %s in %s:' % (src(loop.target), src(loop.iter)) != LOOP_HEAD[0] or loop.orelse or len(loop.body) != 1:
        raise Unsupported('loop header changed')
    if [src(s) for s in body[idx - len(SETUP):idx]] != SETUP:
        raise Unsupported('set-up statements before the loop changed: %r' % [src(s)[:40] for s in body[idx - len(SETUP):idx]])
    test = loop.body[0]
    if not isinstance(test, ast.If) or src(test.test) != LOOP_HEAD[1] or [src(s) for s in test.body] != LOOP_HEAD[2]:
        raise Unsupported('None / not-selected test of the loop changed')
    after = body[idx + 1]
    if not isinstance(after, ast.If) or src(after.test) != AFTER_TEST or [src(s) for s in after.body] != AFTER_BODY:
        raise Unsupported('whole-pixel reset after the loop changed')
    return test.orelse


def generate():
    e = Tr().block(loop_else_body(), ['origin[a]', 'subpixel[a]', 'origin_[a]'])
    text = HEADER % 'abel/tools/center.py (set_center, origin preprocessing)'
    text += ('Definition prep_axis_gen (n : nat) (order : nat) (o : Q) : Z * Q * Z :=\n'
             '  let shape_a := Z.of_nat n in let origin_a := o in let subpixel_a := 0%%Q in\n  %s.\n' % e)
    vlib.write_if_changed(os.path.join(vlib.COQ, 'gen', 'CenterPrepGen.v'), text)
    return text


if __name__ == '__main__':
    print(generate())
