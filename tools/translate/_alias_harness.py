# Dynamic C18 harness, kept as *source text* so that the very same code runs
# inside tools/props/C18.py, in the fresh-process repeats, and inside the
# stand-alone replay snippets (which must not import anything from /verif).
HARNESS_SRC = r'''
import copy, hashlib, inspect, os, sys, types, warnings
import numpy as np
warnings.simplefilter('ignore')
os.environ.setdefault('MPLBACKEND', 'Agg')

_REAL_EMPTY, _REAL_EMPTY_LIKE = np.empty, np.empty_like
_FILL = [None]            # None: real np.empty; else the value written into "uninitialised" memory

def _fill(a):
    v = _FILL[0]
    if v is not None and isinstance(a, np.ndarray) and a.size:
        try:
            if a.dtype.kind in 'fc':
                a.fill(v)
            elif a.dtype.kind in 'iu':
                a.fill(int(abs(v)) % 97 + 1 if v == v else 113)
            elif a.dtype.kind == 'b':
                a.fill(bool(v == v))
        except Exception:
            pass
    return a

def _empty(*a, **k):
    return _fill(_REAL_EMPTY(*a, **k))

def _empty_like(*a, **k):
    return _fill(_REAL_EMPTY_LIKE(*a, **k))

np.empty, np.empty_like = _empty, _empty_like      # every np.empty(...) of the library goes through here


class Factory(object):
    """Builds the arguments of one call.  variant = (dtype, layout):
    dtype 'f64' | 'f32' | 'int';  layout 'C' | 'strided' | 'readonly' | 'ro-strided'.
    Every array handed out is recorded with the bytes of its *base* buffer."""

    def __init__(self, variant, seed):
        self.dtype, self.layout = variant
        self.rng = np.random.default_rng(seed)
        self.made = []          # (label, array, base, bytes before)
        self.dicts = []         # (label, dict, deep copy)

    def _wrap(self, label, a, force_dtype=None, plain=False):
        a = np.asarray(a)
        if force_dtype is None and a.dtype.kind == 'f':
            if self.dtype == 'f32':
                a = a.astype(np.float32)
            elif self.dtype == 'int':
                a = np.round(a).astype(np.int64)
        elif force_dtype is not None:
            a = a.astype(force_dtype)
        if not plain and 'strided' in self.layout and a.ndim >= 1:
            big = np.zeros(tuple(2 * s for s in a.shape), dtype=a.dtype)
            big += 7
            view = big[tuple(slice(None, None, 2) for _ in a.shape)]
            view[...] = a
            base, arr = big, view
        else:
            base = np.array(a, copy=True, order='C')
            arr = base
        if not plain and self.layout in ('readonly', 'ro-strided'):
            base.flags.writeable = False
            if arr is not base:
                arr.flags.writeable = False
        self.made.append((label, arr, base, base.tobytes()))
        return arr

    # --- images ---------------------------------------------------------
    def img(self, rows, cols, label='IM', kind='ring', **kw):
        """smooth positive test image: Gaussian ring(s) centred on the image"""
        y, x = np.mgrid[0:rows, 0:cols].astype(float)
        r = np.hypot(y - rows // 2, x - cols // 2)
        c = (y - rows // 2) / np.maximum(r, 1e-9)
        R = min(rows, cols) / 2.0
        a = 100 * np.exp(-(r - 0.55 * R) ** 2 / (0.02 * R * R + 1.0)) * (1 + 0.5 * c * c) \
            + 40 * np.exp(-r * r / (0.1 * R * R + 1.0))
        a = a + self.rng.random((rows, cols))
        return self._wrap(label, a, **kw)

    def sym(self, rows, cols, label='IM', **kw):
        """noise-free image, exactly symmetric about (rows // 2, cols // 2) when both sizes are odd
        (centre of mass, convolution and Gaussian-fit centres coincide with the geometric centre)"""
        y, x = np.mgrid[0:rows, 0:cols].astype(float)
        r2 = (y - rows // 2) ** 2 + (x - cols // 2) ** 2
        R = min(rows, cols) / 2.0
        a = np.round(100 * np.exp(-r2 / (0.18 * R * R)) + 20 * np.exp(-(np.sqrt(r2) - 0.6 * R) ** 2 / 4.0), 3)
        return self._wrap(label, a, **kw)

    def half(self, rows, cols, label='IM', **kw):
        """right-side half image (origin at column 0, centre row)"""
        y, x = np.mgrid[0:rows, 0:cols].astype(float)
        r = np.hypot(y - rows // 2, x)
        R = max(min(rows / 2.0, cols), 1.0)
        a = 100 * np.exp(-(r - 0.5 * R) ** 2 / (0.02 * R * R + 1.0)) + self.rng.random((rows, cols))
        return self._wrap(label, a, **kw)

    def rand(self, *shape, **kw):
        label = kw.pop('label', 'A')
        lo, hi = kw.pop('lo', 0.0), kw.pop('hi', 10.0)
        return self._wrap(label, lo + (hi - lo) * self.rng.random(shape), **kw)

    def arr(self, values, label='A', **kw):
        return self._wrap(label, np.array(values, dtype=float), **kw)

    def arange(self, n, label='r', step=1.0, start=0.0, **kw):
        return self._wrap(label, start + step * np.arange(n, dtype=float), **kw)

    def gauss(self, n, label='x', **kw):
        x = np.arange(n, dtype=float)
        return self._wrap(label, 50 * np.exp(-(x - 0.45 * n) ** 2 / (0.01 * n * n + 2)) + 1 + self.rng.random(n) * 0.1, **kw)

    # --- containers -----------------------------------------------------
    def dict(self, d, label='options'):
        self.dicts.append((label, d, copy.deepcopy(d)))
        return d

    def list(self, l, label='list'):
        self.dicts.append((label, l, copy.deepcopy(l)))
        return l

    # --- after the call -------------------------------------------------
    def changed(self):
        out = []
        for label, arr, base, before in self.made:
            if base.tobytes() != before:
                out.append(label)
        for label, d, before in self.dicts:
            if not _deep_eq(d, before):
                out.append(label)
        return out


def _deep_eq(a, b):
    if isinstance(a, np.ndarray) or isinstance(b, np.ndarray):
        return isinstance(a, np.ndarray) and isinstance(b, np.ndarray) and a.dtype == b.dtype \
            and a.shape == b.shape and a.tobytes() == b.tobytes()
    if type(a) is not type(b):
        return False
    if isinstance(a, dict):
        return list(a.keys()) == list(b.keys()) and all(_deep_eq(a[k], b[k]) for k in a)
    if isinstance(a, (list, tuple)):
        return len(a) == len(b) and all(_deep_eq(x, y) for x, y in zip(a, b))
    try:
        return bool(a == b) or (a != a and b != b)
    except Exception:
        return a is b


def _is_abel_obj(o):
    return type(o).__module__.split('.')[0] == 'abel' and not isinstance(o, (type, types.FunctionType, types.ModuleType))


def leaves(o, path='result', seen=None, depth=0, private=False):
    """(path, ndarray) for every array reachable from a result through tuples,
    lists, dicts and attributes of objects of abel classes."""
    if seen is None:
        seen = set()
    out = []
    if id(o) in seen or depth > 6:
        return out
    seen.add(id(o))
    if isinstance(o, np.ndarray):
        if o.dtype != object:
            out.append((path, o))
        else:
            for i, x in enumerate(o.ravel().tolist()):
                out += leaves(x, '%s[%d]' % (path, i), seen, depth + 1, private)
    elif isinstance(o, (tuple, list)):
        for i, x in enumerate(o):
            out += leaves(x, '%s[%d]' % (path, i), seen, depth + 1, private)
    elif isinstance(o, dict):
        for k in o:
            out += leaves(o[k], '%s[%r]' % (path, k), seen, depth + 1, private)
    elif _is_abel_obj(o):
        try:
            d = vars(o)
        except TypeError:
            d = {}
        for k in sorted(d):
            if private or not k.startswith('_'):        # private attributes are not part of the result
                out += leaves(d[k], '%s.%s' % (path, k), seen, depth + 1, private)
    return out


def digest(o, path='result', depth=0, seen=None):
    """Flat, bit-exact description of a result: a tuple of (path, description)
    for every scalar/array reachable (arrays by dtype, shape and a hash of
    their bytes; every NaN is canonicalised to the same quiet NaN first)."""
    if seen is None:
        seen = set()
    if isinstance(o, np.generic):
        o = np.asarray(o)
    if isinstance(o, np.ndarray) and o.dtype != object:
        a = np.ascontiguousarray(o)
        if a.dtype.kind in 'fc':
            a = a.copy()
            a[a != a] = np.nan
        return ((path, ('ndarray', str(a.dtype), tuple(a.shape), hashlib.sha1(a.tobytes()).hexdigest()[:16])),)
    if isinstance(o, float):
        return ((path, ('float', 'nan' if o != o else o.hex())),)
    if isinstance(o, (bool, int, str, bytes, type(None), complex)):
        return ((path, (type(o).__name__, repr(o))),)
    if id(o) in seen or depth > 6:
        return ((path, ('...',)),)
    seen.add(id(o))
    out = ()
    if isinstance(o, np.ndarray):
        for i, x in enumerate(o.ravel().tolist()):
            out += digest(x, '%s[%d]' % (path, i), depth + 1, seen)
        return ((path, ('objarray', tuple(o.shape))),) + out
    if isinstance(o, (tuple, list)):
        for i, x in enumerate(o):
            out += digest(x, '%s[%d]' % (path, i), depth + 1, seen)
        return ((path, (type(o).__name__, len(o))),) + out
    if isinstance(o, dict):
        for k in o:
            out += digest(o[k], '%s[%r]' % (path, k), depth + 1, seen)
        return ((path, ('dict', len(o))),) + out
    if _is_abel_obj(o):
        try:
            d = vars(o)
        except TypeError:
            d = {}
        for k in sorted(d):
            out += digest(d[k], '%s.%s' % (path, k), depth + 1, seen)
        return ((path, (type(o).__name__,)),) + out
    return ((path, ('opaque', type(o).__name__)),)


def diff_paths(d1, d2):
    """paths at which two digests differ"""
    a, b = dict(d1), dict(d2)
    return [p for p in list(a) + [q for q in b if q not in a] if a.get(p) != b.get(p)]


def trash(o):
    """what a caller may do with a result: overwrite every array it can reach"""
    n = 0
    for path, a in leaves(o):
        try:
            if a.size and a.flags.writeable:
                if a.dtype.kind in 'fc':
                    a[...] = -7.25e11
                elif a.dtype.kind in 'iu':
                    a[...] = 101
                elif a.dtype.kind == 'b':
                    a[...] = ~a
                n += 1
        except Exception:
            pass
    return n


def one_call(call_src, variant, seed, fill, env=None):
    """Evaluate the call expression once on freshly built arguments."""
    import abel, abel.tools.vmi, abel.tools.center, abel.tools.symmetry, abel.tools.polar, \
        abel.tools.circularize, abel.tools.analytical, abel.tools.polynomial, abel.tools.math, \
        abel.tools.transform_pairs, abel.tools.io, abel.benchmark
    A = Factory(variant, seed)
    g = dict(abel=abel, np=np, A=A, os=os)
    if env:
        g.update(env)
    _FILL[0] = fill
    exc = None
    res = None
    try:
        with np.errstate(all='ignore'):
            res = eval(call_src, g)
    except Exception as e:       # noqa
        exc = e
    finally:
        _FILL[0] = None
    return A, res, exc


def exc_digest(e):
    return (('result', ('raised', type(e).__name__)),)


def is_readonly_error(e):
    return isinstance(e, ValueError) and ('read-only' in str(e) or 'not writeable' in str(e) or 'WRITEABLE' in str(e))


def trash_args(A):
    """what a caller may do with its own arrays after a call: reuse them for something else"""
    n = 0
    for label, arr, base, before in A.made:
        try:
            base.flags.writeable = True
            if base.size:
                if base.dtype.kind in 'fc':
                    base[...] = 3.75e9
                elif base.dtype.kind in 'iu':
                    base[...] = 77
                elif base.dtype.kind == 'b':
                    base[...] = ~base
                n += 1
        except Exception:
            pass
    return n


def check_case(call_src, variant, seed, clauses=('args', 'repeat', 'uninit', 'result-mutation', 'arg-reuse', 'result-aliases-arg')):
    """Run the C18 clauses for one call on one argument variant.
    Returns (failures, info): failures = list of (clause, detail)."""
    fails = []
    A1, r1, e1 = one_call(call_src, variant, seed, float('nan'))
    d1 = exc_digest(e1) if e1 is not None else digest(r1)
    info = dict(outcome='raised ' + type(e1).__name__ if e1 is not None else 'ok', digest=d1,
                n_arrays=len(A1.made), n_leaves=len(leaves(r1)) if e1 is None else 0)
    ch = A1.changed()
    if ch:
        fails.append(('args', 'argument(s) %s modified by the call' % ', '.join(ch)))
    if e1 is not None and is_readonly_error(e1):
        fails.append(('args', 'the call writes into a read-only argument (%s)' % str(e1)[:80]))
        return fails, info
    if 'result-aliases-arg' in clauses and e1 is None:
        # no array reachable from the result may share memory with an array the caller passed
        sh = shared(leaves(r1), [(label, base) for label, arr, base, before in A1.made])
        if sh:
            fails.append(('result-aliases-arg', '%s shares memory with the argument %s' % sh[0]))
    if 'repeat' in clauses or 'uninit' in clauses:
        A2, r2, e2 = one_call(call_src, variant, seed, float('nan'))
        d2 = exc_digest(e2) if e2 is not None else digest(r2)
        if d2 != d1:
            fails.append(('repeat', 'second identical call differs at %s' % ', '.join(diff_paths(d1, d2)[:4])))
        A3, r3, e3 = one_call(call_src, variant, seed, 12345.678)
        d3 = exc_digest(e3) if e3 is not None else digest(r3)
        if d3 != d1 and d2 == d1:
            fails.append(('uninit', 'result depends on the contents of np.empty memory at %s'
                          % ', '.join(diff_paths(d1, d3)[:4])))
        if A2.changed() or A3.changed():
            if not ch:
                fails.append(('args', 'argument(s) %s modified by a repeated call' % ', '.join(A2.changed() + A3.changed())))
    else:
        r2 = r3 = None
    if 'result-mutation' in clauses and e1 is None:
        n = trash(r1) + (trash(r2) if r2 is not None else 0) + (trash(r3) if r3 is not None else 0)
        info['trashed'] = n
        if n:
            A4, r4, e4 = one_call(call_src, variant, seed, float('nan'))
            d4 = exc_digest(e4) if e4 is not None else digest(r4)
            if d4 != d1:
                fails.append(('result-mutation', 'after the caller overwrote the returned arrays, the next '
                              'identical call differs at %s' % ', '.join(diff_paths(d1, d4)[:4])))
    if 'arg-reuse' in clauses and e1 is None:
        # the library must not keep references to the caller's arrays: after the caller reused
        # (overwrote) the arrays it had passed, an identical call on new arrays gives the same result
        if trash_args(A1):
            A5, r5, e5 = one_call(call_src, variant, seed, float('nan'))
            d5 = exc_digest(e5) if e5 is not None else digest(r5)
            if d5 != d1 and not any(f[0] in ('repeat', 'result-mutation') for f in fails):
                fails.append(('arg-reuse', 'after the caller overwrote the arrays it had passed, an identical call on '
                              'new arrays with the same contents differs at %s' % ', '.join(diff_paths(d1, d5)[:4])))
    return fails, info


def shared(la, lb):
    """pairs (path a, path b) of arrays that share memory"""
    out = []
    for pa, a in la:
        if not a.size:
            continue
        for pb, b in lb:
            if b.size and np.may_share_memory(a, b) and np.shares_memory(a, b):
                out.append((pa, pb))
                break
    return out


def check_object(ctor_src, use_src, variant, seed):
    """C18 on a REUSED object: construct once (ctor_src), use it (use_src, the object is `obj`),
    compare with a fresh object, look for memory shared between a result and the object or a
    later result, overwrite every array reachable from the results and use the object again,
    overwrite the argument arrays and use it again."""
    fails = []
    nan = float('nan')

    def use(o, fill=nan):
        return one_call(use_src, variant, seed + 1, fill, env={'obj': o})

    def dg(r, e):
        return exc_digest(e) if e is not None else digest(r)
    A0, obj, e0 = one_call(ctor_src, variant, seed, nan)
    info = dict(outcome='ok' if e0 is None else 'constructor raised ' + type(e0).__name__)
    if e0 is not None:
        if is_readonly_error(e0):
            fails.append(('object-args', 'the constructor writes into a read-only argument'))
        return fails, info
    A1, r1, e1 = use(obj)
    d1 = dg(r1, e1)
    info['outcome'] = 'ok' if e1 is None else 'raised ' + type(e1).__name__
    info['digest'] = d1
    if e1 is not None and is_readonly_error(e1):
        fails.append(('object-args', 'the call writes into a read-only argument (%s)' % str(e1)[:80]))
        return fails, info
    # reference: the same use of a brand-new object
    Af, objf, ef = one_call(ctor_src, variant, seed, nan)
    Auf, rf, euf = use(objf)
    dfresh = dg(rf, euf)
    # the same use again, on the same object
    A2, r2, e2 = use(obj)
    d2 = dg(r2, e2)
    if d2 != d1:
        fails.append(('object-repeat', 'the second identical use of the same object differs at %s' % ', '.join(diff_paths(d1, d2)[:4])))
    elif dfresh != d1:
        fails.append(('object-repeat', 'a new object gives a different result at %s' % ', '.join(diff_paths(d1, dfresh)[:4])))
    A3, r3, e3 = use(obj, 12345.678)
    if dg(r3, e3) != d1 and d2 == d1:
        fails.append(('object-uninit', 'result depends on the contents of np.empty memory at %s' % ', '.join(diff_paths(d1, dg(r3, e3))[:4])))
    ch = A0.changed() + A1.changed() + A2.changed()
    if ch:
        fails.append(('object-args', 'argument(s) %s modified' % ', '.join(sorted(set(ch)))))
    if e1 is None:
        sh = shared(leaves(r1), leaves(r2, 'later result'))
        if sh:
            fails.append(('object-shares', '%s shares memory with %s' % sh[0]))
        else:
            sh = shared(leaves(r1), leaves(obj, 'object', private=True))
            if sh:
                fails.append(('object-shares', '%s shares memory with %s' % sh[0]))
        # the caller overwrites every array it can reach from the results
        n = trash(r1) + trash(r2) + trash(r3)
        if n:
            A4, r4, e4 = use(obj)
            d4 = dg(r4, e4)
            if d4 != dfresh:
                fails.append(('object-result-mutation', 'after the caller overwrote the returned arrays, the next identical use of '
                              'the same object differs from a new object at %s' % ', '.join(diff_paths(dfresh, d4)[:4])))
        if not any(f[0] in ('object-repeat', 'object-result-mutation') for f in fails):
            # (the arrays given to the constructor belong to the object: only the arguments of the uses)
            if trash_args(A1) + trash_args(A2):
                A5, r5, e5 = use(obj)
                d5 = dg(r5, e5)
                if d5 != dfresh:
                    fails.append(('object-arg-reuse', 'after the caller overwrote the arrays it had passed, the next identical use '
                                  'of the same object differs at %s' % ', '.join(diff_paths(dfresh, d5)[:4])))
    return fails, info
'''
