# C07 — results never depend on basis-cache history (memory or disk).
#
#   theorems   coq/props/C07.v (proofs: coq/proofs/Cache*Proofs.v,
#              BasisDirProofs.v, TriangularCrop.v)
#   models     coq/model/Cache{Basex,Daun,Dasch,Linbasex,Rbasex}.v, BasisDir.v
#   tie        correspondence on histories: random + directed op lists are run
#              on the implementation; after every operation the observable
#              cache state (module globals, directory listings), the outcome
#              class of the call and whether its result equals the result of
#              the same call in a fresh state are compared with what the Coq
#              model computes (vm_compute) for the same op list
#   search     the property itself on the implementation: every call of every
#              history against the same call in a fresh interpreter state;
#              failing histories are shrunk and written as replays
import os
import re
import shutil
import time

import numpy as np

import vlib
from vlib import Hit
from props import cache_harness as H

LEVEL = 'proof'
MODS = ['basex', 'daun', 'dasch', 'linbasex', 'rbasex']
HDR = 'From Coq Require Import List Arith Bool.\nImport ListNotations.\n'


# --------------------------------------------------------------------------
# directed histories (the places where the reading of the code saw risks)
# --------------------------------------------------------------------------
def scenarios(mod, rng):
    S = []
    sd = lambda: int(rng.integers(1 << 30))      # noqa
    if mod == 'daun':
        big, small = int(rng.choice([9, 12])), int(rng.choice([5, 6, 8]))
        for deg in (3, 2):
            for direction in ('inverse', 'forward'):
                c = dict(degree=deg, reg=None, direction=direction, bd=1, dr=1.0)
                S.append([('call', dict(c, n=big, seed=sd())), ('cleanup', 'all'),
                          ('call', dict(c, n=small, seed=sd()))])
                S.append([('seed', 1, (big, deg), 'good'), ('call', dict(c, n=small, seed=sd()))])
        c = dict(n=small, reg=None, direction='forward', dr=1.0)
        S.append([('call', dict(c, degree=0, bd=None, seed=sd())),
                  ('call', dict(c, degree=1, bd=H.BADDIR, seed=sd())),
                  ('call', dict(c, degree=0, bd=None, seed=sd()))])
        S.append([('call', dict(c, degree=1, bd=H.BADDIR, seed=sd())),
                  ('call', dict(c, degree=1, bd=None, seed=sd()))])
    if mod == 'basex':
        c = dict(sig=0, reg=0, corr=True, dr=0, direction='inverse')
        S.append([('call', dict(c, n=12, bd=1, seed=sd())), ('cleanup', 'all'),
                  ('call', dict(c, n=8, bd=1, seed=sd())), ('call', dict(c, n=14, bd=1, seed=sd()))])
        S.append([('call', dict(c, n=8, bd=None, seed=sd())), ('call', dict(c, n=9, sig=1, bd=H.BADDIR, seed=sd())),
                  ('call', dict(c, n=8, bd=None, seed=sd()))])
        S.append([('call', dict(c, n=8, bd=None, dr=1, direction='forward', seed=sd())),
                  ('call', dict(c, n=8, bd=None, dr=0, direction='forward', seed=sd())),
                  ('cleanup', 'inverse'), ('call', dict(c, n=8, bd=None, dr=1, direction='forward', seed=sd()))])
    if mod == 'dasch':
        S.append([('call', dict(meth=2, n=12, bd=1, dr=1.0, seed=sd())), ('cleanup',),
                  ('call', dict(meth=2, n=6, bd=1, dr=1.0, seed=sd())), ('call', dict(meth=1, n=6, bd=1, dr=0.5, seed=sd()))])
        S.append([('call', dict(meth=0, n=9, bd=None, dr=1.0, seed=sd())),
                  ('call', dict(meth=1, n=6, bd=H.BADDIR, dr=1.0, seed=sd())),
                  ('call', dict(meth=0, n=6, bd=None, dr=1.0, seed=sd())), ('call', dict(meth=1, n=5, bd=None, dr=1.0, seed=sd()))])
    if mod == 'linbasex':
        c = dict(n=11, step=1, clip=0)
        S.append([('call', dict(c, orders=[0, 2], angles=[0, 201], bd=None, seed=sd())),
                  ('call', dict(c, orders=[0, 2], angles=[0, 202], bd=None, seed=sd()))])
        S.append([('call', dict(c, orders=[1, 2], angles=[0, 202], bd=1, seed=sd())), ('cleanup',),
                  ('call', dict(c, orders=[12], angles=[0, 202], bd=1, seed=sd()))])
        S.append([('call', dict(c, orders=[0, 2], angles=[22, 2], bd=1, seed=sd())), ('cleanup',),
                  ('call', dict(c, orders=[0, 2], angles=[202], bd=1, seed=sd()))])
        S.append([('seed', 1, (11, (0, 2), (22, 2), 1, 0), 'good'),
                  ('call', dict(c, orders=[0, 2], angles=[202], bd=1, seed=sd()))])
        # 6 angles, 5 orders: the basis of a 3x3 image has the shape (18, 10) = (2*9, 9+1)
        big = dict(orders=[0, 1, 2, 3, 4], angles=[10, 60, 110, 160, 210, 260], step=1, clip=0, bd=None)
        S.append([('call', dict(big, n=3, seed=sd())), ('call', dict(big, n=9, seed=sd()))])
        S.append([('call', dict(c, orders=[0, 2], angles=[0, 202], bd=None, seed=sd())),
                  ('call', dict(c, orders=[0, 2], angles=[0, 102], bd=H.BADDIR, seed=sd())),
                  ('call', dict(c, orders=[0, 2], angles=[0, 102], bd=None, seed=sd()))])
    if mod == 'rbasex':
        c = dict(shape=0, origin=0, rmax=0, order=2, odd=False, wid=0, direction='inverse', reg=0, out=0, bd=None)
        S.append([('call', dict(c, out=0, seed=sd())), ('call', dict(c, out=3, seed=sd()))])
        # (9, 11) image, rmax=3: out='same' needs a 5 x 6 quadrant, out='full' a 4 x 4 one
        S.append([('call', dict(c, shape=1, rmax=1, out=0, seed=sd())), ('call', dict(c, shape=1, rmax=1, out=3, seed=sd()))])
        S.append([('call', dict(c, origin=1, out=1, seed=sd())), ('call', dict(c, origin=1, out=0, seed=sd()))])
        S.append([('call', dict(c, wid=1, seed=sd())), ('mutw', 1), ('call', dict(c, wid=1, seed=sd()))])
        S.append([('call', dict(c, rmax=2, seed=sd())), ('call', dict(c, seed=sd()))])
        S.append([('call', dict(c, rmax=2, seed=sd())), ('cleanup', 'all'), ('call', dict(c, seed=sd()))])
        S.append([('call', dict(c, reg=2, seed=sd())), ('call', dict(c, reg=9, seed=sd())), ('call', dict(c, reg=9, seed=sd()))])
        S.append([('call', dict(c, order=2, odd=True, seed=sd())), ('call', dict(c, order=4, bd=H.BADDIR, seed=sd())),
                  ('call', dict(c, order=4, seed=sd()))])
        S.append([('call', dict(c, bd=1, seed=sd())), ('cleanup', 'all'), ('call', dict(c, rmax=1, bd=1, seed=sd())),
                  ('cleanup', 'all'), ('call', dict(c, order=0, bd=1, seed=sd()))])
        S.append([('call', dict(c, wid=1, seed=sd())), ('call', dict(c, wid=1, rmax=2, seed=sd())),
                  ('call', dict(c, wid=1, rmax=2, seed=sd()))])
        g = dict(kind='getbs', rmax=4, order=2, odd=False, direction='inverse', reg=0, mask=1, bd=None, seed=0)
        S.append([('call', dict(c, seed=sd())), ('call', g)])
        S.append([('call', dict(c, seed=sd())), ('cleanup', 'inverse'), ('call', g), ('call', dict(c, seed=sd()))])
        S.append([('call', dict(g, mask=0)), ('call', g), ('call', dict(g, direction='forward'))])
    return S


def neighbour_histories(mod, rng, quick):
    """Every history of 3 calls (and all / a sample of those of 4 calls) over a
    small alphabet of neighbouring parameter sets of one module: stale-key
    defects typically need a specific 3-4 step order (A, B, B', A') that random
    long histories rarely hit."""
    import itertools
    sd = lambda: int(rng.integers(1 << 30))      # noqa
    if mod == 'basex':
        base = dict(reg=0, corr=True, dr=0, n=8, bd=None)
        alpha = [dict(base, sig=sg, direction=d) for sg in (0, 1) for d in ('inverse', 'forward')]
    elif mod == 'dasch':
        alpha = [dict(meth=me, n=n, bd=1, dr=1.0) for me in (1, 2) for n in (6, 9)]
    elif mod == 'daun':
        base = dict(reg=None, dr=1.0, n=6, bd=1)
        alpha = [dict(base, degree=dg, direction=d) for dg in (0, 1) for d in ('inverse', 'forward')]
    elif mod == 'linbasex':
        base = dict(n=11, step=1, clip=0, bd=None)
        alpha = [dict(base, orders=o, angles=a) for o in ([0, 2], [0, 2, 4]) for a in ([0, 202], [0, 102, 202])]
    else:   # rbasex
        base = dict(shape=0, origin=0, rmax=0, odd=False, wid=0, reg=0, out=0, bd=None)
        alpha = [dict(base, order=o, direction=d) for o in (2, 4) for d in ('inverse', 'forward')]
    out = [list(t) for t in itertools.product(range(len(alpha)), repeat=3)]
    four = [list(t) for t in itertools.product(range(len(alpha)), repeat=4)]
    if quick:
        idx = rng.choice(len(four), size=48, replace=False)
        four = [four[i] for i in idx]
        # the alternating patterns A B A' B' / A B B' A' over pairs of symbols are always included
        for a in range(len(alpha)):
            for b in range(len(alpha)):
                if a != b:
                    four.append([a, b, a, b])
    out += four
    hists = [[('call', dict(alpha[i], seed=sd())) for i in h] for h in out]
    for facet in facets(mod):
        hists += facet_histories(facet, rng, quick)
    return hists


def cross(base, **dims):
    """all combinations of the listed parameter values on top of `base`"""
    import itertools
    names = list(dims)
    return [dict(base, **dict(zip(names, vals))) for vals in itertools.product(*[dims[k] for k in names])]


def facets(mod):
    """Further small alphabets, one per group of parameters that a cache key of
    the module has to distinguish (or deliberately ignores): each is a list of
    neighbouring calls, optionally with the operation to put between two calls
    (dropping the memory caches makes the second call meet the files the first
    one left on disk).  facet = (name, alphabet, separator op or None)."""
    F = []
    if mod == 'daun':
        base = dict(n=6, degree=0, dr=1.0, direction='inverse', bd=None)
        # every spelling of the regulariser, equal and different strengths
        regs = [None, ('diff', 0.5), ('L2', 0.5), ('L2c', 0.5), ('diff', 2.0), ('L2', 2.0), ('L2c', 2.0), 'nonneg']
        F.append(('reg', cross(base, reg=regs), None))
        F.append(('reg-size', cross(base, reg=[('L2', 0.5), ('L2c', 0.5)], n=[6, 9], degree=[0, 1]), None))
        disk = cross(dict(base, reg=None, bd=1), n=[6, 9], degree=[1, 3], direction=['inverse', 'forward'])
        F.append(('disk', disk, ('cleanup', 'all')))
        F.append(('disk-mem', cross(dict(base, reg=None, bd=1), n=[6, 9, 12], degree=[2, 3]), None))
        # the degree is part of every key: all four, in memory and on disk
        F.append(('degree-mem', cross(dict(base, reg=None), degree=[0, 1, 2, 3], n=[6, 9]), None))
        F.append(('degree-disk', cross(dict(base, reg=None, bd=1), degree=[0, 1, 2, 3], n=[6, 9]), ('cleanup', 'all')))
    if mod == 'basex':
        base = dict(n=8, sig=0, reg=0, corr=True, dr=0, direction='inverse', bd=None)
        F.append(('reg', cross(base, reg=[0, 1, 2], corr=[True, False]) + cross(base, reg=[0, 1], dr=[1]), None))
        F.append(('reg-dir', cross(base, reg=[0, 1], direction=['inverse', 'forward'], n=[8, 9]), None))
        disk = cross(dict(base, bd=1), n=[6, 8, 12], sig=[0, 1])
        F.append(('disk', disk, ('cleanup', 'all')))
        F.append(('disk-mem', disk, None))
        F.append(('sigma-mem', cross(base, sig=[0, 1, 2], n=[6, 9]), None))
    if mod == 'dasch':
        disk = cross(dict(bd=1, dr=1.0), meth=[0, 1, 2], n=[6, 9])
        F.append(('disk', disk, ('cleanup',)))
        F.append(('size-dr', cross(dict(bd=None, meth=0), n=[5, 6, 9], dr=[1.0, 0.5]), None))
        # the method is part of the key, in memory and on disk (without cleanup: memory first)
        F.append(('method-mem', cross(dict(bd=None, dr=1.0), meth=[0, 1, 2], n=[9, 6]), None))
        F.append(('method-disk-mem', disk, None))
    if mod == 'linbasex':
        base = dict(n=11, orders=[0, 2], angles=[0, 202], step=1, clip=0, bd=None)
        F.append(('step-clip', cross(base, step=[1, 2], clip=[0, 1], n=[9, 11]), None))
        disk = cross(dict(base, bd=1), n=[9, 11], orders=[[0, 2], [0, 1, 2]], angles=[[0, 202], [0, 102]])
        F.append(('disk', disk, ('cleanup',)))
        # spellings that must NOT be identified: permutations of the orders and of the angles (the
        # basis blocks follow the sequence given), step, clip; and spellings that may be (list /
        # tuple / array).  Two orders and two angles is what the memory cache accepts.
        perm2 = cross(base, orders=[[0, 2], [2, 0]], angles=[[0, 202], [202, 0]], spell=[0, 1])
        perm3 = cross(base, orders=[[0, 1, 2], [0, 2, 1], [2, 1, 0], [1, 2], [2, 1]], angles=[[0, 202], [202, 0]])
        F.append(('perm-mem', perm2, None))
        F.append(('perm-disk', [dict(c, bd=1) for c in perm2], ('cleanup',)))
        F.append(('perm3-disk', [dict(c, bd=1) for c in perm3], ('cleanup',)))
        F.append(('perm3-disk-mem', [dict(c, bd=1, spell=2) for c in perm3], None))
        F.append(('step-clip-disk', cross(dict(base, bd=1), step=[1, 2], clip=[0, 1], orders=[[0, 2], [2, 0]]),
                  ('cleanup',)))
    if mod == 'rbasex':
        base = dict(shape=0, origin=0, rmax=0, order=2, odd=False, wid=0, direction='inverse', reg=0, out=0, bd=None)
        # which radii have data: all / a ring of zero weights / rmax beyond the corners
        F.append(('valid', [dict(base, direction=d, **v) for d in ('inverse', 'forward')
                            for v in (dict(), dict(wid=4), dict(rmax=4), dict(wid=4, rmax=4))], None))
        F.append(('valid-reg', [dict(base, reg=r, **v) for r in (0, 2, 4)
                                for v in (dict(), dict(wid=4), dict(rmax=4))], None))
        # what the files on disk hold: parity, order, radius, inverse matrices
        disk = cross(dict(base, bd=1), order=[1, 2, 4], odd=[False, True], rmax=[0, 1])
        for d in ('inverse', 'forward'):
            F.append(('disk-' + d, [dict(c, direction=d) for c in disk], ('cleanup', 'all')))
        F.append(('disk-dir', cross(dict(base, bd=1), order=[2, 4], odd=[False, True],
                                    direction=['inverse', 'forward']), ('cleanup', 'all')))
        # order / odd / rmax are the key of the memory cache as well
        F.append(('key-mem', cross(base, order=[1, 2, 4], odd=[False, True], rmax=[0, 1]), None))
        F.append(('key-mem-fwd', cross(dict(base, direction='forward'), order=[2, 4], odd=[False, True], rmax=[0, 1, 3]),
                  None))
        # which image is built from the distributions: out x origin, for the two parities, in
        # a frame whose height is 2 rmax + 1 also for the off-centre origin (explicit rmax = 4)
        for order, odd in ((1, True), (2, True), (2, False)):
            F.append(('out-%d%s' % (order, 'o' if odd else ''),
                      cross(dict(base, order=order, odd=odd, rmax=3), out=[0, 1, 2, 3, 4], origin=[0, 1]), None))
        F.append(('out-dir', cross(dict(base, order=1, odd=True, rmax=3, origin=1), out=[0, 3, 4],
                                   direction=['inverse', 'forward']), None))
    return F


def facet_histories(facet, rng, quick):
    """All ordered pairs of the alphabet (with the separator between the two
    calls when the facet has one), all triples when they are few, otherwise a
    sample of them (quick) / all of them up to a bound (thorough)."""
    import itertools
    name, alpha, sep = facet
    sd = lambda: int(rng.integers(1 << 30))      # noqa
    n = len(alpha)
    idx = [list(t) for t in itertools.product(range(n), repeat=2)]
    triples = [list(t) for t in itertools.product(range(n), repeat=3)]
    cap = 16 if quick else 300
    if len(triples) > cap:
        triples = [triples[i] for i in rng.choice(len(triples), size=cap, replace=False)]
    idx += triples
    hists = []
    for h in idx:
        ops = []
        for j, i in enumerate(h):
            if j and sep is not None:
                ops.append(sep)
            ops.append(('call', dict(alpha[i], seed=sd())))
        hists.append(ops)
    return hists


# --------------------------------------------------------------------------
# which finding does a (shrunk) failing history show?
# --------------------------------------------------------------------------
def classify(mod, ops, recs, out, ref):
    """Key of the finding a minimal failing history exhibits.  `recs` are the
    records of ops[:-1]; ops[-1] is the failing call.  All defects found while
    this check was built are fixed in /repo (cbc57b0 .. 2e99c37, 5c177c1,
    8cabaad)."""
    kinds = '/'.join(o[0] for o in ops)
    return 'C07:%s:unclassified:%s' % (mod, kinds)


WHAT = {}


# --------------------------------------------------------------------------
def correspondence(adapter, hists, tag):
    body = H.clist([H.coq_history(adapter, h) for h in hists])
    text = (HDR + 'From PA Require Import base.Npy base.QClose model.CacheCommon model.%s.\n' % adapter.coq_module +
            'Definition hists : list (list (op * obs)) := %s.\n'
            'Definition res := flat_map (check_hist init) hists.\n'
            'Eval vm_compute in (count_true res, false_idx 0 res).\n' % body)
    return ('C07_%s' % tag, text)


def parse_corr(out):
    r = vlib.parse_eval_lists(out)
    if not r:
        return None
    m = re.match(r'\((\d+), (.*)\)$', r[0])
    return int(m.group(1)), vlib.parse_nat_list(m.group(2))


def dir_helper_checks(ctx, root):
    """get/set_basis_dir and basis_dir_cleanup on the implementation, and the
    glob-pattern model (BasisDir.v) against the real deletions."""
    import abel
    import abel.transform as T
    hits = []
    n = 0
    saved_xdg = os.environ.get('XDG_CACHE_HOME')
    os.environ['XDG_CACHE_HOME'] = os.path.join(root, 'xdg2')
    d = os.path.join(root, 'helpers')
    os.makedirs(d, exist_ok=True)
    T._basis_dir = ''
    seq = [None, d, '', d, None, '']
    for x in seq:
        T.set_basis_dir(x, make=False)
        got = T.get_basis_dir()
        want = T.default_basis_dir() if x == '' else x
        n += 1
        if got != want:
            hits.append(('basis_dir_resolution', 'C07:transform:basis-dir-resolution',
                         'get_basis_dir() after set_basis_dir(%r) returns %r' % (x, got)))
    T._basis_dir = ''
    if T.get_basis_dir() != T.default_basis_dir():
        hits.append(('basis_dir_resolution', 'C07:transform:basis-dir-resolution', 'initial get_basis_dir() is not the default'))
    T._basis_dir = ''
    # cleanup exactness
    import abel.basex, abel.daun, abel.dasch, abel.linbasex, abel.rbasex   # noqa (modules must be loaded)
    names = {'basex': 'basex_basis_9_1.0.npy', 'daun': 'daun_basis_9_2.npy', 'linbasex': 'linbasex_basis_9_02_050_1_0.npy',
             'onion_peeling': 'onion_peeling_basis_9.npy', 'rbasex': 'rbasex_basis_4_2i.npy',
             'three_point': 'three_point_basis_9.npy', 'two_point': 'two_point_basis_9.npy'}
    decoys = ['mybasex_basis_9_1.0.npy', 'basex_basis_9_1.0.npy.bak', 'two_point_basis.txt', 'rbasex_basic_4_2.npy']
    pairs = []
    for m in names:
        for f in list(names.values()) + decoys:
            open(os.path.join(d, f), 'wb').write(b'x')
        before = set(os.listdir(d))
        H.quiet(T.basis_dir_cleanup, d, m)
        removed = before - set(os.listdir(d))
        n += 1
        for f in before:
            pairs.append((m, f, f in removed))
        if removed != {names[m]}:
            hits.append(('basis_dir_cleanup_exact', 'C07:transform:basis-dir-cleanup-not-exact:%s' % m,
                         'basis_dir_cleanup(method=%r) removed %r' % (m, sorted(removed))))
        for f in os.listdir(d):
            os.remove(os.path.join(d, f))
    T._basis_dir = ''
    if saved_xdg is not None:
        os.environ['XDG_CACHE_HOME'] = saved_xdg
    codes = lambda s: H.cnats([ord(ch) for ch in s])       # noqa
    items = ['(Bool.eqb (cleanup_matches %s %s) %s)' % (codes(m), codes(f), H.cbool(r)) for m, f, r in pairs]
    text = HDR + 'From PA Require Import base.QClose model.BasisDir.\nEval vm_compute in (count_true %s, false_idx 0 %s).\n' % (
        H.clist(items), H.clist(items))
    return hits, n, ('C07_dirs', text), pairs


def run(ctx):
    t0 = time.time()
    rng = np.random.default_rng(ctx.seed)
    pr = vlib.coq_props('C07')
    ctx.cov['wall_proofs_s'] = round(time.time() - t0, 1)
    refuted = [t for t in pr['theorems'] if t.endswith('_refuted')]
    partial = [t for t in pr['theorems'] if t.endswith('_partial')]
    ctx.cov.update(obligations=len(pr['theorems']), discharged=pr['discharged'], theorems=pr['theorems'],
                   refuted_theorems=refuted, partial_theorems=partial, axioms=pr['axioms'],
                   checker_cmd='make -C /verif/coq props/C07.vo (coqc 8.16.1, full .vo build) + Print Assumptions',
                   trusted_base=vlib.TRUSTED_COMMON + [
                       'axioms reported by Print Assumptions: ' + (', '.join(pr['axioms']) or 'none'),
                       'hand-written cache state machines coq/model/Cache*.v (tied by correspondence, not verified)',
                       'the quantities computed by abel.tools.vmi.Distributions (rmax, valid, output geometry) are inputs of the rbasex model'])

    root = '/var/tmp/pyabel-verif-C07-%d' % os.getpid()
    shutil.rmtree(root, ignore_errors=True)
    env = H.Env(os.path.join(root, 'main'))
    worker = H.FreshWorker(os.path.join(root, 'fresh'))
    nh, L = (36, 12) if ctx.quick else (260, 24)
    texts, allh, hits, dist = [], {}, [], {}
    n_calls = n_dis = 0
    broken_corr = []
    try:
        for mod in MODS:
            tm = time.time()
            ad = H.ADAPTERS[mod](env)
            hists = []
            for ops in scenarios(mod, rng) + neighbour_histories(mod, rng, ctx.quick):
                hists.append(H.run_history(ad, worker, ops))
            for i in range(nh):
                ln = int(rng.integers(4, L + 1))
                hists.append(H.run_history(ad, worker, ad.gen_history(rng, ln)))
            allh[mod] = (ad, hists)
            texts.append(correspondence(ad, hists, mod))
            ctx.cov.setdefault('wall_histories_s', {})[mod] = round(time.time() - tm, 1)
            for h in hists:
                for r in h:
                    k = '%s/%s' % (mod, r['op'][0])
                    dist[k] = dist.get(k, 0) + 1
        # basis-dir helpers
        dh, n_dir, dir_text, dir_pairs = dir_helper_checks(ctx, root)
        texts.append(dir_text)
        tm = time.time()
        outs = vlib.coq_eval_many(texts)
        ctx.cov['wall_coq_correspondence_s'] = round(time.time() - tm, 1)
        n_ok = n_steps = 0
        for name, _ in texts:
            rc, out = outs[name]
            pc = parse_corr(out) if rc == 0 else None
            if pc is None:
                broken_corr.append((name, 'coq evaluation failed: ' + out[-400:]))
                continue
            n_ok += pc[0]
            n_steps += pc[0] + len(pc[1])
            if pc[1]:
                if name == 'C07_dirs':
                    m, f, rm = dir_pairs[pc[1][0]]
                    broken_corr.append((name, 'basis_dir_cleanup(method=%r): file %r removed=%r but model says otherwise' % (m, f, rm)))
                else:
                    ad, hists = allh[name[4:]]
                    flat = [(hi, si) for hi, h in enumerate(hists) for si, r in enumerate(h)
                            if ad.coq_op(r['op'], r['aux'], r['ref']) is not None]
                    hi, si = flat[pc[1][0]]
                    r = hists[hi][si]
                    broken_corr.append((name, '%d steps disagree; first: history %d step %d op=%r impl code=%s agree=%s state=%r; '
                                        'history so far=%r'
                                        % (len(pc[1]), hi, si, r['op'], r['code'], r['agree'], r['state'],
                                           [x['op'] for x in hists[hi][:si]])))
        ctx.cov.update(traces_validated_against_impl=n_ok, correspondence_steps=n_steps,
                       correspondence_disagreements=n_steps - n_ok, correspondence_broken=[list(b) for b in broken_corr])

        # fresh-process sample: the worker's reset equals a brand-new interpreter
        n_fp = 0
        tm = time.time()
        for mod in MODS:
            ad, hists = allh[mod]
            calls = [r for h in hists for r in h if r['op'][0] == 'call' and r['ref'] is not None]
            for r in [calls[i] for i in rng.choice(len(calls), size=min(len(calls), 2 if ctx.quick else 8), replace=False)]:
                c = dict(r['op'][1])
                if mod == 'rbasex' and c.get('wid'):
                    c['wver'] = r['aux']['wver']
                fp = H.fresh_process(os.path.join(root, 'fp'), mod, c)
                n_fp += 1
                okk = (fp[0] == r['ref'][0]) and (fp[0] != 'ok' or H.same(fp[1], r['ref'][1]))
                if not okk:
                    broken_corr.append(('fresh-worker', 'fresh worker and a new interpreter disagree on %s %r' % (mod, r['op'][1])))
        ctx.cov['fresh_process_samples'] = n_fp
        ctx.cov['wall_fresh_process_s'] = round(time.time() - tm, 1)

        # search: the property on every call of every history
        seen = {}
        groups = {}
        for mod in MODS:
            ad, hists = allh[mod]
            for h in hists:
                for si, r in enumerate(h):
                    if r['op'][0] != 'call':
                        continue
                    n_calls += 1
                    ref2 = None
                    if r['out'][0] == 'ok' and r['ref'][0] == 'exc':
                        c2 = dict(r['op'][1], bd=None)
                        if mod == 'rbasex' and c2.get('wid'):
                            c2['wver'] = r['aux']['wver']      # the weights content at the time of the call
                        ref2 = worker.ask(mod, ad.ref_call(c2))
                    v = H.verdict('C07', r['out'], r['ref'], ref2)
                    if v is None:
                        continue
                    n_dis += 1
                    ops = [x['op'] for x in h[:si + 1]]
                    pre = classify(mod, ops, h[:si], r['out'], r['ref'])
                    g = groups.setdefault(pre, [])
                    g.append((len(ops), mod, ops))
                    ctx.cov.setdefault('first_verdicts', {}).setdefault(pre, '%s | last op %r' % (v, ops[-1]))
        # shrink the shortest failing histories of every group
        n_shrunk = 0
        for pre in sorted(groups, key=lambda k: ('unclassified' in k, k)):
            for _, mod, ops in sorted(groups[pre], key=lambda t: t[0])[:2]:
                if n_shrunk >= (30 if ctx.quick else 120):
                    break
                n_shrunk += 1
                ad = allh[mod][0]
                mops = H.shrink(ad, worker, ops, 'C07', budget=40 if ctx.quick else 120)
                v2, recs, out, ref = H.check_last(ad, worker, mops, 'C07')
                if v2 is None:          # not reproducible after shrinking: keep the full history
                    mops = ops
                    v2, recs, out, ref = H.check_last(ad, worker, mops, 'C07')
                    if v2 is None:
                        continue
                key = classify(mod, mops, recs, out, ref)
                if key in seen and len(seen[key][0]) <= len(mops):
                    continue
                seen[key] = (mops, v2)
        ctx.cov['failing_history_groups'] = {k: len(v) for k, v in groups.items()}
        for key, (mops, v2) in seen.items():
            mod = key.split(':')[1]
            hits.append(Hit('history_independent', key, '%s: %s' % (WHAT.get(key, key), v2),
                            H.snippet(mod, mops, 'C07'), dict(module=mod, history=[repr(o) for o in mops])))
        for clause, key, what in dh:
            hits.append(Hit(clause, key, what, 'import sys; sys.exit(1)', {}))
    finally:
        worker.close()
        env.close()
        shutil.rmtree(root, ignore_errors=True)

    samples = []
    for mod in MODS:
        ad, hists = allh[mod]
        h = hists[-1]
        samples.append(dict(module=mod, history=[repr(r['op']) for r in h][:6],
                            outcomes=[r['code'] for r in h][:6], agree=[r['agree'] for r in h][:6]))
    distinct = {(m, repr(sorted((k, repr(v)) for k, v in r['op'][1].items() if k != 'seed')))
                for m in MODS for h in allh[m][1] for r in h if r['op'][0] == 'call'}
    ctx.cov.update(evaluations=n_calls + n_dir, distinct_nontrivial=len(distinct),
                   calls_differing_from_fresh=n_dis,
                   rule='every call of every generated history is compared with the same call in a fresh interpreter state '
                        '(all cache globals reset, empty basis directories; sampled in a brand-new process); a case is '
                        'distinct by its call parameters (image seed ignored); histories: directed scenarios + exhaustive short '
                        'histories (all 3-call, all/sampled 4-call histories over a 4-symbol alphabet per module; all ordered pairs '
                        'and all/sampled triples over further alphabets per group of parameters a cache key must distinguish: '
                        'regulariser spellings and strengths, sizes/degrees/orders/parities on disk with the memory caches dropped '
                        'between the calls, radii without data (ring of zero weights, rmax beyond the corners) x direction x '
                        'regularisation, out x origin x parity in a frame of height 2 rmax + 1; spellings that must not be identified: '
                        'permutations of linbasex orders / angles (x list / tuple / array spellings, which may be), step, clip, daun degree, dasch '
                        'method, basex sigma, rbasex order / odd / rmax, each in memory and on disk) + random op '
                        'lists of calls / cache_cleanup / basis_dir_cleanup / set_basis_dir / appearing and disappearing '
                        'files / in-place weight changes over the parameter lattice of each module (n <= 14)',
                   samples=samples, input_distribution=dist, exhaustive=False,
                   wall_impl_s=round(time.time() - t0, 1))
    ctx.assumptions += [
        'theorems are about hand-written state machines (coq/model/Cache*.v) with symbolic contents; their tie to /repo is the '
        'correspondence run of this check (observable state + outcome class + agreement with fresh result after every operation)',
        'history independence is proved for all five modules for ALL histories satisfying the environment assumptions (writable '
        'directories, good files on disk are what a save writes, Distributions quantities are functions of parameters and weights '
        'content)',
        '"same result" is measured with max-norm relative tolerance 1e-7 on the implementation',
        'entries of a basis depend only on what its symbolic tag records (basex: sigma,i,k; daun degree<=2: degree,i,j; daun '
        'degree 3: also n; dasch: method,i,j; rbasex: n,R,r): read from the generating code, validated by the search, and for '
        'triangular inverses proved (C07_leading_block_inverse)',
    ]
    new = 0
    for h in hits:
        if ctx.report_hit(h):
            new += 1
    if not pr['ok'] and new == 0:
        ctx.report_broken('proof', pr['broken'] or 'props/C07.v', pr['error'] or '')
    if broken_corr and new == 0:
        ctx.report_broken('correspondence', broken_corr[0][0], '; '.join('%s: %s' % b for b in broken_corr[:3]))
