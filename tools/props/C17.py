# C17 — documented equivalences between methods and options.
#
#   theorems   coq/props/C17.v over the matrix expressions generated from
#              /repo (gen/MatrixExpr.v) + NNLS by specification + the
#              onion-peeling / daun degree-0 entry identity
#   tie        translator re-run + numeric validation of every generated term
#              against the implementation; W == B^T observed numerically
#   search     paired option sets on random real half-images (sizes 3..120)
#              must agree to 1e-10 relative, evaluated on the implementation
import json
import os

import numpy as np

import vlib
from vlib import Hit
from props import _algebra_common as ac

LEVEL = 'proof'
RTOL = 1e-10
ENV_FILE = os.path.join(os.path.dirname(__file__), 'C17_envelopes.json')

SNIP_HEAD = '''
import sys, warnings
import numpy as np
warnings.simplefilter('ignore')
import abel, abel.daun, abel.dasch, abel.rbasex, abel.basex, abel.hansenlaw, abel.direct
import abel.tools.center as center, abel.tools.vmi as vmi
def rel(a, b):
    a = np.asarray(a, float); b = np.asarray(b, float)
    if a.shape != b.shape or not np.all(np.isfinite(a)): return float('inf')
    return float(np.max(np.abs(a - b))) / max(float(np.max(np.abs(b))), float(np.max(np.abs(a))), 1e-300)
def fresh():
    for m in (abel.daun, abel.dasch, abel.rbasex, abel.basex): m.cache_cleanup()
'''

# every pair: name -> (python source of f(X, n, dr) -> (a, b)); a and b must agree
PAIRS_HALF = {
    'daun-default==onion_peeling':
        "lambda X, dr: (abel.daun.daun_transform(X, verbose=False), abel.dasch.onion_peeling_transform(X, basis_dir=None))",
    'daun-default-dr==onion_peeling-dr':
        "lambda X, dr: (abel.daun.daun_transform(X, dr=dr, verbose=False), abel.dasch.onion_peeling_transform(X, basis_dir=None, dr=dr))",
}
for _deg in range(4):
    for _rn, _r in (('diff0', "('diff', 0)"), ('L20', "('L2', 0)"), ('L2c0', "('L2c', 0)"), ('int0', '0'), ('float0', '0.0')):
        PAIRS_HALF['daun-deg%d-%s==None' % (_deg, _rn)] = (
            "lambda X, dr: (abel.daun.daun_transform(X, reg=%s, degree=%d, dr=dr, verbose=False), "
            "abel.daun.daun_transform(X, reg=None, degree=%d, dr=dr, verbose=False))" % (_r, _deg, _deg))
    PAIRS_HALF['daun-deg%d-tiny-strength~None' % _deg] = (
        "lambda X, dr: (abel.daun.daun_transform(X, reg=('L2', 1e-300), degree=%d, dr=dr, verbose=False), "
        "abel.daun.daun_transform(X, reg=None, degree=%d, dr=dr, verbose=False))" % (_deg, _deg))
for _m in ('two_point', 'three_point', 'onion_peeling'):
    PAIRS_HALF['%s_transform==dasch_transform' % _m] = (
        "lambda X, dr: (abel.dasch.%s_transform(X, basis_dir=None, dr=dr), "
        "abel.dasch.dasch_transform(np.atleast_2d(X), abel.dasch.get_bs_cached(%r, np.atleast_2d(X).shape[1], basis_dir=None)) / dr)" % (_m, _m))
PAIRS_HALF['basex-reg-tiny~reg0'] = (
    "lambda X, dr: (abel.basex.basex_transform(X, sigma=1.0, reg=1e-300, correction=False, basis_dir=None, dr=dr, verbose=False), "
    "abel.basex.basex_transform(X, sigma=1.0, reg=0.0, correction=False, basis_dir=None, dr=dr, verbose=False))")

# non-negative solver: data = exact forward transform of a non-negative source
PAIRS_NONNEG = {}
for _deg in range(4):
    PAIRS_NONNEG['daun-deg%d-nonneg==None' % _deg] = (
        "lambda S, dr: (lambda D: (abel.daun.daun_transform(D, reg='nonneg', degree=%d, dr=dr, verbose=False), "
        "abel.daun.daun_transform(D, reg=None, degree=%d, dr=dr, verbose=False)))"
        "(abel.daun.daun_transform(S, degree=%d, dr=dr, direction='forward', verbose=False))" % (_deg, _deg, _deg))

# every pair on every input shape the functions accept: many-row 2-D, one-row 2-D, 1-D profile; the result for the
# single row must also equal row 0 of the many-row result (for both members of the pair)
PAIR_SRC = '''
def pair_check(f, n, rows, dr, seed, nonneg, shape):
    X2 = np.random.default_rng(seed).normal(size=(rows, n)) * 10
    if nonneg: X2 = np.abs(X2) + 0.5
    fresh()
    a2, b2 = f(X2, dr)
    if shape == '2d':
        return rel(a2, b2)
    Xs = X2[:1] if shape == 'onerow' else X2[0]
    fresh()
    a, b = f(Xs.copy(), dr)
    a, b = np.asarray(a, dtype=float), np.asarray(b, dtype=float)
    return max(rel(a.ravel(), b.ravel()), rel(a.ravel(), np.asarray(a2)[0]), rel(b.ravel(), np.asarray(b2)[0]))
'''

SNIP_PAIR = SNIP_HEAD + PAIR_SRC + '''
name, n, rows, dr, seed, tol, nonneg, shape = %(name)r, %(n)d, %(rows)d, %(dr)r, %(seed)d, %(tol)r, %(nonneg)r, %(shape)r
f = %(fn)s
e = pair_check(f, n, rows, dr, seed, nonneg, shape)
print('%%s n=%%d dr=%%r input shape %%s: the results differ by %%.3e (tolerance %%.1e)' %% (name, n, dr, shape, e, tol))
sys.exit(0 if e <= tol else 1)
'''

RBASEX_SRC = '''
def rb_image(Rmax, odd, seed):
    rng = np.random.default_rng(seed)
    y, x = np.mgrid[-Rmax:Rmax + 1, -Rmax:Rmax + 1].astype(float)
    r = np.hypot(x, y); rs = np.where(r > 0, r, 1.0)
    a = 2 + np.cos(r / (2 + rng.random())); b = 1.5 + np.sin(r / (1.5 + rng.random()))
    if odd:
        cth = np.where(r > 0, -y / rs, 0.0)
        return a * (1 + 0.5 * cth) * (r <= Rmax)
    c2 = np.where(r > 0, (y / rs)**2, 1.0)
    return (a * c2 + b * (1 - c2)) * (r <= Rmax)
def rb_pair(kind, Rmax, odd, seed):
    order = 1 if odd else 2
    fresh()
    if kind == 'pos':
        src = rb_image(Rmax, odd, seed)
        data, _ = abel.rbasex.rbasex_transform(src, direction='forward', order=order, odd=odd)
        regs = ('pos', None)
    else:
        data = np.random.default_rng(seed).normal(size=(2 * Rmax + 1, 2 * Rmax + 1)) * 10
        regs = ({'L20': ('L2', 0), 'diff0': ('diff', 0), 'SVD0': ('SVD', 0)}[kind], None)
    out = []
    for reg in regs:
        fresh()
        im, d = abel.rbasex.rbasex_transform(data, order=order, odd=odd, reg=reg)
        out.append((im, d.cos()))
    feasible = True
    if kind == 'pos':
        c = out[1][1]
        if odd:
            cs = np.array([(c[0] + c[1]) / 2, (c[0] - c[1]) / 2])
        else:
            from scipy.linalg import invpascal
            cs = np.linalg.solve(np.flip(invpascal(2, 'upper')), c)
        feasible = bool(cs.min() > 1e-6 * np.abs(cs).max())
    return out, feasible
'''

SNIP_RBASEX = SNIP_HEAD + RBASEX_SRC + '''
kind, Rmax, odd, seed, tol = %(kind)r, %(Rmax)d, %(odd)r, %(seed)d, %(tol)r
out, feasible = rb_pair(kind, Rmax, odd, seed)
e = max(rel(out[0][0], out[1][0]), rel(out[0][1], out[1][1]))
print('rbasex reg=%%s vs None, Rmax=%%d odd=%%r: results differ by %%.3e (tolerance %%.1e), precondition %%s' %% (kind, Rmax, odd, e, tol, feasible))
sys.exit(0 if (e <= tol or not feasible) else 1)
'''

ALIASES = {
    'find_center==find_origin':
        "lambda IM: (center.find_center(IM, 'com'), center.find_origin(IM, 'com'))",
    'find_center_by_center_of_mass==find_origin_by_center_of_mass':
        "lambda IM: (center.find_center_by_center_of_mass(IM), center.find_origin_by_center_of_mass(IM))",
    'find_center_by_convolution==find_origin_by_convolution':
        "lambda IM: (center.find_center_by_convolution(IM), center.find_origin_by_convolution(IM))",
    'find_center_by_center_of_image==find_origin_by_center_of_image':
        "lambda IM: (center.find_center_by_center_of_image(IM), center.find_origin_by_center_of_image(IM))",
    'find_center_by_gaussian_fit==find_origin_by_gaussian_fit':
        "lambda IM: (center.find_center_by_gaussian_fit(IM), center.find_origin_by_gaussian_fit(IM))",
    'find_image_center_by_slice==find_origin_by_slice':
        "lambda IM: (center.find_image_center_by_slice(IM), center.find_origin_by_slice(IM))",
    'angular_integration_2D==radial_intensity(int2D)':
        "lambda IM: (np.array(vmi.angular_integration_2D(IM)), np.array(vmi.radial_intensity('int2D', IM)))",
    'angular_integration_3D==radial_intensity(int3D)':
        "lambda IM: (np.array(vmi.angular_integration_3D(IM)), np.array(vmi.radial_intensity('int3D', IM)))",
    'average_radial_intensity_2D==radial_intensity(avg2D)':
        "lambda IM: (np.array(vmi.average_radial_intensity_2D(IM)), np.array(vmi.radial_intensity('avg2D', IM)))",
    'average_radial_intensity_3D==radial_intensity(avg3D)':
        "lambda IM: (np.array(vmi.average_radial_intensity_3D(IM)), np.array(vmi.radial_intensity('avg3D', IM)))",
    'harmonics==Distributions.image.harmonics':
        "lambda IM: (vmi.harmonics(IM), vmi.Distributions('cc', 'MIN', 2).image(IM).harmonics())",
    'rharmonics==Distributions.image.rharmonics':
        "lambda IM: (vmi.rharmonics(IM), vmi.Distributions('cc', 'MIN', 2).image(IM).rharmonics())",
    'Ibeta==Distributions.image.Ibeta':
        "lambda IM: (vmi.Ibeta(IM), vmi.Distributions('cc', 'MIN', 2).image(IM).Ibeta(1))",
    'rIbeta==Distributions.image.rIbeta':
        "lambda IM: (vmi.rIbeta(IM), vmi.Distributions('cc', 'MIN', 2).image(IM).rIbeta(1))",
    # the same wrappers with NON-default values of every argument they forward
    'harmonics(args)==Distributions(args).image.harmonics':
        "lambda IM: (vmi.harmonics(IM, (IM.shape[0] // 2 - 1, IM.shape[1] // 2 + 1), 'min', 4, method='linear'), "
        "vmi.Distributions((IM.shape[0] // 2 - 1, IM.shape[1] // 2 + 1), 'min', 4, method='linear').image(IM).harmonics())",
    'rharmonics(args)==Distributions(args).image.rharmonics':
        "lambda IM: (vmi.rharmonics(IM, 'cl', 'hor', 4, use_sin=False), "
        "vmi.Distributions('cl', 'hor', 4, use_sin=False).image(IM).rharmonics())",
    'Ibeta(window=3)==Distributions.image.Ibeta(3)':
        "lambda IM: (vmi.Ibeta(IM, 'cc', 'MIN', 4, window=3), vmi.Distributions('cc', 'MIN', 4).image(IM).Ibeta(3))",
    'rIbeta(window=5)==Distributions.image.rIbeta(5)':
        "lambda IM: (vmi.rIbeta(IM, 'cc', 'MIN', 2, window=5), vmi.Distributions('cc', 'MIN', 2).image(IM).rIbeta(5))",
    'rIbeta(window=3,args)==Distributions(args).image.rIbeta(3)':
        "lambda IM: (vmi.rIbeta(IM, 'uc', 'ver', 2, 3, method='linear'), "
        "vmi.Distributions('uc', 'ver', 2, method='linear').image(IM).rIbeta(3))",
    'angular_integration_2D(args)==radial_intensity(int2D,args)':
        "lambda IM: (np.array(vmi.angular_integration_2D(IM, origin=(9, 11), dr=0.5, dt=0.1)), "
        "np.array(vmi.radial_intensity('int2D', IM, origin=(9, 11), dr=0.5, dt=0.1)))",
    'angular_integration_3D(args)==radial_intensity(int3D,args)':
        "lambda IM: (np.array(vmi.angular_integration_3D(IM, origin=(9, 11), dr=0.5, dt=0.1)), "
        "np.array(vmi.radial_intensity('int3D', IM, origin=(9, 11), dr=0.5, dt=0.1)))",
    'average_radial_intensity_2D(args)==radial_intensity(avg2D,args)':
        "lambda IM: (np.array(vmi.average_radial_intensity_2D(IM, origin=(9, 11), dr=2.0, dt=0.2)), "
        "np.array(vmi.radial_intensity('avg2D', IM, origin=(9, 11), dr=2.0, dt=0.2)))",
    'average_radial_intensity_3D(args)==radial_intensity(avg3D,args)':
        "lambda IM: (np.array(vmi.average_radial_intensity_3D(IM, origin=(9, 11), dr=2.0, dt=0.2)), "
        "np.array(vmi.radial_intensity('avg3D', IM, origin=(9, 11), dr=2.0, dt=0.2)))",
    'find_center(convolution)==find_origin(convolution)':
        "lambda IM: (center.find_center(IM, 'convolution'), center.find_origin(IM, 'convolution'))",
    'find_center_by_center_of_mass(round_output)==find_origin_by_center_of_mass(round_output)':
        "lambda IM: (center.find_center_by_center_of_mass(IM, False, True), "
        "center.find_origin_by_center_of_mass(IM, round_output=True))",
    'find_center_by_gaussian_fit(round_output)==find_origin_by_gaussian_fit(round_output)':
        "lambda IM: (center.find_center_by_gaussian_fit(IM, False, True), "
        "center.find_origin_by_gaussian_fit(IM, round_output=True))",
    'find_image_center_by_slice(args)==find_origin_by_slice(args)':
        "lambda IM: (center.find_image_center_by_slice(IM, 5, (0, -1), 1), "
        "center.find_origin_by_slice(IM, axes=1, slice_width=5, radial_range=(0, -1)))",
    'Transform-default==three_point-inverse':
        "lambda IM: (abel.Transform(IM).transform, abel.Transform(IM, direction='inverse', method='three_point', "
        "transform_options=dict(basis_dir=None)).transform)",
    'Transform-angular_integration==angular_integration_3D(transform)':
        "lambda IM: (np.array(abel.Transform(IM, angular_integration=True, transform_options=dict(basis_dir=None)).angular_integration), "
        "np.array(vmi.angular_integration_3D(abel.Transform(IM, transform_options=dict(basis_dir=None)).transform)))",
    'Transform-angular_integration-dr==angular_integration_3D(transform, dr)':
        "lambda IM: (np.array(abel.Transform(IM, method='hansenlaw', angular_integration=True, transform_options=dict(dr=0.5)).angular_integration), "
        "np.array(vmi.angular_integration_3D(abel.Transform(IM, method='hansenlaw', transform_options=dict(dr=0.5)).transform, dr=0.5)))",
    'Transform-angular_integration-options==angular_integration_3D(transform, options)':
        "lambda IM: (np.array(abel.Transform(IM, method='two_point', angular_integration=True, transform_options=dict(basis_dir=None), "
        "angular_integration_options=dict(dr=2.0, dt=0.1)).angular_integration), "
        "np.array(vmi.angular_integration_3D(abel.Transform(IM, method='two_point', transform_options=dict(basis_dir=None)).transform, dr=2.0, dt=0.1)))",
    'Transform-origin-com==center_image+Transform':
        "lambda IM: (abel.Transform(IM, method='hansenlaw', origin='com').transform, "
        "abel.Transform(center.center_image(IM, method='com'), method='hansenlaw').transform)",
}

# earlier calls with OTHER options must not change what a wrapper returns (no state carried from call to call)
POLLUTE_SRC = '''
def pollute(IM):
    for kw in (dict(method='hansenlaw', transform_options=dict(dr=3.0), angular_integration=True),
               dict(method='two_point', transform_options=dict(basis_dir=None, dr=0.25), angular_integration=True,
                    angular_integration_options=dict(dt=0.5)),
               dict(method='daun', direction='forward', transform_options=dict(basis_dir=None, verbose=False, dr=7.0, degree=2),
                    symmetry_axis=(0, 1), angular_integration=True),
               dict(method='basex', transform_options=dict(basis_dir=None, verbose=False, dr=0.1, reg=5.0), origin='convolution',
                    center_options=dict(crop='valid_region'), use_quadrants=(True, False, True, False), symmetry_axis=0),
               dict(method='onion_bordas', transform_options=dict(dr=2.0), symmetrize_method='fourier', symmetry_axis=1)):
        try: abel.Transform(IM, **kw)
        except Exception: pass
    try:
        vmi.angular_integration_3D(IM, dr=5.0, dt=0.3); vmi.harmonics(IM, order=4); vmi.Ibeta(IM, window=3)
        center.find_origin(IM, 'gaussian', axes=1); center.set_center(IM, (3.5, 2.5), crop='maintain_data')
    except Exception: pass
def alias_check(f, IM):
    # fresh state, then after unrelated calls with other options: both members must agree, and be unchanged
    fresh(); a, b = f(IM); a, b = np.array(a, dtype=float), np.array(b, dtype=float)
    pollute(IM.copy())
    a2, b2 = f(IM); a2, b2 = np.array(a2, dtype=float), np.array(b2, dtype=float)
    pollute(IM[::-1, :-1].copy())
    b3, a3 = [np.array(v, dtype=float) for v in f(IM)][::-1]
    return max(rel(a, b), rel(a2, b2), rel(a2, a), rel(b2, b), rel(a3, a), rel(b3, b))
'''

SNIP_ALIAS = SNIP_HEAD + POLLUTE_SRC + '''
name, size, seed, tol = %(name)r, %(size)d, %(seed)d, %(tol)r
f = %(fn)s
rng = np.random.default_rng(seed)
y, x = np.mgrid[:size, :size].astype(float)
IM = np.exp(-((x - size / 2 + 0.7)**2 + (y - size / 2 - 0.4)**2) / (size / 4.)**2) * 100 + rng.random((size, size))
e = alias_check(f, IM)
print('%%s: results (fresh state / after unrelated calls with other options) differ by %%.3e (tolerance %%.1e)' %% (name, e, tol))
sys.exit(0 if e <= tol else 1)
'''

# alternatives that agree only within an accuracy envelope (numeric, calibrated on the unchanged tree at dr = 1; the
# relative differences do not depend on dr, so the same envelope is used for every dr)
MEMBERS = {}      # name -> (source of lambda X, dr: result, direction)
for _d in ('forward', 'inverse'):
    for _h in (0, 1):
        MEMBERS['hansenlaw-hold%d-%s' % (_h, _d)] = ("lambda X, dr: abel.hansenlaw.hansenlaw_transform(X, dr=dr, direction=%r, hold_order=%d)" % (_d, _h), _d)
    for _g in range(4):
        MEMBERS['daun-deg%d-%s' % (_g, _d)] = ("lambda X, dr: abel.daun.daun_transform(X, degree=%d, dr=dr, direction=%r, verbose=False)" % (_g, _d), _d)
    MEMBERS['direct-%s' % _d] = ("lambda X, dr: abel.direct.direct_transform(X, dr=dr, direction=%r, backend='python')" % _d, _d)
    MEMBERS['basex-%s' % _d] = ("lambda X, dr: abel.basex.basex_transform(X, dr=dr, direction=%r, basis_dir=None, verbose=False)" % _d, _d)
for _m in ('two_point', 'three_point', 'onion_peeling'):
    MEMBERS['%s-inverse' % _m] = ("lambda X, dr: abel.dasch.%s_transform(X, basis_dir=None, dr=dr)" % _m, 'inverse')
MEMBERS['onion_bordas-inverse'] = ("lambda X, dr: abel.onion_bordas.onion_bordas_transform(X, dr=dr)", 'inverse')

ALT_PAIRS = [('hansenlaw-hold0-inverse', 'hansenlaw-hold1-inverse'), ('hansenlaw-hold0-forward', 'hansenlaw-hold1-forward'),
             ('daun-deg0-inverse', 'daun-deg1-inverse'), ('daun-deg1-inverse', 'daun-deg2-inverse'), ('daun-deg2-inverse', 'daun-deg3-inverse'),
             ('daun-deg0-forward', 'daun-deg1-forward'), ('daun-deg1-forward', 'daun-deg3-forward'),
             ('direct-inverse', 'hansenlaw-hold1-inverse'), ('direct-forward', 'hansenlaw-hold1-forward'),
             ('three_point-inverse', 'daun-deg2-inverse'), ('onion_bordas-inverse', 'onion_peeling-inverse'),
             ('basex-inverse', 'three_point-inverse'), ('basex-forward', 'daun-deg2-forward')]

ALT_SRC = '''
def alt_profile(n):
    r = np.arange(n, dtype=float)
    p = np.exp(-(r - 0.4 * n)**2 / (2 * (n / 10.)**2)) + 0.5 * np.exp(-r**2 / (2 * (n / 7.)**2))
    return np.vstack([p, 3 * p])
def gauss_pair(n, dr):
    # closed-form Abel pair on the grid r = arange(n)*dr: f = exp(-r^2/2s^2), F = sqrt(2 pi) s f
    r = np.arange(n) * dr; s = 0.2 * n * dr
    f = np.exp(-r**2 / (2 * s**2))
    return np.vstack([f, -2 * f]), np.sqrt(2 * np.pi) * s * np.vstack([f, -2 * f])
def member_error(fn, direction, n, dr):
    f, F = gauss_pair(n, dr)
    fresh()
    return rel(fn(F, dr), f) if direction == 'inverse' else rel(fn(f, dr), F)
def pair_difference(fa, fb, n, dr):
    X = alt_profile(n)
    fresh(); a = fa(X, dr); fresh(); b = fb(X, dr)
    return rel(a, b)
'''

SNIP_ALT = SNIP_HEAD + ALT_SRC + '''
kind, name, n, dr, env = %(kind)r, %(name)r, %(n)d, %(dr)r, %(env)r
if kind == 'member':
    e = member_error(%(fa)s, %(direction)r, n, dr)
    print('%%s n=%%d dr=%%r: deviates from the closed-form Gaussian pair by %%.3e (envelope %%.3e)' %% (name, n, dr, e, env))
else:
    e = pair_difference(%(fa)s, %(fb)s, n, dr)
    print('%%s n=%%d dr=%%r: the alternatives differ by %%.3e (envelope %%.3e)' %% (name, n, dr, e, env))
sys.exit(0 if e <= env else 1)
'''

_G = {}


def _globals():
    if not _G:
        import abel, abel.daun, abel.dasch, abel.rbasex, abel.basex, abel.hansenlaw, abel.direct   # noqa
        import abel.tools.center as center, abel.tools.vmi as vmi                                 # noqa
        _G.update(abel=abel, center=center, vmi=vmi, np=np)

        def fresh():
            ac.cleanup()
        _G['fresh'] = fresh
        exec(RBASEX_SRC, _G)
        _G['rel'] = ac.rel_err
        exec(PAIR_SRC, _G)
        exec(ALT_SRC, _G)
        exec(POLLUTE_SRC, _G)
    return _G


def calibrate(sizes=(40, 80, 120)):
    G = _globals()
    env = {}
    with ac.quiet():
        for name, (src, direction) in MEMBERS.items():
            f = eval(src, G)
            for n in sizes:
                env['member|%s|%d' % (name, n)] = G['member_error'](f, direction, n, 1.0)
        for na, nb in ALT_PAIRS:
            fa, fb = eval(MEMBERS[na][0], G), eval(MEMBERS[nb][0], G)
            for n in sizes:
                env['pair|%s~%s|%d' % (na, nb, n)] = G['pair_difference'](fa, fb, n, 1.0)
    json.dump(env, open(ENV_FILE, 'w'), indent=0, sort_keys=True)
    return env


def search(ctx, rng, enlarged):
    G = _globals()
    hits = []
    n_eval = 0
    distinct = set()
    worst = {}
    samples = []
    seed0 = int(rng.integers(1, 2**31 - 1))
    if ctx.quick and not enlarged:
        sizes = [3, 4, 5, 9, 30, int(rng.integers(10, 121))]
        rb_sizes = [4, 9, 20]
        alias_sizes = [21]
        alt_sizes = [40]
    else:
        sizes = list(range(3, 41)) + [57, 64, 99, 120]
        rb_sizes = [3, 4, 5, 8, 13, 20, 31, 50]
        alias_sizes = [20, 21, 35]
        alt_sizes = [40, 80, 120]

    def note(group, e, tol):
        worst[group] = max(worst.get(group, 0.0), e / tol)

    with ac.quiet():
        # ---- paired option sets on half-images -----------------------------------
        for table, nonneg in ((PAIRS_HALF, False), (PAIRS_NONNEG, True)):
            for name, src in table.items():
                f = eval(src, G)
                pair_check = G['pair_check']
                for n in [2] + sizes:
                    if n < 3 and ('three_point' in name or 'deg3' in name):
                        continue
                    for shape in ('2d', 'onerow', '1d'):
                        for dr in (1.0, 0.4, 2.5):
                            if shape != '2d' and n > 9 and n % 2 and dr == 1.0:
                                continue            # (thinning of the larger sizes)
                            seed = seed0 + n
                            rows = 2 + n % 2
                            tol = RTOL if not nonneg else 1e-8
                            try:
                                e = pair_check(f, n, rows, dr, seed, nonneg, shape)
                            except Exception as ex:    # noqa
                                e = float('inf')
                            n_eval += 1
                            distinct.add((name, n, dr, shape))
                            note(name.split('-')[0], e, tol)
                            if len(samples) < 4 and n > 5 and shape == '1d':
                                samples.append(dict(pair=name, n=n, dr=dr, rows=rows, shape=shape, difference=e))
                            if not e <= tol:
                                hits.append(Hit('paired-options', 'C17:%s:%s' % (name, shape if shape == '2d' else 'single-row'),
                                                '%s: n=%d dr=%r input %s: results differ by %.2e (tolerance %.0e)' % (name, n, dr, shape, e, tol),
                                                SNIP_PAIR % dict(name=name, n=n, rows=rows, dr=dr, seed=seed, tol=tol, nonneg=nonneg,
                                                                 fn=src, shape=shape),
                                                dict(pair=name, n=n, dr=dr, seed=seed, shape=shape, difference=e)))
        # ---- rbasex: zero strength, 'pos' ------------------------------------------
        n_feasible = 0
        for kind in ('L20', 'diff0', 'SVD0', 'pos'):
            for Rmax in rb_sizes:
                for odd in (False, True):
                    seed = seed0 + Rmax
                    tol = RTOL if kind != 'pos' else 1e-8
                    try:
                        out, feasible = G['rb_pair'](kind, Rmax, odd, seed)
                        e = max(ac.rel_err(out[0][0], out[1][0]), ac.rel_err(out[0][1], out[1][1]))
                    except Exception as ex:    # noqa
                        e, feasible = float('inf'), True
                    n_eval += 1
                    if feasible:
                        n_feasible += 1
                        distinct.add(('rbasex', kind, Rmax, odd))
                        note('rbasex-' + kind, e, tol)
                    if feasible and not e <= tol:
                        hits.append(Hit('paired-options', 'C17:rbasex-%s==None:odd=%r' % (kind, odd),
                                        'rbasex reg=%s vs reg=None, Rmax=%d odd=%r: image/distributions differ by %.2e' % (kind, Rmax, odd, e),
                                        SNIP_RBASEX % dict(kind=kind, Rmax=Rmax, odd=odd, seed=seed, tol=tol),
                                        dict(kind=kind, Rmax=Rmax, odd=odd, difference=e)))
        samples.append(dict(group='rbasex', feasible_cases=n_feasible))
        # ---- W == B^T (hypothesis of C17_daun_default_eq_onion_peeling) ----------
        import abel.dasch, abel.daun    # noqa
        for n in sizes:
            ac.cleanup()
            _, got = ac.capture_locals('_bs_onion_peeling', 'dasch.py', ['W'], lambda: abel.dasch._bs_onion_peeling(n))
            B = abel.daun._bs_daun(n, 0)
            e = ac.rel_err(got.get('W', np.zeros((0, 0))), B.T)
            n_eval += 1
            distinct.add(('W==B^T', n))
            note('W==B^T', e, 1e-13)
            if not e <= 1e-13:
                hits.append(Hit('onion-weights', 'C17:onion_W!=daun0^T',
                                'onion-peeling weight matrix differs from the transposed daun degree-0 basis by %.2e at n=%d' % (e, n),
                                SNIP_HEAD + "n=%d\nimport sys\ngot={}\ndef prof(fr,ev,arg):\n    if ev=='return' and fr.f_code.co_name=='_bs_onion_peeling': got['W']=fr.f_locals['W'].copy()\n"
                                "sys.setprofile(prof); abel.dasch._bs_onion_peeling(n); sys.setprofile(None)\n"
                                "e=rel(got['W'], abel.daun._bs_daun(n,0).T); print('W vs daun0^T differ by', e); sys.exit(0 if e<=1e-13 else 1)\n" % n,
                                dict(n=n, difference=e)))
        # ---- wrappers, module-level helpers, deprecated aliases ----------------------
        for name, src in ALIASES.items():
            f = eval(src, G)
            for size in alias_sizes:
                seed = seed0 + size
                r2 = np.random.default_rng(seed)
                y, x = np.mgrid[:size, :size].astype(float)
                IM = np.exp(-((x - size / 2 + 0.7)**2 + (y - size / 2 - 0.4)**2) / (size / 4.)**2) * 100 + r2.random((size, size))
                try:
                    e = G['alias_check'](f, IM)
                except Exception as ex:    # noqa
                    e = float('inf')
                n_eval += 3
                distinct.add((name, size))
                note('aliases', e, 1e-12)
                if not e <= 1e-12:
                    hits.append(Hit('wrappers', 'C17:' + name, '%s: results (fresh / after unrelated calls with other options) differ by %.2e on a %dx%d image' % (name, e, size, size),
                                    SNIP_ALIAS % dict(name=name, size=size, seed=seed, tol=1e-12, fn=src),
                                    dict(alias=name, size=size, difference=e)))
        # ---- alternatives within envelopes (numeric only) ----------------------------
        try:
            envs = json.load(open(ENV_FILE))
        except OSError:
            envs = {}
        items = [('member', name, MEMBERS[name][0], None, MEMBERS[name][1]) for name in MEMBERS] + \
                [('pair', '%s~%s' % (na, nb), MEMBERS[na][0], MEMBERS[nb][0], None) for na, nb in ALT_PAIRS]
        for kind, name, sa, sb, direction in items:
            fa = eval(sa, G)
            fb = eval(sb, G) if sb else None
            for n in alt_sizes:
                cal = envs.get('%s|%s|%d' % (kind, name, n))
                if cal is None:
                    continue
                env = 1.5 * cal + 1e-12
                for dr in (0.4, 1.0, 2.5):
                    try:
                        e = G['member_error'](fa, direction, n, dr) if kind == 'member' else G['pair_difference'](fa, fb, n, dr)
                    except Exception as ex:   # noqa
                        e = float('inf')
                    n_eval += 1
                    distinct.add((kind, name, n, dr))
                    note('alternatives', e, env)
                    if not e <= env:
                        hits.append(Hit('alternatives-envelope', 'C17:%s:%s' % (kind, name),
                                        '%s %s n=%d dr=%r: %s %.3e, envelope %.3e'
                                        % (kind, name, n, dr, 'error against the closed-form Gaussian pair' if kind == 'member'
                                           else 'alternatives differ by', e, env),
                                        SNIP_ALT % dict(kind=kind, name=name, n=n, dr=dr, env=env, fa=sa, fb=sb or 'None', direction=direction),
                                        dict(kind=kind, name=name, n=n, dr=dr, difference=e)))
    ac.cleanup()
    return hits, n_eval, len(distinct), worst, samples


def run(ctx):
    rng = np.random.default_rng(ctx.seed)
    em, terr = ac.run_translator()
    pr = vlib.coq_props('C17')
    ac.standard_cov(ctx, pr, 'C17')
    tv_n, tv_fail = (0, [])
    if em is not None:
        tv_n, tv_fail = ac.validate_translation(em, rng, sizes=(3, 7) if ctx.quick else (3, 4, 7, 16, 33))
    ctx.cov.update(traces_validated_against_impl=tv_n, translation_validation_failures=len(tv_fail),
                   generated_definitions=0 if em is None else len(em.index))
    # proof obligations = theorems of the props file; the numeric validation of the generated terms is the tie
    ctx.cov['obligations'] = len(pr['theorems'])
    ctx.cov['discharged'] = pr['discharged']
    ctx.cov['generated_terms_validated_numerically'] = tv_n - len(tv_fail)
    broken = (not pr['ok']) or bool(terr) or bool(tv_fail)
    hits, n_eval, n_distinct, worst, samples = search(ctx, rng, enlarged=broken)
    ctx.cov.update(evaluations=n_eval + tv_n, distinct_nontrivial=n_distinct, exhaustive=False,
                   rule='a case is distinct by (pair of option sets, size, dr); data: random signed normal*10 half-images with 2-3 rows '
                        '(|.|+0.5 sources pushed through the forward transform for the non-negative solvers; rbasex pos: synthetic '
                        'non-negative cos^2/sin^2 image pushed through the forward transform, counted only when the unconstrained '
                        'solution is feasible)',
                   samples=samples, worst_difference_over_tolerance=worst,
                   input_distribution=dict(pairs=len(PAIRS_HALF) + len(PAIRS_NONNEG), aliases=len(ALIASES),
                                           alternatives=len(MEMBERS) + len(ALT_PAIRS), tolerance=RTOL))
    new = 0
    seen = set()
    for h in hits:
        if h.key in seen:
            continue
        seen.add(h.key)
        if ctx.report_hit(h):
            new += 1
    if new == 0:
        if terr:
            ctx.report_broken('translator', 'tools/translate/matrix_expr.py on ' + vlib.REPO, terr)
        elif not pr['ok']:
            ctx.report_broken('proof', pr['broken'] or 'props/C17.v', pr['error'] or '')
        elif tv_fail:
            ctx.report_broken('correspondence', 'generated matrix expression vs implementation (%d of %d)' % (len(tv_fail), tv_n),
                              '; '.join(tv_fail[:5]))
    ctx.assumptions += [
        'theorems are about the matrix expressions generated from the current sources (any field; NNLS clauses over any real field); '
        'inv / solve_triangular / nnls by specification',
        'daun default == onion_peeling: proved from W = B^T; W = B^T itself is proved entry-wise for hand-transcribed closed forms '
        '(proofs/OnionDaun0.v, Coq reals) and observed numerically on the implementation (<= 1e-13); the symbolic tie of those '
        'two formulas to the source belongs to property C09',
        "daun ('diff', 0) etc. take the reg=None code path (decision theorem); in addition the Tikhonov expressions at s = 0 equal "
        'the inverse (theorem); rbasex (L2, 0) / (diff, 0) evaluate the Tikhonov expression (theorem); rbasex (SVD, 0): numeric only',
        "rbasex 'pos' and daun 'nonneg': general theorem for any solver meeting the NNLS specification with a full-rank matrix; the "
        'block matrix of rbasex pos is not translated (numeric only)',
        'wrappers two_point/three_point/onion_peeling_transform are checked by the translator to pass their arguments unchanged; '
        'deprecated aliases, vmi helpers, Transform defaults: numeric only',
        'hold_order / degree / method alternatives "within their envelopes": NUMERIC ONLY, envelope = 1.5 x difference recorded on '
        'the unchanged tree (tools/props/C17_envelopes.json); direct C backend not built here (cython_ext False)',
    ]
