# C04 — every transform is a fixed linear, row-independent operator scaling
# with dr; non-negativity solvers are positively homogeneous; image tools are
# linear.
#
#   theorems   coq/props/C04.v (generated matrix expressions, Hansen-Law model,
#              generated dr sites, NNLS by specification, C06 symmetry model)
#   tie        translators re-run (matrix_expr.py, dr_sites.py); numeric
#              validation of the generated terms; correspondence run of the
#              Hansen-Law model (Coq vm_compute, tables read from the running
#              implementation) against hansenlaw_transform
#   search     operator extraction on the implementation: the n unit rows give
#              the matrix A; then T(X) = X.A on signed non-smooth data,
#              T(aX+bY) = aT(X)+bT(Y) with negative coefficients, rows do not
#              influence each other, T_dr = dr^(+-1) T_1; Transform-level,
#              image tools, positive homogeneity of the NNLS solvers
import re

import numpy as np

import vlib
from vlib import Hit
from props import _algebra_common as ac

LEVEL = 'proof'
TOL = 1e-12                 # x max|input| x (max column abs-sum of the extracted operator)
RTOL_FULL = 1e-10           # full-image / Transform-level: relative to the size of the outputs

SNIP_HEAD = '''
import sys, warnings
import numpy as np
warnings.simplefilter('ignore')
import abel, abel.basex, abel.daun, abel.dasch, abel.direct, abel.hansenlaw, abel.onion_bordas, abel.linbasex, abel.rbasex
import abel.tools.symmetry as symmetry, abel.tools.center as center, abel.tools.vmi as vmi
def fresh():
    for m in (abel.basex, abel.daun, abel.dasch, abel.rbasex, abel.linbasex): m.cache_cleanup()
def A2(x): return np.atleast_2d(np.asarray(x, dtype=float))
def dev(a, b):
    a = np.asarray(a, float); b = np.asarray(b, float)
    if a.shape != b.shape or not (np.all(np.isfinite(a)) and np.all(np.isfinite(b))): return float('inf')
    return float(np.max(np.abs(a - b))) if a.size else 0.0
'''

# ---------------------------------------------------------------------------
# half-image methods:  name -> (source of  lambda X, dr: result , dr exponent)
# ---------------------------------------------------------------------------
HALF = {}
for _d, _e in (('forward', 1), ('inverse', -1)):
    for _on, _o in (('plain', "sigma=1.0, reg=0.0, correction=False"), ('corr', "sigma=1.0, reg=0.0, correction=True"),
                    ('reg', "sigma=1.0, reg=10.0, correction=True"), ('sigma2', "sigma=2.0, reg=1.0, correction=True")):
        HALF['basex-%s-%s' % (_d, _on)] = (
            "lambda X, dr: abel.basex.basex_transform(X, %s, basis_dir=None, dr=dr, verbose=False, direction=%r)" % (_o, _d), _e)
    for _deg in range(4):
        HALF['daun-%s-deg%d' % (_d, _deg)] = (
            "lambda X, dr: abel.daun.daun_transform(X, reg=None, degree=%d, dr=dr, direction=%r, basis_dir=None, verbose=False)" % (_deg, _d), _e)
    for _c in (True, False):
        HALF['direct-%s-correction=%r' % (_d, _c)] = (
            "lambda X, dr: abel.direct.direct_transform(X, dr=dr, direction=%r, correction=%r, backend='python')" % (_d, _c), _e)
    for _h in (0, 1):
        HALF['hansenlaw-%s-hold%d' % (_d, _h)] = (
            "lambda X, dr: abel.hansenlaw.hansenlaw_transform(X, dr=dr, direction=%r, hold_order=%d)" % (_d, _h), _e)
# direct on an explicit mesh r= (on-axis grid k*dr and half-pixel grid (k+1/2)*dr): the dr clause = scaling law of the mesh
for _d, _e in (('forward', 1), ('inverse', -1)):
    for _c in (True, False):
        for _gn, _off in (('onaxis', '0.0'), ('halfpixel', '0.5')):
            HALF['direct-%s-correction=%r-mesh-%s' % (_d, _c, _gn)] = (
                "lambda X, dr: abel.direct.direct_transform(X, r=(np.arange(np.shape(X)[-1]) + %s) * dr, direction=%r, "
                "correction=%r, backend='python')" % (_off, _d, _c), _e)
for _rn, _r in (('diff', "('diff', 1.5)"), ('L2', "('L2', 0.8)"), ('L2c', "('L2c', 0.8)"), ('num', '2.5')):
    HALF['daun-inverse-deg1-%s' % _rn] = (
        "lambda X, dr: abel.daun.daun_transform(X, reg=%s, degree=1, dr=dr, direction='inverse', basis_dir=None, verbose=False)" % _r, -1)
for _s in (True, False):
    HALF['onion_bordas-shift_grid=%r' % _s] = (
        "lambda X, dr: abel.onion_bordas.onion_bordas_transform(X, dr=dr, direction='inverse', shift_grid=%r)" % _s, -1)
for _m in ('onion_peeling', 'two_point', 'three_point'):
    HALF[_m] = ("lambda X, dr: abel.dasch.%s_transform(X, basis_dir=None, dr=dr, direction='inverse')" % _m, -1)

NONNEG_HALF = {
    'daun-nonneg-deg0': "lambda X, dr: abel.daun.daun_transform(X, reg='nonneg', degree=0, dr=dr, basis_dir=None, verbose=False)",
    'daun-nonneg-deg2': "lambda X, dr: abel.daun.daun_transform(X, reg='nonneg', degree=2, dr=dr, basis_dir=None, verbose=False)",
}

# The clauses for a half-image transform f(X, dr); used verbatim by the check and by the replay.
#   operator     T(X) = X.A with A extracted from the unit rows               (linear methods)
#   linear       T(aX+bY) = aT(X)+bT(Y), coefficients of both signs            (linear methods)
#   rows         permuting / flipping / duplicating / replacing / deleting other rows leaves a row's output unchanged
#   near-rows    rows that differ from their neighbour by ~1e-6 (and ~1e-9) relative are transformed independently
#   dr           T_dr = dr^(+-1) T_1, on the first call AND on repeated calls with the same parameters (cache hits),
#                and dr = 1 is still right afterwards
#   scale        T(2^k X) = 2^k T(X) for k = -40, -20, 20, 40 (exact powers of two)
#   dtype        whenever a result is returned for an integer-typed image it equals the result for the same values stored as
#                floats and is linear with integer coefficients (a loud TypeError/ValueError is acceptable)
CHECK_SRC = '''
def half_check(f, clause, n, rows, dr, seed, a, b, expo, nonneg, TOL):
    raw = lambda X, dr=1.0: A2(f(np.array(X, dtype=float), dr))      # no cache reset
    def T(X, dr=1.0):
        fresh()
        return raw(X, dr)
    rng = np.random.default_rng(seed)
    X = rng.normal(size=(rows, n)) * 10; Y = rng.normal(size=(rows, n)) * 10
    if nonneg:
        X[::2] = np.abs(X[::2])                      # some rows with a mostly non-zero solution
    mx = float(np.max(np.abs(X)))
    TX = T(X)
    if nonneg:
        norm = max(float(np.max(np.abs(TX))) / mx, 1.0); tol = 1e-9 * norm
        if TX.min() < -1e-9 * np.abs(TX).max():
            return float('inf'), tol, norm          # a non-negativity solver returned a negative value
    else:
        A = T(np.eye(n))                             # operator extraction: row i of T(I) is e_i.A
        norm = float(np.max(np.sum(np.abs(A), axis=0))); tol = TOL * norm
    if clause == 'operator':
        d = dev(TX, X.dot(A)) / mx
    elif clause == 'linear':
        d = dev(T(a * X + b * Y), a * TX + b * T(Y)) / (abs(a) * mx + abs(b) * float(np.max(np.abs(Y))))
    elif clause == 'rows':
        perm = rng.permutation(rows); i = int(perm[0])
        Z = X.copy(); Z[np.arange(rows) != i] = Y[np.arange(rows) != i] * 1e3
        d = max(dev(T(X[perm])[0], TX[i]), dev(T(X[[i, i]])[1], TX[i]), dev(T(Z)[i], TX[i]), dev(T(X[i:])[0], TX[i]),
                dev(T(X[::-1])[::-1], TX), dev(T(X[perm]), TX[perm])) / mx
    elif clause == 'near-rows':
        x = X[0]
        Z = np.array([x, x * (1 + 1e-6 * rng.normal(size=n)), x + 1e-9 * mx * rng.normal(size=n), x, x * (1 - 3e-7), -x, x * (1 + 1e-6)])
        TZ = T(Z)
        d = max(dev(TZ[k], T(Z[[k]])[0]) for k in range(len(Z))) / mx
        if not nonneg:      # the small differences themselves must be transformed, not dropped
            d = max(d, dev(TZ[1] - TZ[0], T(np.array([Z[1] - Z[0]]))[0]) / mx, dev(TZ[6] - TZ[0], 1e-6 * TZ[0]) / mx)
    elif clause == 'dr':
        s = dr ** expo
        fresh()
        r1 = raw(X, dr); r2 = raw(X, dr); r3 = raw(Y, dr); r4 = raw(X, 1.0); r5 = raw(X, dr)
        TY = T(Y)
        d = max(dev(r1, s * TX) / s, dev(r2, s * TX) / s, dev(r3, s * TY) / s, dev(r4, TX), dev(r5, s * TX) / s) / mx
    elif clause == 'scale':
        d = 0.0
        for k in (-40, -20, 20, 40):
            lam = 2.0 ** k
            d = max(d, dev(T(lam * X), lam * TX) / (lam * mx))
    elif clause == 'homogeneous':
        d = dev(T(a * X), a * TX) / (a * mx)
    elif clause == 'dtype':
        # an integer-typed image is an image: same result as for the same values stored as floats, and linear on integers
        it = np.int64 if n & 1 else np.int32
        Xi = np.rint(X).astype(it); Yi = np.rint(Y).astype(it)
        tf = T(Xi.astype(float))
        try:
            fresh(); ti = A2(f(Xi.copy(), 1.0))
        except (TypeError, ValueError):
            return 0.0, tol, norm          # refusing an integer-typed image loudly is acceptable (not a silent wrong result)
        d = dev(ti, tf) / mx
        if not nonneg:
            fresh(); tl = A2(f(2 * Xi - 3 * Yi, 1.0))
            d = max(d, dev(tl, 2 * tf - 3 * T(Yi.astype(float))) / (5 * mx))
        for dt in (np.uint8, np.uint16, np.int16):           # raw camera frames: values near the extremes of the type
            top = np.iinfo(dt).max
            Xe = (top - np.abs(np.rint(X))).astype(dt)
            if np.iinfo(dt).min < 0 and not nonneg: Xe[::2] = -Xe[::2]
            te = T(Xe.astype(float))
            try:
                fresh(); d = max(d, dev(A2(f(Xe.copy(), 1.0)), te) / float(top))
            except (TypeError, ValueError):
                pass
    return d, tol, norm
'''

SNIP_HALF = SNIP_HEAD + CHECK_SRC + '''
name, clause, n, rows, dr, seed, a, b, expo, nonneg = %(name)r, %(clause)r, %(n)d, %(rows)d, %(dr)r, %(seed)d, %(a)r, %(b)r, %(expo)d, %(nonneg)r
f = %(fn)s
d, tol, norm = half_check(f, clause, n, rows, dr, seed, a, b, expo, nonneg, %(tol)r)
print('%%s n=%%d clause=%%s: deviation %%.3e x max|input| (tolerance %%.3e)' %% (name, n, clause, d, tol))
sys.exit(0 if d <= tol else 1)
'''

# abel.Transform on a whole image with a pixel size: name -> (source of lambda IM, dr, dr exponent)
TRANSFORM_DR = {}
for _m, _opt, _dirs in (('basex', 'basis_dir=None, verbose=False, ', ('forward', 'inverse')),
                        ('daun', 'basis_dir=None, verbose=False, ', ('forward', 'inverse')),
                        ('hansenlaw', '', ('forward', 'inverse')), ('direct', "backend='python', ", ('forward', 'inverse')),
                        ('onion_bordas', '', ('inverse',)), ('three_point', 'basis_dir=None, ', ('inverse',)),
                        ('two_point', 'basis_dir=None, ', ('inverse',)), ('onion_peeling', 'basis_dir=None, ', ('inverse',))):
    for _d in _dirs:
        TRANSFORM_DR['Transform-%s-%s-dr' % (_m, _d)] = (
            "lambda IM, dr: abel.Transform(IM, method=%r, direction=%r, transform_options=dict(%sdr=dr)).transform" % (_m, _d, _opt),
            1 if _d == 'forward' else -1)

SNIP_TDR = SNIP_HEAD + '''
name, size, dr, seed, expo, rtol = %(name)r, %(size)d, %(dr)r, %(seed)d, %(expo)d, %(rtol)r
f = %(fn)s
X = np.random.default_rng(seed).normal(size=(size, size)) * 10
fresh(); T1 = np.asarray(f(X, 1.0)); fresh()
r1 = np.asarray(f(X, dr)); r2 = np.asarray(f(X, dr))            # second call: cached matrices
s = dr ** expo
d = max(dev(r1, s * T1), dev(r2, s * T1)); scale = s * float(np.max(np.abs(T1)))
print('%%s %%dx%%d dr=%%r: whole-image result deviates from dr^%%d x (dr=1 result) by %%.3e (scale %%.3e)' %% (name, size, size, dr, expo, d, scale))
sys.exit(0 if d <= rtol * scale else 1)
'''

# ---------------------------------------------------------------------------
# full-image operators (linearity only): name -> source of lambda IM: array(s)
# ---------------------------------------------------------------------------
FULL = {
    'linbasex-image': "lambda IM: abel.linbasex.linbasex_transform_full(IM, basis_dir=None)[0]",
    'linbasex-projections': "lambda IM: abel.linbasex.linbasex_transform_full(IM, basis_dir=None)[3]",
    'linbasex-3angles-orders024': "lambda IM: abel.linbasex.linbasex_transform_full(IM, basis_dir=None, proj_angles=[0, np.pi/4, np.pi/2], legendre_orders=[0, 2, 4])[0]",
    'linbasex-wrapper': "lambda IM: abel.linbasex.linbasex_transform(IM, basis_dir=None)",
}
# every documented option family of linbasex; [0] = image, [3] = projections are linear by definition
# ([2] = Beta is normalised to its maximum and thresholded: NOT linear, not tested; [1] = radial does not depend on the data)
for _on, _o in (('smoothing', 'smoothing=1.5'), ('smoothing-large', 'smoothing=4'), ('radial_step2', 'radial_step=2'),
                ('clip', 'clip=2'), ('radial_step2-clip-smoothing', 'radial_step=2, clip=1, smoothing=1'),
                ('threshold-norm_range', 'threshold=0.6, norm_range=(2, 5)'), ('rcond', 'rcond=0.05'),
                ('orders012', 'legendre_orders=[0, 1, 2]'), ('orders0', 'legendre_orders=[0], proj_angles=[0]'),
                ('angles4', 'proj_angles=[0, np.pi/6, np.pi/3, np.pi/2], legendre_orders=[0, 2, 4], smoothing=1')):
    FULL['linbasex-%s-image' % _on] = "lambda IM: abel.linbasex.linbasex_transform_full(IM, basis_dir=None, %s)[0]" % _o
    FULL['linbasex-%s-projections' % _on] = "lambda IM: abel.linbasex.linbasex_transform_full(IM, basis_dir=None, %s)[3]" % _o
FULL['linbasex-wrapper-smoothing'] = "lambda IM: abel.linbasex.linbasex_transform(IM, basis_dir=None, smoothing=2)"
FULL['Transform-linbasex-smoothing'] = ("lambda IM: abel.Transform(IM, method='linbasex', transform_options=dict(basis_dir=None, smoothing=1.5, "
                                        "legendre_orders=[0, 2, 4], proj_angles=[0, np.pi/4, np.pi/2])).transform")
for _d in ('forward', 'inverse'):
    FULL['rbasex-%s-image' % _d] = "lambda IM: abel.rbasex.rbasex_transform(IM, direction=%r, order=2)[0]" % _d
    FULL['rbasex-%s-distr' % _d] = "lambda IM: abel.rbasex.rbasex_transform(IM, direction=%r, order=2)[1].cos()" % _d
    FULL['rbasex-%s-odd' % _d] = "lambda IM: abel.rbasex.rbasex_transform(IM, direction=%r, order=3, odd=True)[0]" % _d
for _rn, _r in (('L2', "('L2', 5)"), ('diff', "('diff', 5)"), ('SVD', "('SVD', 0.1)")):
    FULL['rbasex-inverse-%s' % _rn] = "lambda IM: abel.rbasex.rbasex_transform(IM, order=2, reg=%s)[0]" % _r
FULL['rbasex-inverse-origin-rmax'] = "lambda IM: abel.rbasex.rbasex_transform(IM, origin=(IM.shape[0]//2 - 1, IM.shape[1]//2 + 1), rmax=IM.shape[0]//2 - 2, order=2, out='full')[0]"

_TO = "transform_options=dict(basis_dir=None%s)"
for _m, _x in (('three_point', ''), ('two_point', ''), ('onion_peeling', ''), ('hansenlaw', ''), ('onion_bordas', ''),
               ('basex', ', verbose=False'), ('daun', ', verbose=False'), ('rbasex', ''), ('linbasex', '')):
    opt = "transform_options=dict(%s)" % {'hansenlaw': '', 'onion_bordas': ''}.get(_m, 'basis_dir=None' + _x)
    FULL['Transform-%s-inverse' % _m] = "lambda IM: abel.Transform(IM, method=%r, direction='inverse', %s).transform" % (_m, opt)
FULL['Transform-direct-inverse'] = "lambda IM: abel.Transform(IM, method='direct', direction='inverse', transform_options=dict(backend='python')).transform"
for _m, _opt in (('hansenlaw', ''), ('basex', 'basis_dir=None, verbose=False'), ('daun', 'basis_dir=None, verbose=False'),
                 ('direct', "backend='python'")):
    FULL['Transform-%s-forward' % _m] = "lambda IM: abel.Transform(IM, method=%r, direction='forward', transform_options=dict(%s)).transform" % (_m, _opt)
for _k, (_ax, _uq) in enumerate(((0, (True, True, True, True)), (1, (True, False, True, True)), ((0, 1), (True, False, False, True)),
                                 (None, (True, True, True, True)), ((0, 1), (False, True, False, False)))):
    FULL['Transform-three_point-axis=%r-quadrants=%s' % (_ax, ''.join('TF'[not q] for q in _uq))] = (
        "lambda IM: abel.Transform(IM, method='three_point', symmetry_axis=%r, use_quadrants=%r, "
        "transform_options=dict(basis_dir=None)).transform" % (_ax, _uq))
    FULL['Transform-hansenlaw-axis=%r-quadrants=%s-origin' % (_ax, ''.join('TF'[not q] for q in _uq))] = (
        "lambda IM: abel.Transform(IM, method='hansenlaw', symmetry_axis=%r, use_quadrants=%r, "
        "origin=(IM.shape[0]//2 - 1, IM.shape[1]//2 + 2)).transform" % (_ax, _uq))
FULL['Transform-daun-fractional-origin'] = ("lambda IM: abel.Transform(IM, method='daun', origin=(IM.shape[0]/2 - 0.8, IM.shape[1]/2 + 0.3), "
                                            "transform_options=dict(basis_dir=None, verbose=False)).transform")
FULL['Transform-fourier-symmetrize'] = ("lambda IM: abel.Transform(IM, method='two_point', symmetry_axis=(0, 1), symmetrize_method='fourier', "
                                        "transform_options=dict(basis_dir=None)).transform")
# image tools
for _ax in (0, 1, (0, 1)):
    for _uq in ((True, True, True, True), (True, False, True, False) if _ax != 1 else (True, True, False, False)):
        for _sm in ('average', 'fourier'):
            FULL['symmetrise-axis=%r-%s-%s' % (_ax, ''.join('TF'[not q] for q in _uq), _sm)] = (
                "lambda IM: symmetry.put_image_quadrants(symmetry.get_image_quadrants(IM, symmetry_axis=%r, use_quadrants=%r, "
                "symmetrize_method=%r), IM.shape, %r)" % (_ax, _uq, _sm, _ax))
FULL['get_image_quadrants-Q0'] = "lambda IM: symmetry.get_image_quadrants(IM, symmetry_axis=(0, 1))[0]"
FULL['set_center-integer-origin'] = "lambda IM: center.set_center(IM, (IM.shape[0]//2 - 2, IM.shape[1]//2 + 1))"
FULL['set_center-fractional-origin'] = "lambda IM: center.set_center(IM, (IM.shape[0]/2 - 1.3, IM.shape[1]/2 + 0.6))"
FULL['set_center-crop-valid'] = "lambda IM: center.set_center(IM, (IM.shape[0]//2 - 1, IM.shape[1]//2 + 1), crop='valid_region')"
FULL['set_center-maintain_data-order1'] = "lambda IM: center.set_center(IM, (IM.shape[0]/2 - 1.5, IM.shape[1]/2), crop='maintain_data', order=1)"
FULL['center_image-explicit-origin'] = "lambda IM: center.center_image(IM, method=(IM.shape[0]//2 + 1, IM.shape[1]//2 - 1))"
for _k in ('int2D', 'int3D', 'avg2D', 'avg3D'):
    FULL['radial_intensity-%s' % _k] = "lambda IM: vmi.radial_intensity(%r, IM, origin=(IM.shape[0]//2, IM.shape[1]//2 - 1), dr=0.5)[1]" % _k
FULL['angular_integration'] = "lambda IM: vmi.angular_integration(IM)[1]"
FULL['average_radial_intensity'] = "lambda IM: vmi.average_radial_intensity(IM)[1]"
FULL['Distributions-cos'] = "lambda IM: vmi.Distributions('cc', 'MIN', 2).image(IM).cos()"
FULL['Distributions-cossin-order4'] = "lambda IM: vmi.Distributions('cc', 'MIN', 4).image(IM).cossin()"
FULL['Distributions-harmonics-odd'] = "lambda IM: vmi.Distributions('cc', 'MIN', 3, odd=True).image(IM).harmonics()"
FULL['Distributions-origin-weights'] = ("lambda IM: vmi.Distributions((IM.shape[0]//2 - 1, IM.shape[1]//2 + 1), 'MIN', 2, "
                                        "weights=1.0 + (np.arange(IM.size).reshape(IM.shape) % 3)).image(IM).cos()")
FULL['Distributions-nearest'] = "lambda IM: vmi.Distributions('cc', 'MIN', 2, method='nearest').image(IM).cos()"

for _o in ('same', 'fold', 'unfold', 'full', 'full-unique'):
    FULL['rbasex-out=%s' % _o] = "lambda IM: abel.rbasex.rbasex_transform(IM, order=2, out=%r)[0]" % _o
FULL['rbasex-forward-out=fold-odd'] = "lambda IM: abel.rbasex.rbasex_transform(IM, direction='forward', order=1, odd=True, out='fold')[0]"
FULL['rbasex-distr-harmonics'] = "lambda IM: abel.rbasex.rbasex_transform(IM, order=2, out=None)[1].harmonics()"
FULL['Distributions-rcos'] = "lambda IM: vmi.Distributions('cc', 'MIN', 2).image(IM).rcos()[1:]"
FULL['Distributions-rcossin-lowerleft'] = "lambda IM: vmi.Distributions('ll', 'MIN', 2).image(IM).rcossin()[1:]"
FULL['Distributions-folding-origin-rmax'] = ("lambda IM: vmi.Distributions((IM.shape[0]//2 + 2, IM.shape[1]//2 - 2), 'all', 2)"
                                             ".image(IM).cos()")
FULL['Distributions-order0-midrow'] = "lambda IM: vmi.Distributions('cl', 'MIN', 0).image(IM).cos()"
FULL['vmi-harmonics'] = "lambda IM: vmi.harmonics(IM, 'cc', 'MIN', 4)"
FULL['vmi-rharmonics-odd'] = "lambda IM: vmi.rharmonics(IM, 'cc', 'MIN', 3, odd=True)[1:]"
FULL['radial_intensity-default-origin'] = "lambda IM: vmi.radial_intensity('int3D', IM)[1]"
FULL['angular_integration_2D-origin'] = "lambda IM: vmi.angular_integration_2D(IM, origin=(IM.shape[0]//2 + 1, IM.shape[1]//2), dr=2, dt=0.05)[1]"
FULL['average_radial_intensity_3D'] = "lambda IM: vmi.average_radial_intensity_3D(IM)[1]"

NONNEG_FULL = {
    'rbasex-pos-image': "lambda IM: abel.rbasex.rbasex_transform(IM, order=2, reg='pos')[0]",
    'rbasex-pos-distr': "lambda IM: abel.rbasex.rbasex_transform(IM, order=2, reg='pos')[1].cos()",
    'rbasex-pos-odd': "lambda IM: abel.rbasex.rbasex_transform(IM, order=1, odd=True, reg='pos')[0]",
}

SNIP_FULL = SNIP_HEAD + '''
name, clause, size, seed, a, b, rtol = %(name)r, %(clause)r, %(size)d, %(seed)d, %(a)r, %(b)r, %(rtol)r
f = %(fn)s
T = lambda IM: (fresh(), np.asarray(f(np.array(IM, dtype=float)), dtype=float))[1]
rng = np.random.default_rng(seed)
X = rng.normal(size=(size, size)) * 10; Y = rng.normal(size=(size, size)) * 10
if clause == 'homogeneous':
    X = np.abs(X)
if clause == 'dtype':
    Xi = np.rint(X).astype(np.int64); Yi = np.rint(Y).astype(np.int64)
    tf = T(Xi.astype(float)); tg = T(Yi.astype(float))
    try:
        fresh(); ti = np.asarray(f(Xi.copy()), dtype=float)
    except (TypeError, ValueError):
        print('the integer-typed image is refused loudly: acceptable'); sys.exit(0)
    fresh(); tl = np.asarray(f(2 * Xi - 3 * Yi), dtype=float)
    d = max(dev(ti, tf), dev(tl, 2 * tf - 3 * tg)); scale = 2 * float(np.max(np.abs(tf))) + 3 * float(np.max(np.abs(tg)))
    for dt in (np.uint8, np.uint16, np.int16):
        top = np.iinfo(dt).max
        Xe = (top - np.abs(np.rint(X))).astype(dt)
        if np.iinfo(dt).min < 0: Xe[::2] = -Xe[::2]
        te = T(Xe.astype(float))
        try:
            fresh(); de = dev(np.asarray(f(Xe.copy()), dtype=float), te) * scale / max(float(np.max(np.abs(te))), 1e-300)
            print('  %%s frame: deviation from the float result (rescaled) %%.3e' %% (dt.__name__, de)); d = max(d, de)
        except (TypeError, ValueError): pass
    print('%%s %%dx%%d integer image: deviation from the float result / from linearity %%.3e, scale %%.3e' %% (name, size, size, d, scale))
    sys.exit(0 if d <= rtol * scale else 1)
    TX = T(X); d = dev(T(a * X), a * TX); scale = a * float(np.max(np.abs(TX)))
else:
    TX, TY = T(X), T(Y)
    scale = abs(a) * float(np.max(np.abs(TX))) + abs(b) * float(np.max(np.abs(TY)))
    # combination with coefficients of both signs, plain additivity, plain homogeneity with a negative factor
    d = max(dev(T(a * X + b * Y), a * TX + b * TY), dev(T(X + Y), TX + TY), dev(T(-2.5 * X), -2.5 * TX))
print('%%s %%dx%%d clause=%%s: deviation %%.3e, scale of the outputs %%.3e (relative tolerance %%.1e)' %% (name, size, size, clause, d, scale, rtol))
sys.exit(0 if d <= rtol * scale else 1)
'''

_G = {}


def G():
    if not _G:
        import abel, abel.basex, abel.daun, abel.dasch, abel.direct, abel.hansenlaw, abel.onion_bordas, abel.linbasex, abel.rbasex  # noqa
        import abel.tools.symmetry as symmetry, abel.tools.center as center, abel.tools.vmi as vmi   # noqa
        _G.update(abel=abel, symmetry=symmetry, center=center, vmi=vmi, np=np)
    return _G


def A2(x):
    return np.atleast_2d(np.asarray(x, dtype=float))


def dev(a, b):
    a = np.asarray(a, float)
    b = np.asarray(b, float)
    if a.shape != b.shape or not (np.all(np.isfinite(a)) and np.all(np.isfinite(b))):
        return float('inf')
    return float(np.max(np.abs(a - b))) if a.size else 0.0


# ---------------------------------------------------------------------------
# correspondence: Hansen-Law model (Coq, vm_compute) vs hansenlaw_transform
# ---------------------------------------------------------------------------

def hexq(x):
    from fractions import Fraction
    f = Fraction(float(x))
    if f.numerator == 0:
        return '0'
    n = '%s0x%x' % ('-' if f.numerator < 0 else '', abs(f.numerator))
    return '(%s # 0x%x)' % (n, f.denominator)


def hl_correspondence(ctx, rng):
    import abel.hansenlaw as hl
    modes = {'F0': ('forward', 0, 'Forward'), 'F1': ('forward', 1, 'Forward'),
             'I0': ('inverse', 0, 'Inverse0'), 'I1': ('inverse', 1, 'Inverse1')}
    sizes = (3, 4, 7, 12) if ctx.quick else (3, 4, 5, 7, 12, 20)
    drs = (1.0, 0.5, 2.0) if ctx.quick else (1.0, 0.5, 2.0, 0.25, 4.0)
    files, meta = [], []
    k = 0
    with ac.quiet():
        for cols in sizes:
            defs, cases = [], []
            for mk, (direction, hold, cm) in modes.items():
                tabname = None
                for dr in drs:
                    rows = int(rng.integers(1, 4))
                    im = rng.integers(-8, 9, size=(rows, cols)).astype(float)
                    if rng.random() < 0.3:
                        im = im / 4.0
                    out, got = ac.capture_locals('hansenlaw_transform', 'hansenlaw.py', ['phi', 'B0', 'B1'],
                                                 lambda: hl.hansenlaw_transform(im, dr=dr, direction=direction, hold_order=hold))
                    if not all(x in got for x in ('phi', 'B0', 'B1')):
                        raise RuntimeError('hansenlaw_transform: the tables phi/B0/B1 are not local variables any more')
                    if tabname is None:
                        tabname = 'tabs_%s' % mk
                        defs.append('Definition %s : list (coef Q) := %s.' % (tabname, vlib.list_lit([
                            '{| c_phi := %s; c_B0 := %s; c_B1 := %s |}' % tuple(
                                vlib.list_lit([hexq(v) for v in got[t][i]]) for t in ('phi', 'B0', 'B1'))
                            for i in range(got['phi'].shape[0])])))
                        tabs0 = {t: got[t].copy() for t in ('phi', 'B0', 'B1')}
                    elif not all(np.array_equal(tabs0[t], got[t]) for t in tabs0):
                        raise RuntimeError('hansenlaw tables depend on dr or on the data')
                    cases.append('{| h_mode := %s; h_dr := %s; h_pi := %s; h_K := %d; h_tabs := %s; h_im := %s; h_expect := %s |}'
                                 % (cm, hexq(dr), hexq(np.pi), got['phi'].shape[1], tabname,
                                    vlib.list_lit([vlib.list_lit([hexq(v) for v in r]) for r in im]),
                                    vlib.list_lit([vlib.list_lit([hexq(v) for v in r]) for r in A2(out)])))
                    meta.append(dict(cols=cols, rows=rows, direction=direction, hold_order=hold, dr=dr))
            text = (vlib.HEADER_CASES + 'From PA Require Import base.QClose model.HansenLaw model.HansenLawQ.\nOpen Scope Q_scope.\n'
                    + '\n'.join(defs) + '\nDefinition cases : list hl_case := %s.\nDefinition res := map hl_check cases.\n'
                    'Eval vm_compute in (count_true res, false_idx 0 res).\n' % vlib.list_lit(cases))
            files.append(('C04_hl_%03d' % k, text, len(cases)))
            k += 1
    outs = vlib.coq_eval_many([(n, t) for n, t, _ in files])
    n_ok, bad, errors = 0, [], []
    base = 0
    for name, _, cnt in files:
        rc, out = outs[name]
        r = vlib.parse_eval_lists(out)
        m = re.match(r'\((\d+), (.*)\)$', r[0]) if (rc == 0 and r) else None
        if not m:
            errors.append((name, out[-400:]))
        else:
            n_ok += int(m.group(1))
            bad += [base + i for i in vlib.parse_nat_list(m.group(2))]
        base += cnt
    return meta, n_ok, bad, errors


def ob_correspondence(ctx, rng):
    """model/OnionBordas.v (Q instance, vm_compute) against onion_bordas_transform(shift_grid=False), with the
    tables val1 / val2 read out of the running frame."""
    import abel.onion_bordas as ob
    sizes = (1, 2, 3, 5, 8) if ctx.quick else (1, 2, 3, 4, 5, 8, 11, 14)
    drs = (1.0, 0.5, 2.5) if ctx.quick else (1.0, 0.5, 2.5, 0.125, 7.0)
    files, meta = [], []
    k = 0
    for cols in sizes:
        defs, cases = [], []
        for dr in drs:
            for rows in sorted(set((1, int(rng.integers(2, 5))))):
                im = rng.integers(-8, 9, size=(rows, cols)).astype(float)
                if rng.random() < 0.3:
                    im = im / 4.0
                arg = im[0] if (rows == 1 and rng.random() < 0.5) else im
                out, got = ac.capture_locals('onion_bordas_transform', 'onion_bordas.py', ['val1', 'val2'],
                                             lambda: ob.onion_bordas_transform(arg, dr=dr, direction='inverse', shift_grid=False))
                if not all(x in got for x in ('val1', 'val2')):
                    raise RuntimeError('onion_bordas_transform: the tables val1/val2 are not local variables any more')
                tn = 'tabs_%d' % len(defs)
                defs.append('Definition %s_1 : list (list Q) := %s.\nDefinition %s_2 : list (list Q) := %s.' % (
                    tn, vlib.list_lit([vlib.list_lit([hexq(v) for v in r]) for r in np.atleast_2d(got['val1'])]),
                    tn, vlib.list_lit([vlib.list_lit([hexq(v) for v in r]) for r in np.atleast_2d(got['val2'])])))
                cases.append('{| o_dr := %s; o_val1 := %s_1; o_val2 := %s_2; o_im := %s; o_expect := %s |}'
                             % (hexq(dr), tn, tn,
                                vlib.list_lit([vlib.list_lit([hexq(v) for v in r]) for r in im]),
                                vlib.list_lit([vlib.list_lit([hexq(v) for v in r]) for r in A2(out)])))
                meta.append(dict(cols=cols, rows=rows, dr=dr, one_d=bool(arg.ndim == 1)))
        text = (vlib.HEADER_CASES + 'From PA Require Import base.QClose model.OnionBordas model.OnionBordasQ.\nOpen Scope Q_scope.\n'
                + '\n'.join(defs) + '\nDefinition cases : list ob_case := %s.\nDefinition res := map ob_check cases.\n'
                'Eval vm_compute in (count_true res, false_idx 0 res).\n' % vlib.list_lit(cases))
        files.append(('C04_ob_%03d' % k, text, len(cases)))
        k += 1
    outs = vlib.coq_eval_many([(n, t) for n, t, _ in files])
    n_ok, bad, errors = 0, [], []
    base = 0
    for name, _, cnt in files:
        rc, out = outs[name]
        r = vlib.parse_eval_lists(out)
        m = re.match(r'\((\d+), (.*)\)$', r[0]) if (rc == 0 and r) else None
        if not m:
            errors.append((name, out[-400:]))
        else:
            n_ok += int(m.group(1))
            bad += [base + i for i in vlib.parse_nat_list(m.group(2))]
        base += cnt
    return meta, n_ok, bad, errors


# ---------------------------------------------------------------------------
# search
# ---------------------------------------------------------------------------

def search(ctx, rng, enlarged):
    g = G()
    hits, samples = [], []
    n_eval = 0
    distinct = set()
    worst = {}
    seed0 = int(rng.integers(1, 2**31 - 1))
    if ctx.quick and not enlarged:
        sizes = [5, 12, 33]
        full_sizes = [15]
        drs = [0.25, 2.5, 1e-6, 1e-12]
    else:
        sizes = [5, 8, 12, 21, 33, 64, 101]
        full_sizes = [11, 15, 21]
        drs = [0.25, 2.5, 0.7, 1e3, 1e-3, 1e-6, 1e-9, 1e-12]

    def fresh():
        ac.cleanup()

    def note(group, d, tol):
        worst[group] = max(worst.get(group, 0.0), d / tol if tol > 0 else float('inf'))

    with ac.quiet():
        # ---- half-image methods (linear) and the NNLS solvers -------------------------
        gl = dict(g, A2=A2, dev=dev, fresh=fresh)
        exec(CHECK_SRC, gl)
        half_check = gl['half_check']
        for table, nonneg in ((HALF, False), (NONNEG_HALF, True)):
            for name, entry in table.items():
                src, expo = entry if not nonneg else (entry, -1)
                f = eval(src, g)
                for n in (sizes if not nonneg else sizes[:3]):
                    if name.startswith('direct') and n > 64:
                        continue
                    seed = seed0 + n
                    rows = 3 + n % 2
                    a, b = (-1.7, 0.6) if n % 2 else (2.5, -3.25)
                    clauses = [('rows', 1.0), ('near-rows', 1.0), ('scale', 1.0), ('dtype', 1.0)] + [('dr', dr) for dr in drs]
                    if nonneg:
                        clauses += [('homogeneous', 0.3), ('homogeneous', 7.0)]
                    else:
                        clauses = [('operator', 1.0), ('linear', 1.0)] + clauses
                    res = {}
                    for clause, par in clauses:
                        dr = par if clause == 'dr' else 1.0
                        aa = par if clause == 'homogeneous' else a
                        try:
                            d, tol, norm = half_check(f, clause, n, rows, dr, seed, aa, b, expo, nonneg, TOL)
                        except Exception as ex:     # noqa
                            d, tol, norm = float('inf'), 0.0, 0.0
                        label = clause if clause not in ('dr', 'homogeneous') else '%s=%r' % (clause, par)
                        res[label] = d
                        n_eval += 1
                        distinct.add((name, n, label))
                        note('nonneg' if nonneg else name.split('-')[0], d, tol)
                        if not d <= tol:
                            hits.append(Hit(clause, 'C04:%s:%s' % (name, clause),
                                            '%s, n=%d: clause %s deviates by %.2e x max|input| (tolerance %.2e, operator norm %.2e)'
                                            % (name, n, label, d, tol, norm),
                                            SNIP_HALF % dict(name=name, clause=clause, n=n, rows=rows, dr=dr, seed=seed, a=aa, b=b,
                                                             expo=expo, fn=src, tol=TOL, nonneg=nonneg),
                                            dict(method=name, n=n, clause=label, deviation=d, tolerance=tol)))
                    if len(samples) < 5 and n == sizes[1]:
                        samples.append(dict(method=name, n=n, rows=rows, a=a, b=b, deviations=res))
        # ---- abel.Transform on a whole image with a pixel size (cache hits inside one call) ----
        for name, (src, expo) in TRANSFORM_DR.items():
            f = eval(src, g)
            for size in full_sizes[:2]:
                for dr in drs[:2]:
                    seed = seed0 + size
                    X = np.random.default_rng(seed).normal(size=(size, size)) * 10
                    try:
                        fresh()
                        T1 = np.asarray(f(X, 1.0), dtype=float)
                        fresh()
                        r1 = np.asarray(f(X, dr), dtype=float)
                        r2 = np.asarray(f(X, dr), dtype=float)
                        sc = dr ** expo
                        d = max(dev(r1, sc * T1), dev(r2, sc * T1))
                        scale = sc * float(np.max(np.abs(T1)))
                    except Exception as ex:    # noqa
                        d, scale = float('inf'), 1.0
                    n_eval += 1
                    distinct.add((name, size, dr))
                    note('Transform-dr', d, RTOL_FULL * scale)
                    if not d <= RTOL_FULL * scale:
                        hits.append(Hit('dr', 'C04:%s' % name,
                                        '%s on a %dx%d image, dr=%r: result is not dr^%d x the dr=1 result (deviation %.2e, scale %.2e)'
                                        % (name, size, size, dr, expo, d, scale),
                                        SNIP_TDR % dict(name=name, size=size, dr=dr, seed=seed, expo=expo, rtol=RTOL_FULL, fn=src),
                                        dict(operator=name, size=size, dr=dr, deviation=d, scale=scale)))
        # ---- full-image operators, Transform level, image tools ---------------------------
        for table, clause in ((FULL, 'linear'), (NONNEG_FULL, 'homogeneous')):
            for name, src in table.items():
                f = eval(src, g)

                def TF(IM, f=f):
                    fresh()
                    return np.asarray(f(np.array(IM, dtype=float)), dtype=float)
                for size in full_sizes:
                    seed = seed0 + size
                    r2 = np.random.default_rng(seed)
                    X = r2.normal(size=(size, size)) * 10
                    Y = r2.normal(size=(size, size)) * 10
                    a, b = (-1.7, 0.6) if clause == 'linear' else (3.5, 0.0)
                    if clause == 'homogeneous':
                        X = np.abs(X)
                    rtol = RTOL_FULL if clause == 'linear' else 1e-7
                    try:
                        if clause == 'linear':
                            TX, TY = TF(X), TF(Y)
                            d = max(dev(TF(a * X + b * Y), a * TX + b * TY), dev(TF(X + Y), TX + TY), dev(TF(-2.5 * X), -2.5 * TX))
                            scale = abs(a) * float(np.max(np.abs(TX))) + abs(b) * float(np.max(np.abs(TY)))
                        else:
                            TX = TF(X)
                            d, scale, worst_ratio = 0.0, a * float(np.max(np.abs(TX))), -1.0
                            for lam in (3.5, 2.0 ** -40, 2.0 ** -20, 2.0 ** 40):     # the worst factor is reported
                                dl = dev(TF(lam * X), lam * TX)
                                sl = lam * float(np.max(np.abs(TX)))
                                ratio = dl / sl if sl > 0 else (0.0 if dl == 0 else float('inf'))
                                if ratio > worst_ratio:
                                    worst_ratio, d, scale, a = ratio, dl, sl, lam
                    except Exception as ex:    # noqa
                        d, scale = float('inf'), 1.0
                    n_eval += 1
                    distinct.add((name, size, clause))
                    note(name.split('-')[0], d, rtol * scale)
                    if clause == 'linear':
                        # integer-typed images: same as floats, and linear with integer coefficients
                        try:
                            Xi, Yi = np.rint(X).astype(np.int64), np.rint(Y).astype(np.int64)
                            tf, tg = TF(Xi), TF(Yi)
                            si = 2 * float(np.max(np.abs(tf))) + 3 * float(np.max(np.abs(tg)))
                            try:
                                fresh()
                                ti = np.asarray(f(Xi.copy()), dtype=float)
                                fresh()
                                tl = np.asarray(f(2 * Xi - 3 * Yi), dtype=float)
                                di = max(dev(ti, tf), dev(tl, 2 * tf - 3 * tg))
                            except (TypeError, ValueError):
                                di = 0.0       # refused loudly: acceptable
                            for dt in (np.uint8, np.uint16, np.int16):     # raw frames near the extremes of the type
                                top = np.iinfo(dt).max
                                Xe = (top - np.abs(np.rint(X))).astype(dt)
                                if np.iinfo(dt).min < 0:
                                    Xe[::2] = -Xe[::2]
                                te = TF(Xe)
                                try:
                                    fresh()
                                    de = dev(np.asarray(f(Xe.copy()), dtype=float), te) * si / max(float(np.max(np.abs(te))), 1e-300)
                                    di = max(di, de)
                                except (TypeError, ValueError):
                                    pass
                        except Exception as ex:    # noqa
                            di, si = float('inf'), 1.0
                        n_eval += 1
                        distinct.add((name, size, 'dtype'))
                        note('dtype', di, rtol * si)
                        if not di <= rtol * si:
                            hits.append(Hit('dtype', 'C04:%s:dtype' % name,
                                            '%s on %dx%d INTEGER-typed images: result differs from the float-typed one / is not linear '
                                            '(deviation %.2e, scale %.2e)' % (name, size, size, di, si),
                                            SNIP_FULL % dict(name=name, clause='dtype', size=size, seed=seed, a=a, b=b, rtol=rtol, fn=src),
                                            dict(operator=name, size=size, deviation=di, scale=si)))
                    if not d <= rtol * scale:
                        hits.append(Hit(clause, 'C04:%s:%s' % (name, clause),
                                        '%s on %dx%d images: %s fails by %.2e (scale of outputs %.2e)' % (name, size, size, clause, d, scale),
                                        SNIP_FULL % dict(name=name, clause=clause, size=size, seed=seed, a=a, b=b, rtol=rtol, fn=src),
                                        dict(operator=name, size=size, deviation=d, scale=scale)))
    ac.cleanup()
    return hits, n_eval, len(distinct), worst, samples


def run(ctx):
    rng = np.random.default_rng(ctx.seed)
    em, terr = ac.run_translator()
    pr = vlib.coq_props('C04')
    ac.standard_cov(ctx, pr, 'C04', extra_trusted=[
        'tools/translate/dr_sites.py (element-wise translation of the dr sites of hansenlaw.py, onion_bordas.py, direct.py; checks '
        'that dr is used nowhere else)',
        'Hansen-Law tables phi/B0/B1 are arbitrary in the theorems and read from the running implementation in the correspondence; '
        'the Q instance of the model rounds each operation to 120 significant bits (model/HansenLawQ.v)',
        'onion_bordas tables val1/val2 are arbitrary in the theorems and read from the running implementation in the correspondence; '
        'the Q instance rounds each operation to 120 significant bits (model/OnionBordasQ.v)',
        'scipy.ndimage shift/rotate/map_coordinates (onion_bordas shift_grid, linbasex, fractional centring) are assumed linear '
        '(validated numerically only)'])
    tv_n, tv_fail = (0, [])
    if em is not None:
        tv_n, tv_fail = ac.validate_translation(em, rng, sizes=(4, 9) if ctx.quick else (3, 4, 9, 20))
    hl_meta, hl_ok, hl_bad, hl_err = [], 0, [], []
    try:
        hl_meta, hl_ok, hl_bad, hl_err = hl_correspondence(ctx, rng)
    except Exception as ex:     # noqa
        hl_err = [('harness', '%s: %s' % (type(ex).__name__, ex))]
    ob_meta, ob_ok, ob_bad, ob_err = [], 0, [], []
    try:
        ob_meta, ob_ok, ob_bad, ob_err = ob_correspondence(ctx, rng)
    except Exception as ex:     # noqa
        ob_err = [('harness', '%s: %s' % (type(ex).__name__, ex))]
    ctx.cov.update(onion_bordas_correspondence_cases=len(ob_meta), onion_bordas_correspondence_disagreements=len(ob_bad),
                   onion_bordas_model_cases_vm_compute=ob_ok)
    ctx.cov.update(traces_validated_against_impl=tv_n + hl_ok + ob_ok, translation_validation_failures=len(tv_fail),
                   hansenlaw_correspondence_cases=len(hl_meta), hansenlaw_correspondence_disagreements=len(hl_bad),
                   generated_definitions=0 if em is None else len(em.index))
    # proof obligations = theorems of props/C04.v; the numeric validation of the generated terms and the
    # vm_compute runs of the Hansen-Law model are the tie (counted separately)
    ctx.cov['obligations'] = len(pr['theorems'])
    ctx.cov['discharged'] = pr['discharged']
    ctx.cov['generated_terms_validated_numerically'] = tv_n - len(tv_fail)
    ctx.cov['hansenlaw_model_cases_vm_compute'] = hl_ok
    broken = (not pr['ok']) or bool(terr) or bool(tv_fail) or bool(hl_bad) or bool(hl_err) or bool(ob_bad) or bool(ob_err)
    hits, n_eval, n_distinct, worst, samples = search(ctx, rng, enlarged=broken)
    ctx.cov.update(evaluations=n_eval + tv_n + len(hl_meta) + len(ob_meta), distinct_nontrivial=n_distinct, exhaustive=False,
                   rule='a case is distinct by (operator family = method x direction x option set, size, clause); clauses: operator '
                        '(T(X) = X.A with A extracted from the unit rows), linear (a,b of both signs), rows (permute / duplicate / replace / '
                        'delete / flip other rows), near-rows (neighbouring rows differing by 1e-6 / 1e-9 relative are transformed independently), dr (0.25, 2.5[, 0.7]; '
                        'first call, repeated calls with the same parameters = cache hits, back to dr=1; also abel.Transform on a whole image), '
                        'scale (2^-40 .. 2^40); the NNLS solvers get rows / near-rows / scale / dr / homogeneous; data: normal*10, signed, non-smooth',
                   samples=samples, worst_deviation_over_tolerance=worst,
                   input_distribution=dict(half_image_families=len(HALF), full_image_families=len(FULL),
                                           nonneg_families=len(NONNEG_HALF) + len(NONNEG_FULL),
                                           tolerance='half-image: %g x max|input| x max column abs-sum of the extracted operator; '
                                                     'full-image: %g x scale of the outputs' % (TOL, RTOL_FULL),
                                           hansenlaw_correspondence=hl_meta[:3]))
    new = 0
    seen = set()
    for h in hits:
        if h.key in seen:
            continue
        seen.add(h.key)
        if ctx.report_hit(h):
            new += 1
    if new == 0:
        if terr:
            ctx.report_broken('translator', 'tools/translate (matrix_expr.py / dr_sites.py) on ' + vlib.REPO, terr)
        elif not pr['ok']:
            ctx.report_broken('proof', pr['broken'] or 'props/C04.v', pr['error'] or '')
        elif tv_fail:
            ctx.report_broken('correspondence', 'generated matrix expression vs implementation (%d of %d)' % (len(tv_fail), tv_n),
                              '; '.join(tv_fail[:5]))
        elif hl_bad or hl_err:
            detail = ''
            if hl_bad:
                detail = 'first disagreeing case: %r' % (hl_meta[hl_bad[0]],)
            if hl_err:
                detail += ' errors: %r' % (hl_err[:1],)
            ctx.report_broken('correspondence', 'model/HansenLaw.v vs abel/hansenlaw.py (%d of %d cases disagree)'
                              % (len(hl_bad), len(hl_meta)), detail)
        elif ob_bad or ob_err:
            detail = ''
            if ob_bad:
                detail = 'first disagreeing case: %r' % (ob_meta[ob_bad[0]],)
            if ob_err:
                detail += ' errors: %r' % (ob_err[:1],)
            ctx.report_broken('correspondence', 'model/OnionBordas.v vs abel/onion_bordas.py (%d of %d cases disagree)'
                              % (len(ob_bad), len(ob_meta)), detail)
    ctx.assumptions += [
        'THEOREMS: onion_bordas: the actual peeling loop with arbitrary tables val1/val2 is linear, row-wise (val2 constant along its row '
        'index: checked on the running tables) and scales with 1/dr (reals; model/OnionBordas.v tied by vm_compute correspondence with '
        'shift_grid=False and by the generated dr site)',
        'THEOREMS: matrix class (basex, daun incl. Tikhonov variants, onion_peeling, two_point, three_point, rbasex per angular order) is '
        'X -> X.A for the generated expressions, hence linear and row independent (any field); hansenlaw: the actual recursion with '
        'arbitrary tables is linear, row-wise, and scales with dr^(+-1) (reals); dr for daun/basex/dasch from the generated Jacobian '
        'statements, onion_bordas from its generated final scaling; NNLS solvers positively homogeneous (specification, any real field); '
        'symmetrisation (C06 model, all quadrants, axis 0 / 1) linear',
        'direct (python backend): dr scaling of the whole integral is a theorem (C04_dr_direct) about a model ASSEMBLED by hand '
        '(proofs/DirectScaling.v) from the generated element-wise expressions; the assembling statements of direct.py (masks, '
        'trapezoid calls, correction loop) are pinned textually by dr_sites.py, numpy.trapezoid / arccosh by specification; '
        'linearity of direct and of onion_bordas is checked on the implementation only',
        'NUMERIC ONLY: linbasex, rbasex image construction, abel.Transform pipeline (C05 owns its model), set_center, radial_intensity, '
        'Distributions; linearity of scipy.ndimage interpolation',
        'cached bases: every call starts from cleaned module caches; basis_dir=None',
    ]
