# Operation histories for property C03: the round trip must hold for the
# operators the implementation ACTUALLY uses in any state -- with and without
# a basis_dir, with basis files left by earlier calls (other degrees, orders,
# regularisations, weights), after cache_cleanup, and in fresh processes that
# load what an earlier process saved.
#
# A history is a list of segments; every segment runs in its own interpreter
# (process boundary) on a shared scratch basis directory.  A segment is a list
# of operations; the last segment ends with probes (round trips).  RUN_SRC is
# the stand-alone program (also used verbatim as the replay).
import json
import os
import shutil
import subprocess
import tempfile

import vlib

RUN_SRC = r'''
import json, os, sys, warnings
import numpy as np
warnings.simplefilter('ignore')
import abel, abel.daun, abel.basex, abel.rbasex

def rel(a, b):
    a = np.asarray(a, float); b = np.asarray(b, float)
    if a.shape != b.shape or not np.all(np.isfinite(a)): return float('inf')
    return float(np.max(np.abs(a - b))) / max(float(np.max(np.abs(b))), float(np.max(np.abs(a))), 1e-300)

def bd_of(flag, D):
    return D if flag else None

def weights_of(kind, shape):
    if kind is None: return None
    y, x = np.indices(shape); c = (shape[0] // 2, shape[1] // 2)
    r = np.hypot(y - c[0], x - c[1]); w = np.ones(shape)
    R = min(c)
    if kind == 'ring': w[(r > 0.3 * R) & (r < 0.85 * R)] = 0      # radii without data
    elif kind == 'rim': w[r > 0.8 * R] = 0
    elif kind == 'soft': w = 1.0 + 0.5 * np.cos(r)
    return w

def do_op(op, D):
    """an ordinary call of the library that may create / load / cache bases"""
    k = op[0]
    rng = np.random.default_rng(op[-1])
    if k == 'daun':
        _, n, degree, reg, direction, bd, dr, seed = op
        reg = tuple(reg) if isinstance(reg, list) else reg
        abel.daun.daun_transform(rng.normal(size=(2, n)), reg=reg, degree=degree, dr=dr, direction=direction,
                                 basis_dir=bd_of(bd, D), verbose=False)
    elif k == 'basex':
        _, n, sigma, reg, correction, direction, bd, dr, seed = op
        abel.basex.basex_transform(rng.normal(size=(2, n)), sigma=sigma, reg=reg, correction=correction, basis_dir=bd_of(bd, D),
                                   dr=dr, verbose=False, direction=direction)
    elif k == 'rbasex':
        _, Rmax, order, odd, reg, wkind, direction, bd, seed = op
        reg = tuple(reg) if isinstance(reg, list) else reg
        IM = rng.normal(size=(2 * Rmax + 1, 2 * Rmax + 1))
        abel.rbasex.rbasex_transform(IM, order=order, odd=odd, weights=weights_of(wkind, IM.shape), direction=direction, reg=reg,
                                     basis_dir=bd_of(bd, D))
    elif k == 'cleanup':
        for m in (abel.daun, abel.basex, abel.rbasex): m.cache_cleanup()
    else:
        raise ValueError(op)

def probe(pr, D):
    """round trip with the operators the library uses NOW; returns (deviation, cond)"""
    k = pr[0]
    rng = np.random.default_rng(pr[-1])
    def both(T, n):
        """both compositions with the operators as the library hands them out now; the two directions are requested an
        unequal number of times (cache hits on one side only)"""
        Xa = rng.normal(size=(3, n)) * 10; Xb = rng.normal(size=(3, n)) * 10
        T(Xa, 'forward'); Fb = T(Xb, 'forward')
        e = rel(T(Fb, 'inverse'), Xb)
        T(Xa, 'inverse'); T(Xa, 'inverse'); Ib = T(Xb, 'inverse')
        e = max(e, rel(T(Ib, 'forward'), Xb))
        e = max(e, rel(T(T(Xa, 'forward'), 'inverse'), Xa), rel(T(T(Xa, 'inverse'), 'forward'), Xa))
        return e
    if k == 'daun':
        _, n, degree, bd, dr, seed = pr
        T = lambda Y, d: abel.daun.daun_transform(Y, reg=None, degree=degree, dr=dr, direction=d, basis_dir=bd_of(bd, D), verbose=False)
        e = both(T, n)
        c = np.linalg.cond(abel.daun._bs_daun(n, degree))
    elif k == 'basex':
        _, n, bd, dr, seed = pr
        T = lambda Y, d: abel.basex.basex_transform(Y, sigma=1.0, reg=0.0, correction=False, basis_dir=bd_of(bd, D), dr=dr,
                                                    verbose=False, direction=d)
        e = both(T, n)
        M, Mc = abel.basex._bs_basex(n, 1.0, verbose=False)
        c = max(np.linalg.cond(np.array(M)), np.linalg.cond(np.array(Mc)))
    elif k == 'rbasex':
        _, Rmax, order, odd, first, bd, seed = pr
        dirs = ('inverse', 'forward') if first == 'inverse' else ('forward', 'inverse')
        got = {}
        for d in dirs:
            got[d] = [np.array(A) for A in abel.rbasex.get_bs_cached(Rmax, order, odd, d, None, None, bd_of(bd, D), False)]
        Af, Ai = got['forward'], got['inverse']
        I = np.eye(Rmax + 1)
        e = 0.0
        for a, b in zip(Af, Ai):
            p = rng.normal(size=Rmax + 1) * 10
            e = max(e, rel(a.dot(b), I), rel(b.dot(a), I), rel(b.dot(a.dot(p)), p), rel(a.dot(b.dot(p)), p))
        c = max(np.linalg.cond(np.array(P)) for P in abel.rbasex._bs_rbasex(Rmax, order, odd))
    return e, float(c)

def main(arg):
    seg, D = arg['segment'], arg['dir']
    for op in seg['ops']:
        do_op(op, D)
    out = []
    for pr in seg.get('probes', []):
        try:
            e, c = probe(pr, D)
        except Exception as ex:
            e, c = float('inf'), 1.0
            out.append(dict(probe=pr, deviation=e, cond=c, error='%s: %s' % (type(ex).__name__, ex)))
            continue
        out.append(dict(probe=pr, deviation=e, cond=c))
    return out
'''

DRIVER = RUN_SRC + r'''
if __name__ == '__main__':
    print('RESULT ' + json.dumps(main(json.loads(sys.stdin.read()))))
'''

REPLAY_TAIL = r'''
import tempfile, shutil, subprocess
history, rtol = @@HISTORY@@, @@RTOL@@
RUN_SRC = @@RUNSRC@@
# every segment but the last runs in its own interpreter (process boundary); the last one runs here
D = tempfile.mkdtemp(prefix='c03hist', dir='/var/tmp')
try:
    for seg in history[:-1]:
        subprocess.run([sys.executable, '-W', 'ignore', '-c', RUN_SRC + "\nmain(json.loads(sys.stdin.read()))\n"],
                       input=json.dumps(dict(segment=seg, dir=D)), text=True, check=True)
    res = main(dict(segment=history[-1], dir=D))
finally:
    shutil.rmtree(D, ignore_errors=True)
bad = [r for r in res if not r['deviation'] <= rtol * max(r['cond'], 1.0)]
for r in res:
    print('probe %r: round trip deviates by %.3e (tolerance %.3e) %s' % (r['probe'], r['deviation'], rtol * max(r['cond'], 1.0), r.get('error', '')))
sys.exit(1 if bad else 0)
'''


def replay_snippet(history, rtol):
    return RUN_SRC + (REPLAY_TAIL.replace('@@HISTORY@@', repr(history)).replace('@@RTOL@@', repr(rtol))
                      .replace('@@RUNSRC@@', repr(RUN_SRC)))


def run_history(history, timeout=600):
    """Run the segments (one interpreter each) on a fresh scratch directory; returns the probe results of the last one."""
    D = tempfile.mkdtemp(prefix='c03hist', dir='/var/tmp')
    env = dict(os.environ, PYTHONPATH=vlib.REPO, PYTHONHASHSEED='0', OMP_NUM_THREADS='1', OPENBLAS_NUM_THREADS='1')
    try:
        res = []
        for seg in history:
            p = subprocess.run([vlib.PY, '-W', 'ignore', '-c', DRIVER], input=json.dumps(dict(segment=seg, dir=D)),
                               text=True, capture_output=True, timeout=timeout, env=env, cwd='/var/tmp')
            line = [l for l in p.stdout.splitlines() if l.startswith('RESULT ')]
            if p.returncode != 0 or not line:
                return [dict(probe=['segment-failed'], deviation=float('inf'), cond=1.0,
                             error=(p.stderr or p.stdout)[-300:])]
            res = json.loads(line[0][7:])
        return res
    finally:
        shutil.rmtree(D, ignore_errors=True)


def gen_histories(rng, quick):
    """Random histories per method family.  Every history ends with probes of all parameter sets it touched."""
    H = []
    nh = 16 if quick else 60

    def seed():
        return int(rng.integers(1, 2**31 - 1))

    def split(ops, probes):
        """cut the op list into 1-3 process segments; cleanup ops sprinkled in"""
        ops = list(ops)
        for _ in range(int(rng.choice([0, 0, 1]))):
            ops.insert(int(rng.integers(0, len(ops) + 1)), ['cleanup', seed()])
        k = int(rng.choice([0, 0, 1, 2]))
        cuts = sorted(set(int(c) for c in rng.integers(0, len(ops) + 1, size=k)))
        segs, prev = [], 0
        for c in cuts + [len(ops)]:
            segs.append(dict(ops=ops[prev:c]))
            prev = c
        segs[-1]['probes'] = probes
        return segs

    # ---- daun: degrees / regularisations / directions / sizes, with and without basis_dir
    regs = [None, 0.0, ['diff', 2.0], ['L2', 0.5], ['L2c', 0.5], 'nonneg']
    for _ in range(nh):
        n = int(rng.choice([5, 8, 12] if quick else [5, 8, 12, 20, 33]))
        usebd = bool(rng.random() < 0.75)
        ops = []
        for _ in range(int(rng.integers(2, 6))):
            reg = regs[int(rng.integers(len(regs)))]
            direction = 'inverse' if (reg == 'nonneg' or rng.random() < 0.7) else 'forward'
            nn = n if rng.random() < 0.7 else n + int(rng.integers(-2, 4))
            ops.append(['daun', max(nn, 3), int(rng.integers(0, 4)), reg, direction, usebd and bool(rng.random() < 0.85),
                        float(rng.choice([1.0, 1.0, 0.5, 2.5])), seed()])
        degs = sorted(set(o[2] for o in ops))
        probes = [['daun', n, int(d), usebd, float(rng.choice([1.0, 0.5, 2.5])), seed()]
                  for d in rng.permutation(degs + [int(rng.integers(0, 4))])]
        H.append(('daun', split(ops, probes)))
    # ---- rbasex: orders / odd / reg / weights with invalid radii / directions
    rregs = [None, ['L2', 1.0], ['diff', 1.0], ['SVD', 0.2], 'pos']
    for _ in range(nh):
        Rmax = int(rng.choice([5, 8] if quick else [5, 8, 13, 20]))
        usebd = bool(rng.random() < 0.8)
        combos = [(0, False), (2, False), (4, False), (1, True), (3, True)]
        ops = []
        for _ in range(int(rng.integers(1, 5))):
            order, odd = combos[int(rng.integers(len(combos)))]
            reg = None if rng.random() < 0.4 else rregs[int(rng.integers(len(rregs)))]
            if reg == 'pos' and odd and order > 1:
                reg = None
            direction = 'inverse' if (reg is not None or rng.random() < 0.7) else 'forward'
            wk = [None, 'ring', 'rim', 'ring', 'soft'][int(rng.integers(5))]
            ops.append(['rbasex', Rmax, order, odd, reg, wk, direction, usebd and bool(rng.random() < 0.9), seed()])
        used = sorted(set((o[2], o[3]) for o in ops))
        probes = [['rbasex', Rmax, int(o), bool(d), 'inverse' if rng.random() < 0.7 else 'forward', usebd, seed()] for o, d in used]
        H.append(('rbasex', split(ops, probes)))
    # ---- basex: sigma / reg / correction / sizes
    for _ in range(max(nh // 2, 2)):
        # (ops may be empty: the probes then start from fresh caches)
        n = int(rng.choice([5, 9] if quick else [5, 9, 16, 30]))
        usebd = bool(rng.random() < 0.75)
        ops = []
        for _ in range(int(rng.integers(0, 5))):
            nn = n if rng.random() < 0.6 else n + int(rng.integers(-2, 6))
            ops.append(['basex', max(nn, 3), float(rng.choice([1.0, 1.0, 2.0])), float(rng.choice([0.0, 0.0, 5.0])),
                        bool(rng.random() < 0.5), 'inverse' if rng.random() < 0.6 else 'forward',
                        usebd and bool(rng.random() < 0.85), float(rng.choice([1.0, 0.5, 2.5])), seed()])
        H.append(('basex', split(ops, [['basex', n, usebd, float(dr), seed()] for dr in rng.permutation([1.0, 0.5, 2.5])[:2]])))
    return H
