# C10_oracle.py — the clauses of C10 (and the line-of-sight quadrature used by
# C11) evaluated directly on the implementation.  The text of this file is
# also embedded verbatim in every replay snippet (ORACLE_SRC in C10.py/C11.py),
# so it must stay self-contained: only numpy, scipy and abel are imported.
import json
import sys
import warnings

import numpy as np
from scipy import integrate

warnings.simplefilter('ignore')
np.seterr(all='ignore')

RTOL_ABEL = 1e-9     # quadrature comparison, relative to the integral of the absolute terms
RTOL_FUNC = 1e-12    # function values, relative to the sum of the absolute terms


def _quad(f, a, b):
    if not (b > a):
        return 0.0
    v, _ = integrate.quad(f, a, b, epsabs=0, epsrel=1e-13, limit=400)
    return v


def _poly(c, r0, s):
    c = [float(v) for v in c]

    def f(R):
        t = (R - r0) / s
        return sum(ck * t**k for k, ck in enumerate(c))

    def fa(R):
        t = np.abs((R - r0) / s)
        return sum(abs(ck) * t**k for k, ck in enumerate(c))
    return f, fa


def poly_reference(r, rmin, rmax, c, r0, s):
    """(func, abel, func_scale, abel_scale) of c((r-r0)/s) 1_[rmin,rmax) by definition."""
    r = np.asarray(r, float)
    n = len(r)
    func = np.zeros(n)
    ab = np.zeros(n)
    fs = np.zeros(n)
    as_ = np.zeros(n)
    if rmax <= 0 or len(c) == 0:
        return func, ab, fs, as_
    rmin = max(rmin, 0.0)
    f, fa = _poly(c, r0, s)
    for i, x in enumerate(r):
        fs[i] = fa(x)
        if rmin <= x < rmax:
            func[i] = f(x)
        if x < rmax:
            ylo = np.sqrt(max(rmin * rmin - x * x, 0.0))
            yup = np.sqrt(rmax * rmax - x * x)
            ab[i] = 2 * _quad(lambda y: f(np.hypot(x, y)), ylo, yup)
            as_[i] = 2 * _quad(lambda y: fa(np.hypot(x, y)), ylo, yup)
    return func, ab, fs, as_


def poly_scales(r, rmin, rmax, c, r0, s, reduced):
    """Sum of the absolute values of the terms the code adds up, per grid point:
    (func_scale, abel_scale).  Mirrors polynomial.py:118-226 with |.| everywhere."""
    from scipy.linalg import pascal, toeplitz
    n = len(r)
    zf = np.zeros(n)
    if rmax <= 0:
        return zf, zf
    rmin = max(rmin, 0.0)
    c = np.array(np.trim_zeros(np.asarray(c, float), 'b'), float)
    if len(c) == 0:
        return zf, zf
    K = len(c) - 1
    sc = 1.0
    r = np.asarray(r, float)
    if reduced:
        r = r / rmax; r0 = r0 / rmax; s = s / rmax; sc = rmax; rmin = rmin / rmax; rmax = 1.0
    ca = np.abs(c) * np.abs(1.0 / s) ** np.arange(K + 1)
    if r0 != 0.0:
        P = pascal(1 + K, 'upper', False)
        T = toeplitz([1.0] + [0.0] * K, np.abs(float(r0)) ** np.arange(K + 1))
        ca = (P * T).dot(ca)
    fs = sum(ca[k] * r ** k for k in range(K + 1))
    as_ = np.zeros(n)
    for i, x in enumerate(r):
        if not x < rmax:
            continue
        yup = np.sqrt(max(rmax * rmax - x * x, 0.0)); ylo = np.sqrt(max(rmin * rmin - x * x, 0.0))
        m = max(rmin, x)
        l1 = abs(np.log(rmax + yup)) if rmax + yup > 0 else 0.0
        l2 = abs(np.log(m + ylo)) if m + ylo > 0 else 0.0
        tot = 0.0
        for k in range(K + 1):
            C = 1.0 / (k + 1); j = 0; ak = 0.0
            while True:
                ak += C * x ** j * (rmax ** (k - j) * yup + rmin ** (k - j) * ylo)
                if k - j < 2:
                    break
                C = C * (k - j) / (k - j - 1); j += 2
            if k % 2:
                ak += C * x ** (k + 1) * (l1 + l2 + 2.0)
            tot += ca[k] * sc * 2 * ak
        as_[i] = tot
    return fs, as_



def _cmp(name, got, ref, scale, rtol, floor=0.0):
    got = np.asarray(got, float)
    ref = np.asarray(ref, float)
    if got.shape != ref.shape:
        return False, '%s: shape %r != %r' % (name, got.shape, ref.shape)
    if not np.all(np.isfinite(got)):
        return False, '%s: non-finite values' % name
    tol = rtol * (np.asarray(scale, float) + floor) + 1e-300
    d = np.abs(got - ref)
    bad = d > tol
    if np.any(bad):
        i = int(np.argmax(d / tol))
        idx = np.unravel_index(i, got.shape)
        return False, '%s[%s] = %r, expected %r (|diff| = %.3g, allowed %.3g)' % (
            name, ','.join(map(str, idx)), float(got[idx]), float(ref[idx]), float(d[idx]), float(tol[idx]))
    return True, ''


def cl_polynomial(r, rmin, rmax, c, r0, s, reduced):
    """Polynomial(...).func/.abel equal the polynomial on [rmin,rmax) / its line-of-sight integral."""
    from abel.tools.polynomial import Polynomial
    r = np.asarray(r, float)
    P = Polynomial(r, rmin, rmax, np.asarray(c, float), r0, s, reduced)
    func, ab, fs, as_ = poly_reference(r, rmin, rmax, c, r0, s)
    fs2, as2 = poly_scales(r, rmin, rmax, c, r0, s, reduced)
    ok, d = _cmp('func', P.func, func, fs + fs2, RTOL_FUNC * 100)
    if not ok:
        return ok, d
    return _cmp('abel', P.abel, ab, as_ + as2, RTOL_ABEL)


def cl_piecewise(r, ranges):
    """PiecewisePolynomial = sum of its pieces (func, abel), each piece by definition."""
    from abel.tools.polynomial import PiecewisePolynomial
    r = np.asarray(r, float)
    rngs = [(a, b, np.asarray(c, float), r0, s, red) for (a, b, c, r0, s, red) in ranges]
    P = PiecewisePolynomial(r, rngs)
    n = len(r)
    func = np.zeros(n); ab = np.zeros(n); fs = np.zeros(n); as_ = np.zeros(n)
    for (a, b, c, r0, s, red) in ranges:
        f1, a1, s1, s2 = poly_reference(r, a, b, c, r0, s)
        s3, s4 = poly_scales(r, a, b, c, r0, s, red)
        func += f1; ab += a1; fs += s1 + s3; as_ += s2 + s4
    ok, d = _cmp('func', P.func, func, fs, RTOL_FUNC * 100)
    if not ok:
        return ok, d
    ok, d = _cmp('abel', P.abel, ab, as_, RTOL_ABEL)
    if not ok:
        return ok, d
    if len(P.p) != len(ranges):
        return False, 'number of pieces'
    return True, ''


def spoly_reference(r, cos, rmin, rmax, c, r0, s):
    """func, abel and their scales of sum c[m,n] ((R-r0)/s)^m cos^n 1_[rmin,rmax)(R) by definition
    (abel at an image point (r, cos): R = hypot(r, y), cos_3D = r cos / R)."""
    r = np.asarray(r, float)
    cos = np.asarray(cos, float)
    c = np.asarray(c, float)
    shape = r.shape
    func = np.zeros(shape); ab = np.zeros(shape); fs = np.zeros(shape); as_ = np.zeros(shape)
    if rmax <= 0 or c.size == 0:
        return func, ab, fs, as_
    rmin = max(rmin, 0.0)
    M, N = c.shape
    # |coefficients| of the powers of r the code works with (after stretch and Pascal/Toeplitz shift)
    from scipy.linalg import pascal, toeplitz
    ca = np.abs(c) * (np.abs(1.0 / s) ** np.arange(M))[:, None]
    if r0 != 0.0 and M > 1:
        ca = (pascal(M, 'upper', False) * toeplitz([1.0] + [0.0] * (M - 1), np.abs(float(r0)) ** np.arange(M))).dot(ca)

    def f(R, C, absval=False):
        if absval:
            C = np.abs(C)
            return sum(ca[m, n] * np.abs(R)**m * C**n for m in range(M) for n in range(N) if ca[m, n])
        t = (R - r0) / s
        tot = 0.0
        for m in range(M):
            for n in range(N):
                if c[m, n]:
                    tot = tot + c[m, n] * t**m * C**n
        return tot
    for idx in np.ndindex(shape):
        x = r[idx]; cs = cos[idx]
        fs[idx] = f(x, cs, True)
        if rmin <= x < rmax:
            func[idx] = f(x, cs)
        if x < rmax:
            z = x * cs
            ylo = np.sqrt(max(rmin * rmin - x * x, 0.0))
            yup = np.sqrt(rmax * rmax - x * x)

            def g(y, absval=False):
                R = np.hypot(x, y)
                C = z / R if R > 0 else 0.0
                return f(R, C, absval)
            ab[idx] = 2 * _quad(g, ylo, yup)
            as_[idx] = 2 * _quad(lambda y: g(y, True), ylo, yup)
    return func, ab, fs, as_


def cl_spolynomial(r, cos, rmin, rmax, c, r0, s):
    """SPolynomial(...).func/.abel equal the bivariate polynomial / its line-of-sight integral."""
    from abel.tools.polynomial import SPolynomial
    r = np.asarray(r, float); cos = np.asarray(cos, float)
    try:
        P = SPolynomial(r, cos, rmin, rmax, np.asarray(c, float), r0, s)
    except Exception as e:
        return False, 'raises %s: %s' % (type(e).__name__, e)
    func, ab, fs, as_ = spoly_reference(r, cos, rmin, rmax, c, r0, s)
    ok, d = _cmp('func', P.func, func, fs, RTOL_FUNC * 100)
    if not ok:
        return ok, d
    return _cmp('abel', P.abel, ab, as_, RTOL_ABEL)


def cl_piecewise_s(r, cos, ranges):
    from abel.tools.polynomial import PiecewiseSPolynomial
    r = np.asarray(r, float); cos = np.asarray(cos, float)
    try:
        P = PiecewiseSPolynomial(r, cos, [(a, b, np.asarray(c, float), r0, s) for (a, b, c, r0, s) in ranges])
    except Exception as e:
        return False, 'raises %s: %s' % (type(e).__name__, e)
    func = np.zeros(r.shape); ab = np.zeros(r.shape); fs = np.zeros(r.shape); as_ = np.zeros(r.shape)
    for (a, b, c, r0, s) in ranges:
        f1, a1, s1, s2 = spoly_reference(r, cos, a, b, c, r0, s)
        func += f1; ab += a1; fs += s1; as_ += s2
    ok, d = _cmp('func', P.func, func, fs, RTOL_FUNC * 100)
    if not ok:
        return ok, d
    return _cmp('abel', P.abel, ab, as_, RTOL_ABEL)


def _ev(c, x):
    return sum(float(ck) * x**k for k, ck in enumerate(np.ravel(c)))


def cl_angular(op, a, b, xs):
    """Angular algebra: the result evaluates (at cos(theta) = x) to the operation on the operands."""
    from abel.tools.polynomial import Angular
    A = Angular(a)
    xs = np.asarray(xs, float)
    sc = lambda c: sum(abs(float(ck)) for ck in np.ravel(c)) + 1.0
    if op in ('add', 'sub', 'mul'):
        B = Angular(b)
        C = {'add': lambda: A + B, 'sub': lambda: A - B, 'mul': lambda: A * B}[op]()
        ref = {'add': _ev(a, xs) + _ev(b, xs), 'sub': _ev(a, xs) - _ev(b, xs), 'mul': _ev(a, xs) * _ev(b, xs)}[op]
        scale = sc(a) * sc(b) if op == 'mul' else sc(a) + sc(b)
        if op in ('add', 'sub') and len(C.c) != max(len(A.c), len(B.c)):
            return False, 'length of the result'
        return _cmp(op, _ev(C.c, xs), ref, scale * np.ones_like(xs), 1e-12)
    if op == 'scal':     # b = [k]
        k = float(b[0])
        for nm, C in (('A*k', A * k), ('k*A', k * A), ('A/k', A / (1 / k))):
            ok, d = _cmp(nm, _ev(C.c, xs), k * _ev(a, xs), abs(k) * sc(a) * np.ones_like(xs), 1e-12)
            if not ok:
                return ok, d
        return True, ''
    if op == 'cossin':   # a = [m, n]
        m, n = int(a[0]), int(a[1])
        C = Angular.cossin(m, n)
        if len(C.c) != 1 + m + n:
            return False, 'length'
        ok, d = _cmp('cossin', _ev(C.c, xs), xs**m * (1 - xs**2)**(n // 2), 2.0**(n // 2) * np.ones_like(xs), 1e-12)
        if not ok:
            return ok, d
        if m == 0:
            ok, d = _cmp('sin', _ev(Angular.sin(n).c, xs), (1 - xs**2)**(n // 2), 2.0**(n // 2) * np.ones_like(xs), 1e-12)
            if not ok:
                return ok, d
        return _cmp('cos', _ev(Angular.cos(m).c, xs), xs**m, np.ones_like(xs), 1e-12)
    if op == 'legendre':
        from scipy.special import eval_legendre
        C = Angular.legendre(a)
        ref = sum(float(ak) * eval_legendre(k, xs) for k, ak in enumerate(a))
        # coefficients of P_n grow like 2^n: scale by the sum of |a_n| 4^n
        scale = sum(abs(float(ak)) * 4.0**k for k, ak in enumerate(a)) + 1.0
        if len(C.c) != len(a):
            return False, 'length'
        return _cmp('legendre', _ev(C.c, xs), ref, scale * np.ones_like(xs), 1e-12)
    if op == 'outer':    # a angular, b radial
        C = b * A
        C2 = A * b
        ref = np.outer(np.ravel(b), np.ravel(a))
        if not (np.array_equal(C, ref) and np.array_equal(C2, ref)):
            return False, 'outer product with radial coefficients'
        rngs = [(0.5, 2.0, b), (2.0, 3.0, b, 1.0, 2.0)]
        R = A * rngs
        if not (len(R) == 2 and R[0][:2] == (0.5, 2.0) and np.array_equal(R[0][2], ref)
                and R[1][3:] == (1.0, 2.0) and np.array_equal(R[1][2], ref)):
            return False, 'outer product with a list of ranges'
        return True, ''
    raise ValueError(op)


def _make_obj(kind, args):
    from abel.tools import polynomial as pm
    if kind == 'Polynomial':
        r, rmin, rmax, c, r0, s, red = args
        return pm.Polynomial(np.asarray(r, float), rmin, rmax, np.asarray(c, float), r0, s, red)
    if kind == 'PiecewisePolynomial':
        r, ranges = args
        return pm.PiecewisePolynomial(np.asarray(r, float),
                                      [(a, b, np.asarray(c, float), r0, s, red) for (a, b, c, r0, s, red) in ranges])
    if kind == 'SPolynomial':
        r, cos, rmin, rmax, c, r0, s = args
        return pm.SPolynomial(np.asarray(r, float), np.asarray(cos, float), rmin, rmax, np.asarray(c, float), r0, s)
    if kind == 'PiecewiseSPolynomial':
        r, cos, ranges = args
        return pm.PiecewiseSPolynomial(np.asarray(r, float), np.asarray(cos, float),
                                       [(a, b, np.asarray(c, float), r0, s) for (a, b, c, r0, s) in ranges])
    raise ValueError(kind)


def _parts(P):
    """whole object and every piece: list of (label, func, abel)"""
    out = [('object', P.func, P.abel)]
    for i, p in enumerate(getattr(P, 'p', [])):
        out.append(('piece %d' % i, p.func, p.abel))
    return out


SCALAR_OPS = ['mul', 'rmul', 'imul', 'div', 'idiv', 'roundtrip', 'chain']


def apply_scalar_op(P, op, a):
    """-> (result object, factor the result must carry, whether the operand must stay unchanged)"""
    if op == 'mul':
        return P * a, a, True
    if op == 'rmul':
        return a * P, a, True
    if op == 'div':
        return P / a, 1.0 / a, True
    if op == 'imul':
        Q = P.copy(); Q *= a
        return Q, a, True
    if op == 'idiv':
        Q = P.copy(); Q /= a
        return Q, 1.0 / a, True
    if op == 'roundtrip':
        Q = P.copy(); Q /= a; Q *= a
        return Q, 1.0, True
    if op == 'chain':
        Q = (2.0 * P) / a
        Q *= a
        return Q / 2.0, 1.0, True
    raise ValueError(op)


def cl_angular_purity(a, b, rad, k, xs, order):
    """Angular algebra as values: every operator (+, -, *, scalar * and /, outer product with radial coefficients or a list of
    ranges) leaves BOTH operands unchanged, shares no memory with them, gives the same result when evaluated twice, and the
    operands stay usable in later expressions -- the whole sequence `order` is evaluated on ONE pair of objects and every
    result is compared with the closed form computed from the original coefficients (finally through SPolynomial)."""
    from abel.tools.polynomial import Angular, SPolynomial
    a0 = np.asarray(a, float).copy(); b0 = np.asarray(b, float).copy(); rad0 = np.asarray(rad, float).copy()
    A = Angular(a0.copy()); B = Angular(b0.copy())
    xs = np.asarray(xs, float)
    sc = lambda c: np.sum(np.abs(c)) + 1.0
    ea, eb = _ev(a0, xs), _ev(b0, xs)

    def intact(step, res=None):
        if not (A.c.shape == a0.shape and np.array_equal(A.c, a0)):
            return False, '%s changed its left operand: %r -> %r' % (step, a0.tolist(), A.c.tolist())
        if not (B.c.shape == b0.shape and np.array_equal(B.c, b0)):
            return False, '%s changed its right operand: %r -> %r' % (step, b0.tolist(), B.c.tolist())
        if res is not None and hasattr(res, 'c') and (np.shares_memory(res.c, A.c) or np.shares_memory(res.c, B.c)):
            return False, '%s: the result shares memory with an operand' % step
        return True, ''
    exprs = {
        'A+B': (lambda: A + B, ea + eb, sc(a0) + sc(b0)), 'B+A': (lambda: B + A, ea + eb, sc(a0) + sc(b0)),
        'A-B': (lambda: A - B, ea - eb, sc(a0) + sc(b0)), 'B-A': (lambda: B - A, eb - ea, sc(a0) + sc(b0)),
        'A*B': (lambda: A * B, ea * eb, sc(a0) * sc(b0)), 'B*A': (lambda: B * A, ea * eb, sc(a0) * sc(b0)),
        'A+A': (lambda: A + A, 2 * ea, 2 * sc(a0)), 'A-A': (lambda: A - A, 0 * ea, 2 * sc(a0)), 'A*A': (lambda: A * A, ea * ea, sc(a0)**2),
        'k*A': (lambda: k * A, k * ea, abs(k) * sc(a0)), 'B*k': (lambda: B * k, k * eb, abs(k) * sc(b0)),
        'A/k': (lambda: A / k, ea / k, sc(a0) / abs(k)),
        '(A+B)*B': (lambda: (A + B) * B, (ea + eb) * eb, (sc(a0) + sc(b0)) * sc(b0)),
        '(A-B)+(B*A)': (lambda: (A - B) + (B * A), ea - eb + ea * eb, sc(a0) + sc(b0) + sc(a0) * sc(b0)),
    }
    for step in order:
        f, ref, scale = exprs[step]
        for rep in (1, 2):                       # evaluated twice: same value
            R = f()
            ok, d = _cmp('%s (evaluation %d)' % (step, rep), _ev(R.c, xs), ref, scale * np.ones_like(xs), 1e-12)
            if not ok:
                return ok, d
            ok, d = intact(step, R)
            if not ok:
                return ok, d
    # outer products with radial coefficients / ranges, then the polynomial class on the same B
    radl = rad0.tolist()
    M = np.asarray(radl * B)
    if not (np.array_equal(M, np.outer(rad0, b0)) and np.array_equal(np.asarray(B * radl), np.outer(rad0, b0))):
        return False, 'radial * B is not the outer product with the original coefficients'
    ok, d = intact('radial * B')
    if not ok:
        return ok, d
    # constructors take their own copies and leave their arguments alone
    cin = b0.copy()
    L = Angular.legendre(cin); C0 = Angular(cin)
    if not np.array_equal(cin, b0) or np.shares_memory(C0.c, cin) or np.shares_memory(L.c, cin):
        return False, 'a constructor changed or aliased its argument'
    L2 = Angular.legendre(cin)
    if not np.array_equal(L.c, L2.c):
        return False, 'legendre() evaluated twice differs'
    for n in (0, 2, 4):
        if not (np.array_equal(Angular.sin(n).c, Angular.sin(n).c) and np.array_equal(Angular.cos(n).c, Angular.cos(n).c)):
            return False, 'sin/cos constructors not repeatable'
    rngs = [(0.5, 2.5, rad0.copy()), (1.0, 3.0, rad0.copy(), 0.5, 2.0)]
    RR = B * rngs
    if not all(np.array_equal(np.asarray(t[2]), np.outer(rad0, b0)) for t in RR):
        return False, 'B * ranges is not the outer product with the original coefficients'
    ok, d = intact('B * ranges')
    if not ok:
        return ok, d
    r = np.array([0.0, 0.4, 0.9, 1.3, 1.8, 2.2, 2.9]); cs = np.array([0.0, 0.3, -0.8, 1.0, 0.5, -0.2, 0.9])
    P = SPolynomial(r, cs, 0.5, 2.5, radl * B)
    func, ab, fs, as_ = spoly_reference(r, cs, 0.5, 2.5, np.outer(rad0, b0), 0.0, 1.0)
    ok, d = _cmp('SPolynomial(radial * B).func', P.func, func, fs, RTOL_FUNC * 100)
    if not ok:
        return ok, d
    ok, d = _cmp('SPolynomial(radial * B).abel', P.abel, ab, as_, RTOL_ABEL)
    if not ok:
        return ok, d
    return intact('SPolynomial(radial * B)')


def cl_angular_outer(a, rad, kind):
    """outer product of an angular dependence with radial coefficients given as any list-like object"""
    from abel.tools.polynomial import Angular
    A = Angular(a)
    radv = {'list': list(rad), 'tuple': tuple(rad), 'ndarray': np.asarray(rad, float),
            'int-ndarray': np.asarray(np.round(rad), int)}[kind]
    ref = np.outer(np.ravel(np.asarray(radv, float)), np.asarray(a, float))
    for nm, f in (('radial * Angular', lambda: radv * A), ('Angular * radial', lambda: A * radv)):
        M = f()
        if not (isinstance(M, np.ndarray) and M.shape == ref.shape and np.array_equal(M, ref)):
            return False, '%s with %s radial coefficients is not the outer product' % (nm, kind)
    return True, ''


def cl_scalar_copy(kind, args, a, op='all'):
    """copy independence; every scalar operator the classes define (*, num *, *=, /, /=, round trips): the whole
    object AND every piece carry the factor; the operand is unchanged; the pieces still add up to the object."""
    P = _make_obj(kind, args)
    ref = [(lab, f.copy(), ab.copy()) for lab, f, ab in _parts(P)]
    # --- copies
    Q = P.copy()
    for (lab, f, ab), (_, f0, a0) in zip(_parts(Q), _parts(P)):
        if f is f0 or ab is a0 or np.shares_memory(f, f0) or np.shares_memory(ab, a0):
            return False, 'copy: %s shares memory with the original' % lab
    if len(_parts(Q)) != len(ref) or type(Q) is not type(P):
        return False, 'copy: type or number of pieces'
    for lab, f, ab in _parts(Q):
        f += 1.0; ab -= 2.0
    for (lab, f, ab), (_, f0, a0) in zip(_parts(P), ref):
        if not (np.array_equal(f, f0) and np.array_equal(ab, a0)):
            return False, 'modifying a copy changes the original (%s)' % lab
    # --- scalar operators
    close = lambda x, y: x.shape == y.shape and np.allclose(x, y, rtol=4e-15, atol=0)
    for o in (SCALAR_OPS if op == 'all' else [op]):
        R, k, keep = apply_scalar_op(P, o, a)
        if type(R) is not type(P):
            return False, '%s changes the type' % o
        parts = _parts(R)
        if len(parts) != len(ref):
            return False, '%s: number of pieces' % o
        for (lab, f, ab), (_, f0, a0) in zip(parts, ref):
            if not (close(f, k * f0) and close(ab, k * a0)):
                return False, '%s: %s is not scaled by %r' % (o, lab, k)
        for (lab, f, ab), (_, f0, a0) in zip(_parts(P), ref):
            if not (np.array_equal(f, f0) and np.array_equal(ab, a0)):
                return False, '%s modified its operand (%s)' % (o, lab)
        for (lab, f, ab), (_, f1, a1) in zip(parts, _parts(P)):
            if np.shares_memory(f, f1) or np.shares_memory(ab, a1):
                return False, '%s: result shares memory with the operand (%s)' % (o, lab)
        if len(parts) > 1:       # the pieces add up to the object
            sf = sum(f for _, f, _ in parts[1:]); sa = sum(ab for _, _, ab in parts[1:])
            scale_f = sum(np.abs(f) for _, f, _ in parts[1:]) + 1e-300
            scale_a = sum(np.abs(ab) for _, _, ab in parts[1:]) + 1e-300
            if np.any(np.abs(sf - parts[0][1]) > 1e-13 * scale_f) or np.any(np.abs(sa - parts[0][2]) > 1e-13 * scale_a):
                return False, '%s: the pieces do not add up to the object' % o
    # --- in-place operators on the object AS CONSTRUCTED (no copy in between): the object and its pieces share nothing
    for o, k in (('imul', a), ('idiv', 1.0 / a)):
        if op not in ('all', o):
            continue
        F = _make_obj(kind, args)
        if o == 'imul':
            F *= a
        else:
            F /= a
        if len(_parts(F)) != len(ref):
            return False, '%s on the object as constructed: number of pieces' % o
        for (lab, f, ab), (_, f0, a0) in zip(_parts(F), ref):
            if not (close(f, k * f0) and close(ab, k * a0)):
                return False, '%s on the object as constructed: %s is not scaled by %r' % (o, lab, k)
    return True, ''


def _make_spline(kind, xk, yk, deg):
    """kind: 'splrep' (tck from data), 'interp' (BSpline from data), 'univariate' (UnivariateSpline from data),
    'tck' / 'bspline' (xk = full knot vector t, yk = B-spline coefficients: any breakpoints).
    -> (object to pass to bspline(), evaluator, tck)"""
    from scipy import interpolate as si
    xk = np.asarray(xk, float); yk = np.asarray(yk, float)
    if kind == 'splrep':
        spl = si.splrep(xk, yk, k=deg, s=0)
        return spl, (lambda x: si.splev(x, spl)), spl
    if kind == 'interp':
        spl = si.make_interp_spline(xk, yk, k=deg)
        return spl, spl, (spl.t, spl.c, spl.k)
    if kind == 'univariate':
        spl = si.UnivariateSpline(xk, yk, k=deg, s=0)
        kn = spl.get_knots(); co = spl.get_coeffs(); k = len(co) - len(kn) + 1
        return spl, spl, (np.pad(kn, k, 'edge'), co, k)
    if kind == 'tck':
        spl = (xk, yk, deg)
        return spl, (lambda x: si.splev(x, spl)), spl
    if kind == 'bspline':
        spl = si.BSpline(xk, yk, deg)
        return spl, spl, (xk, yk, deg)
    raise ValueError(kind)


def cl_bspline(kind, xk, yk, deg, r):
    """bspline(spl): (i) every non-degenerate PPoly interval [x_i, x_{i+1}] becomes the range
    (x_i, x_{i+1}, coefficients in ascending powers of (x - x_i), r_0 = x_i) -- the real breakpoints, also negative ones;
    (ii) PiecewisePolynomial(r, ranges).func is the spline on [max(x_0, 0), x_N) and 0 elsewhere; (iii) its abel is the
    line-of-sight integral of that function, interval by interval."""
    from scipy.interpolate import PPoly
    from abel.tools.polynomial import bspline, PiecewisePolynomial
    r = np.asarray(r, float)
    spl, ev, tck = _make_spline(kind, xk, yk, deg)
    ranges = bspline(spl)
    pp = PPoly.from_spline(tck)
    x = pp.x; c = pp.c
    # (i) bookkeeping against PPoly
    exp = [(x[i], x[i + 1], c[::-1, i], x[i]) for i in range(len(x) - 1) if x[i] != x[i + 1]]
    rep = lambda t: (float(t[0]), float(t[1]), np.asarray(t[2], float), float(t[3]) if len(t) > 3 else 0.0,
                     float(t[4]) if len(t) > 4 else 1.0)
    # a range may be clipped at 0 on the left (the function on r >= 0 is what matters), but the expansion point
    # and the coefficients must describe the same polynomial: compare as functions at three points of each interval
    got = [rep(t) for t in ranges]
    for (a, b, cc, x0) in exp:
        if b <= 0:
            continue
        lo = max(a, 0.0)
        ts = lo + (b - lo) * np.array([0.1, 0.5, 0.9])
        ref = sum(ck * (ts - x0)**k for k, ck in enumerate(cc))
        val = np.zeros_like(ts)
        for (ga, gb, gc, g0, gs) in got:
            m = (ts >= max(ga, 0.0)) & (ts < gb)
            val[m] += sum(ck * ((ts[m] - g0) / gs)**k for k, ck in enumerate(gc))
        scale = np.sum(np.abs(cc) * max(abs(b - x0), abs(lo - x0), 1.0)**np.arange(len(cc))) + 1.0
        if np.any(np.abs(val - ref) > 1e-10 * scale):
            return False, 'ranges do not reproduce the PPoly piece on [%r, %r] (breakpoint %r)' % (float(a), float(b), float(x0))
    # (ii) func
    P = PiecewisePolynomial(r, ranges)
    x0, xN = float(x[0]), float(x[-1])
    lo = max(x0, 0.0)
    inside = (r >= lo) & (r < xN)
    ref = np.where(inside, ev(np.where(inside, r, lo)), 0.0)
    scale = (np.max(np.abs(np.asarray(tck[1], float))) + 1.0) * 10
    ok, d = _cmp('func', P.func, ref, scale * np.ones_like(r), 1e-10)
    if not ok:
        return ok, d
    # (iii) abel by quadrature of the spline itself, split at the breakpoints
    ab = np.zeros_like(r)
    brk = np.unique(x)
    for i, xx in enumerate(r):
        if xx < xN:
            ylo = np.sqrt(max(lo * lo - xx * xx, 0.0)); yup = np.sqrt(xN * xN - xx * xx)
            pts = [np.sqrt(t * t - xx * xx) for t in brk if t > xx and t > lo and ylo < np.sqrt(t * t - xx * xx) < yup]
            v, _ = integrate.quad(lambda y: float(ev(np.hypot(xx, y))), ylo, yup, points=pts or None,
                                  epsabs=0, epsrel=1e-12, limit=400)
            ab[i] = 2 * v
    return _cmp('abel', P.abel, ab, scale * xN * 2 * np.ones_like(r), 1e-8)


def cl_approx_gaussian(tol):
    """ApproxGaussian(tol): max deviation from exp(-r^2/2) <= 1.01 tol (dense sampling), continuity,
    non-negativity, end points, norm, scaled()."""
    from abel.tools.polynomial import ApproxGaussian, PiecewisePolynomial
    g = ApproxGaussian(tol)
    rg = g.ranges
    if len(rg) < 1:
        return False, 'no ranges'
    md = 0.0; norm = 0.0; prev = None
    for (a, b, c, r0, s) in rg:
        if not (a < b) or r0 != a or abs(s - (b - a)) > 1e-15 * abs(b):
            return False, 'range parameters'
        if prev is not None and a != prev:
            return False, 'ranges not adjacent'
        prev = b
        x = np.linspace(a, b, 4001); t = (x - r0) / s
        q = c[0] + c[1] * t + c[2] * t * t
        md = max(md, float(np.max(np.abs(q - np.exp(-x * x / 2)))))
        if np.min(q) < -1e-15:
            return False, 'negative values (%g)' % np.min(q)
        norm += (c[0] + c[1] / 2 + c[2] / 3) * s
    if rg[0][0] != -rg[-1][1]:
        return False, 'not symmetric'
    if np.exp(-rg[-1][1]**2 / 2) > 1.01 * tol:
        return False, 'tail beyond the last node exceeds tol'
    if md > 1.01 * tol:
        return False, 'max deviation %g > 1.01 * tol = %g' % (md, 1.01 * tol)
    # continuity at the nodes, zero at the ends
    for i in range(len(rg) - 1):
        c1 = rg[i][2]; c2 = rg[i + 1][2]
        if abs((c1[0] + c1[1] + c1[2]) - c2[0]) > 1e-14:
            return False, 'discontinuous at node %d' % (i + 1)
    if abs(rg[0][2][0]) > 0 or abs(sum(rg[-1][2])) > 1e-15:
        return False, 'end points not zero'
    if abs(norm - g.norm) > 1e-13 * norm or abs(g.norm - np.sqrt(2 * np.pi)) > 4 * tol * rg[-1][1]:
        return False, 'norm'
    # scaled(): A exp(-((r - r_0)/sigma)^2 / 2) within A * 1.01 tol on a grid
    A, R0, sig = 2.5, 7.0, 1.7
    r = np.linspace(0, 20, 801)
    P = PiecewisePolynomial(r, g.scaled(A, R0, sig))
    dev = np.max(np.abs(P.func - A * np.exp(-((r - R0) / sig)**2 / 2)))
    if dev > A * 1.01 * tol:
        return False, 'scaled(): deviation %g' % dev
    return True, ''


CLAUSES = dict(polynomial=cl_polynomial, piecewise=cl_piecewise, spolynomial=cl_spolynomial,
               piecewise_s=cl_piecewise_s, angular=cl_angular, scalar_copy=cl_scalar_copy,
               bspline=cl_bspline, approx_gaussian=cl_approx_gaussian, angular_purity=cl_angular_purity, angular_outer=cl_angular_outer)


def run_clause(name, args):
    try:
        ok, detail = CLAUSES[name](*args)
    except Exception as e:     # an exception on a valid request is a failure of the clause
        ok, detail = False, 'raises %s: %s' % (type(e).__name__, e)
    return ok, detail
