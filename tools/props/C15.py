# C15 — distribution representations agree and respect image symmetries.
#
#   theorems   coq/props/C15.v (proofs/DistrReprProofs.v, proofs/C15R.v)
#   models     coq/model/DistrRepr.v (+ DistrGeom.v / DistrFit.v shared with C14)
#   tie        correspondence of Results.orders/sinpowers/cossin()/harmonics()/
#              Ibeta(window) with the model run over exact rationals, for all 18
#              (order, parity) cases incl. the conversion matrices themselves
#              (cn = identity); the geometry/arithmetic tie of the folding is
#              the one of C14 (same model files)
#   search     representation agreement at random angles; invariances of
#              Distributions at well-conditioned radii
import json
import re
import warnings
from fractions import Fraction

import numpy as np

import distr_lib as L
import vlib
from vlib import Hit

LEVEL = 'proof'
MAX_REPORTED = 10      # distinct failing inputs written as replays per run (the rest is counted in the evidence)

CASE_HEADER = (vlib.HEADER_CASES +
               'From PA Require Import base.QClose model.DistrRepr model.DistrReprQ.\n'
               'Open Scope Q_scope.\n')

CASES18 = [(order, odd) for order in range(9) for odd in (False, True)]


def results_obj(order, odd, cn, r=None):
    from abel.tools.vmi import Distributions
    cn = np.asarray(cn, dtype=float)
    if r is None:
        r = np.arange(cn.shape[1])
    return Distributions.Results(np.asarray(r), cn, order, odd)


def nterms(order, odd):
    return len(range(0, order + 1, 1 if odd else 2))


def natlist(l):
    return '[' + '; '.join(str(int(v)) for v in l) + ']%nat'


def rcase_coq(order, odd, window, cn, res, unit=1.0):
    with warnings.catch_warnings(), np.errstate(all='ignore'):
        warnings.simplefilter('ignore')
        cs, harm, ib = res.cossin(), res.harmonics(), res.Ibeta(window)
    return ('{| rc_order := %d; rc_odd := %s; rc_window := %d; rc_pi := %s; rc_unit := %s; rc_r := %s; rc_cn := %s; '
            'rc_orders := %s; rc_sinpowers := %s; rc_cossin := %s; rc_harm := %s; rc_Ibeta := %s |}'
            % (order, vlib.bool_lit(odd), window, vlib.q_lit(float(np.pi)), vlib.q_lit(float(unit)),
               vlib.list_lit([vlib.q_lit(float(v)) for v in res.r]), vlib.img_q(np.asarray(cn, float).tolist()),
               natlist(res.orders), natlist(res.sinpowers), vlib.img_q(cs.tolist()), vlib.img_q(harm.tolist()),
               vlib.img_q(ib.tolist())))


def exc_hit(order, odd, cn, e):
    params = dict(cn=np.asarray(cn).tolist(), order=order, odd=odd, r=list(range(np.asarray(cn).shape[1])), theta=[0.3, 1.1])
    return Hit('same-function', 'C15:representation:exception:%s:order=%d:odd=%s' % (type(e).__name__, order, odd),
               'Results(order=%d, odd=%s) conversion raises %s: %s' % (order, odd, type(e).__name__, e),
               SNIPPET_REPR % dict(params=json.dumps(params)), dict(order=order, odd=odd))


def correspondence(ctx, rng, hits):
    cases, meta = [], []
    reps = 2 if ctx.quick else 12
    for (order, odd) in CASES18:
        n = nterms(order, odd)
        # the conversion matrices themselves: cn = identity + first row of ones (radii = terms)
        cn = np.eye(n)
        cn[0, 1:] = 1.0       # (keeps P0 >= 1 at every radius so that beta = Pn/P0 is well defined)
        try:
            cases.append(rcase_coq(order, odd, 1, cn, results_obj(order, odd, cn)))
            meta.append((order, odd, 'identity', 1))
        except Exception as e:     # noqa
            hits.append(exc_hit(order, odd, cn, e))
            continue
        for _ in range(reps):
            R = int(rng.integers(1, 8))
            cn = rng.integers(-16, 17, (n, R)) / 4.0
            if rng.random() < 0.3:
                cn[:, rng.integers(R)] = 0.0           # P0 = 0 at one radius (beta = 0 there)
            window = int(rng.integers(1, 6))
            # P0 (or its moving average) equal to zero in exact arithmetic but not in
            # binary64, or conversely, would make beta = Pn/P0 incomparable: keep
            # |P0| either exactly 0 (all-zero column, window 1) or well away from 0
            P0 = results_obj(order, odd, cn).harmonics()[0]
            if window > 1:
                from scipy.ndimage import uniform_filter1d
                P0 = uniform_filter1d(P0, window, mode='nearest')
                if np.any(np.abs(P0) < 1e-3):
                    window = 1
                    P0 = results_obj(order, odd, cn).harmonics()[0]
            if np.any((np.abs(P0) < 1e-3) & (np.abs(cn).sum(axis=0) > 0)):
                cn[0] += 7.0
            # overall scale of the coefficients: a power of two of either sign over ~240 decades
            # (all binary64 operations then scale exactly; beta = Pn/P0 must not depend on it)
            unit = 1.0
            if rng.random() < 0.75:
                unit = float((-1.0) ** int(rng.integers(2)) * 2.0 ** int(rng.integers(-400, 401)))
            cn = cn * unit
            try:
                cases.append(rcase_coq(order, odd, window, cn, results_obj(order, odd, cn), unit))
                meta.append((order, odd, 'random*2^%d' % int(np.round(np.log2(abs(unit)))), window))
            except Exception as e:     # noqa
                hits.append(exc_hit(order, odd, cn, e))
    shard = 40
    texts = []
    for k in range(0, len(cases), shard):
        texts.append(('C15_%03d' % (k // shard),
                      CASE_HEADER + 'Definition cases : list rcase := %s.\n' % vlib.list_lit(cases[k:k + shard]) +
                      'Definition res := map rcheck cases.\nEval vm_compute in (count_true res, false_idx 0 res).\n'))
    outs = vlib.coq_eval_many(texts)
    n_ok, bad, errors = 0, [], []
    for k, (name, _) in enumerate(texts):
        rc, out = outs[name]
        r = vlib.parse_eval_lists(out)
        if rc != 0 or not r:
            errors.append((name, out[-400:]))
            continue
        m = re.match(r'\((\d+), (.*)\)$', r[0])
        n_ok += int(m.group(1))
        bad += [(meta[k * shard + i], cases[k * shard + i]) for i in vlib.parse_nat_list(m.group(2))]
    if bad:     # which component disagrees
        rc, out = vlib.coq_eval('C15_parts', CASE_HEADER + 'Eval vm_compute in (rcheck_parts %s).\n' % bad[0][1])
        r = vlib.parse_eval_lists(out)
        bad = [(b[0], 'components [orders; sinpowers; unit; cossin; harmonics; Ibeta] agree: %s' % (r[0] if r else out[-200:]))
               for b in bad]
    return len(cases), n_ok, bad, errors


# ---------------------------------------------------------------------------
# search
# ---------------------------------------------------------------------------

def legendre_val(n, x):
    p, pm = np.ones_like(x), np.zeros_like(x)
    for k in range(n):
        p, pm = ((2 * k + 1) * x * p - k * pm) / (k + 1), p
    return p


SNIPPET_REPR = '''
import json, sys, warnings
import numpy as np
warnings.simplefilter('ignore')
from abel.tools.vmi import Distributions
p = json.loads(%(params)r)
cn = np.array(p['cn']); order = p['order']; odd = p['odd']; r = np.array(p['r'], dtype=float)
res = Distributions.Results(r, cn, order, odd)
th = np.array(p['theta']); x = np.cos(th)[:, None]; s = np.sin(th)[:, None]
def leg(n, x):
    a, b = np.ones_like(x), np.zeros_like(x)
    for k in range(n):
        a, b = ((2 * k + 1) * x * a - k * b) / (k + 1), a
    return a
f_cos = sum(c[None, :] * x ** n for c, n in zip(res.cos(), res.orders))
f_cs = sum(c[None, :] * x ** n * s ** m for c, n, m in zip(res.cossin(), res.orders, res.sinpowers))
f_h = sum(c[None, :] * leg(n, x) for c, n in zip(res.harmonics(), res.orders))
ib = res.Ibeta(1); P0 = res.harmonics()[0]
ok_I = np.allclose(ib[0], 4 * np.pi * r ** 2 * P0, rtol=1e-12, atol=1e-12)
nz = P0 != 0
f_b = P0[None, :] * (1 + sum(b[None, :] * leg(n, x) for b, n in zip(ib[1:], res.orders[1:])))
scale = 1 + np.abs(cn).sum(axis=0)[None, :] * 10
from scipy.ndimage import uniform_filter1d as _uf
harm = res.harmonics()
ok_w = True
for w in (2, 3, 5):
    ibw = res.Ibeta(w); sm = _uf(harm, w, axis=1, mode='nearest')
    okb = np.abs(sm[0]) > 1e-6 * (1 + np.abs(harm[0]).max())
    ok_w = ok_w and np.allclose(ibw[0], 4 * np.pi * r ** 2 * P0, rtol=1e-12, atol=1e-12) and \
        np.allclose((ibw[1:] * sm[0][None, :])[:, okb], sm[1:][:, okb], rtol=1e-9, atol=1e-9 * (1 + np.abs(harm).max()))
ok = (np.all(np.abs(f_cs - f_cos) <= 1e-9 * scale) and np.all(np.abs(f_h - f_cos) <= 1e-9 * scale)
      and ok_I and ok_w and np.all(np.abs(f_b - f_cos)[:, nz] <= 1e-9 * scale[:, nz]))
print('C15 representations', 'agree' if ok else 'DISAGREE', 'order', order, 'odd', odd)
sys.exit(0 if ok else 1)
'''

SNIPPET_INV = '''
import json, sys, warnings
import numpy as np
warnings.simplefilter('ignore')
from abel.tools.vmi import Distributions
p = json.loads(%(params)r)
def arr(x): return None if x is None else np.array(x)
def org(o): return tuple(o) if isinstance(o, list) else o
def run(k):
    return Distributions(origin=org(k['origin']), rmax=k['rmax'], order=p['order'], odd=p['odd'], use_sin=p['use_sin'],
                         weights=arr(k['W']), method=p['method'])(arr(k['IM'])).cos()
A, B = run(p['a']), run(p['b'])
radii = p['radii']; sign = np.array(p['sign'])[:, None]; tol = np.array(p['tol'])[None, :]
err = np.abs(A[:, radii] - sign * B[:, radii])
ok = bool(np.all(err <= tol))
print('C15 invariance', p['kind'], 'holds' if ok else 'FAILS', 'max difference', float(err.max()) if err.size else 0.0)
sys.exit(0 if ok else 1)
'''


def search_repr(ctx, rng, budget):
    hits, n_eval, distinct = [], 0, set()
    for it in range(budget):
        order, odd = CASES18[it % 18]
        n = nterms(order, odd)
        R = int(rng.integers(1, 12))
        cn = rng.normal(size=(n, R)) * 10 ** rng.uniform(-2, 2)
        if rng.random() < 0.2:
            cn[0, rng.integers(R)] = 0.0
        r = np.arange(R, dtype=float)
        res = results_obj(order, odd, cn, r)
        th = rng.uniform(0, 2 * np.pi, 7)
        x, s = np.cos(th)[:, None], np.sin(th)[:, None]
        try:
            res.cossin(), res.harmonics(), res.Ibeta(1)
        except Exception as e:     # noqa
            hits.append(exc_hit(order, odd, cn, e))
            continue
        with warnings.catch_warnings(), np.errstate(all='ignore'):
            warnings.simplefilter('ignore')
            f_cos = sum(c[None, :] * x ** k for c, k in zip(res.cos(), res.orders))
            f_cs = sum(c[None, :] * x ** k * s ** m for c, k, m in zip(res.cossin(), res.orders, res.sinpowers))
            f_h = sum(c[None, :] * legendre_val(k, x) for c, k in zip(res.harmonics(), res.orders))
            ib = res.Ibeta(1)
            P0 = res.harmonics()[0]
            f_b = P0[None, :] * (1 + sum(b[None, :] * legendre_val(k, x) for b, k in zip(ib[1:], res.orders[1:])))
        n_eval += 1
        distinct.add((order, odd))
        scale = 1 + np.abs(cn).sum(axis=0)[None, :] * 10
        nz = P0 != 0
        bad = []
        if not np.all(np.abs(f_cs - f_cos) <= 1e-9 * scale):
            bad.append('cossin')
        if not np.all(np.abs(f_h - f_cos) <= 1e-9 * scale):
            bad.append('harmonics')
        if not np.allclose(ib[0], 4 * np.pi * r ** 2 * P0, rtol=1e-12, atol=1e-12):
            bad.append('I=4pi r^2 P0')
        if not np.all(np.abs(f_b - f_cos)[:, nz] <= 1e-9 * scale[:, nz]):
            bad.append('Ibeta')
        # every window size: I stays 4 pi r^2 P0 (not smoothed), beta_n = <P_n> / <P0> (moving averages)
        from scipy.ndimage import uniform_filter1d as _uf
        harm = res.harmonics()
        for w in (2, 3, 5):
            with warnings.catch_warnings(), np.errstate(all='ignore'):
                warnings.simplefilter('ignore')
                ibw = res.Ibeta(w)
                sm = _uf(harm, w, axis=1, mode='nearest')
            if not np.allclose(ibw[0], 4 * np.pi * r ** 2 * P0, rtol=1e-12, atol=1e-12):
                bad.append('I=4pi r^2 P0 (window %d)' % w)
                break
            okb = np.abs(sm[0]) > 1e-6 * (1 + np.abs(harm[0]).max())
            if not np.allclose((ibw[1:] * sm[0][None, :])[:, okb], sm[1:][:, okb], rtol=1e-9, atol=1e-9 * (1 + np.abs(harm).max())):
                bad.append('beta_n=<P_n>/<P0> (window %d)' % w)
                break
        if res.orders != list(range(0, order + 1, 1 if odd else 2)):
            bad.append('orders')
        for b in bad:
            params = dict(cn=cn.tolist(), order=order, odd=odd, r=r.tolist(), theta=th.tolist())
            hits.append(Hit('same-function', 'C15:representation:%s:order=%d:odd=%s' % (b, order, odd),
                            'the %s representation is not the same angular function as cos^n (order %d, odd %s)'
                            % (b, order, odd), SNIPPET_REPR % dict(params=json.dumps(params)),
                            dict(order=order, odd=odd)))
    return hits, n_eval, len(distinct)


def run_cos(o, rm, order, odd, sin, meth, W, IM):
    from abel.tools.vmi import Distributions
    with warnings.catch_warnings(), np.errstate(all='ignore'):
        warnings.simplefilter('ignore')
        d = Distributions(origin=o, rmax=rm, order=order, odd=odd, use_sin=sin, weights=W, method=meth)
        return d(IM).cos(), d


def oj(o):
    return o if isinstance(o, str) else [int(o[0]), int(o[1])]


def aj(a):
    return None if a is None else np.asarray(a).tolist()


def search_invariance(ctx, rng, budget):
    hits, n_eval, distinct, samples = [], 0, set(), []
    kinds = ['mirror-lr', 'mirror-tb', 'weights-scale', 'zero-weight', 'origin-negative', 'origin-string', 'rmax-prefix']
    for it in range(budget):
        kind = kinds[it % len(kinds)]
        h, w = [int(v) for v in rng.integers(4, 26, 2)]
        order = int(rng.integers(0, 5)) if rng.random() < 0.7 else int(rng.integers(0, 9))
        odd = bool(rng.integers(2))
        orders, odd_r = L.orders_of(order, odd)
        meth = ['nearest', 'linear'][rng.integers(2)]
        sin = bool(rng.integers(2))
        row, col = int(rng.integers(h)), int(rng.integers(w))
        rm = L.RMAX_KW[rng.integers(9)] if rng.random() < 0.7 else int(rng.integers(1, max(h, w)))
        IM = rng.normal(size=(h, w))
        W = None if (rng.random() < 0.3 and kind not in ('weights-scale', 'zero-weight')) else rng.uniform(0.2, 3, (h, w))
        a = dict(origin=(row, col), rmax=rm, W=W, IM=IM)
        sign = np.ones(len(orders))
        if kind == 'mirror-lr':
            b = dict(origin=(row, w - 1 - col), rmax=rm, W=None if W is None else W[:, ::-1].copy(), IM=IM[:, ::-1].copy())
        elif kind == 'mirror-tb':
            b = dict(origin=(h - 1 - row, col), rmax=rm, W=None if W is None else W[::-1].copy(), IM=IM[::-1].copy())
            sign = np.array([(-1.0) ** n for n in orders])
        elif kind == 'weights-scale':
            b = dict(origin=(row, col), rmax=rm, W=W * float(2.0 ** int(rng.integers(-3, 4)) * rng.uniform(1, 2)), IM=IM)
        elif kind == 'zero-weight':
            W = W * (rng.random((h, w)) < 0.8)
            IM2 = np.where(W == 0, rng.normal(size=(h, w)) * 100, IM)
            a = dict(origin=(row, col), rmax=rm, W=W, IM=IM)
            b = dict(origin=(row, col), rmax=rm, W=W, IM=IM2)
        elif kind == 'origin-negative':
            b = dict(origin=(row - h if rng.random() < 0.6 else row, col - w if rng.random() < 0.6 else col),
                     rmax=rm, W=W, IM=IM)
            if b['origin'] == (row, col):
                b['origin'] = (row - h, col - w)
        elif kind == 'origin-string':
            s = L.ORIGIN_STRINGS[rng.integers(len(L.ORIGIN_STRINGS))]
            row, col = L.resolve_origin((h, w), s)
            a = dict(origin=(row, col), rmax=rm, W=W, IM=IM)
            b = dict(origin=s, rmax=rm, W=W, IM=IM)
        else:   # rmax-prefix
            r1 = int(rng.integers(1, max(2, min(h, w))))
            r2 = r1 + int(rng.integers(1, 8)) if rng.random() < 0.6 else L.RMAX_KW[rng.integers(9)]
            a = dict(origin=(row, col), rmax=r1, W=W, IM=IM)
            b = dict(origin=(row, col), rmax=r2, W=W, IM=IM)
        try:
            A, dA = run_cos(a['origin'], a['rmax'], order, odd, sin, meth, a['W'], a['IM'])
            B, dB = run_cos(b['origin'], b['rmax'], order, odd, sin, meth, b['W'], b['IM'])
        except Exception as e:     # noqa
            params = dict(kind=kind, order=order, odd=odd, use_sin=sin, method=meth, radii=[], sign=sign.tolist(), tol=[],
                          a=dict(origin=oj(a['origin']), rmax=a['rmax'], W=aj(a['W']), IM=aj(a['IM'])),
                          b=dict(origin=oj(b['origin']), rmax=b['rmax'], W=aj(b['W']), IM=aj(b['IM'])))
            hits.append(Hit(kind, 'C15:invariance:%s:exception:%s' % (kind, type(e).__name__),
                            'invariance %s: an equivalent request raises %s (%s); origins %r / %r'
                            % (kind, type(e).__name__, e, a['origin'], b['origin']),
                            SNIPPET_INV % dict(params=json.dumps(params)), dict(kind=kind)))
            continue
        n_eval += 1
        distinct.add((kind, meth, sin, odd_r, len(orders)))
        ncommon = min(dA.rmax, dB.rmax) + 1
        if kind != 'rmax-prefix' and dA.rmax != dB.rmax:
            hits.append(Hit(kind, 'C15:%s:rmax-differs' % kind, 'rmax resolves differently (%d vs %d)' % (dA.rmax, dB.rmax),
                            '', {}))
            continue
        conds = L.hankel_cond((h, w), row, col, a['W'], orders, odd_r, meth, sin, ncommon - 1)
        radii = [int(k) for k in range(ncommon) if conds[k] <= 1e8]
        if len(samples) < 5:
            samples.append(dict(kind=kind, shape=[h, w], origin=[row, col], rmax=repr(rm), order=order, odd=odd,
                                method=meth, use_sin=sin, radii_checked=len(radii)))
        if not radii:
            continue
        scale = 1 + np.abs(A[:, radii]).max(axis=0)
        tol = (1e-9 + 1e-12 * conds[radii]) * scale
        err = np.abs(A[:, radii] - sign[:, None] * B[:, radii])
        if not np.all(err <= tol[None, :]):
            params = dict(kind=kind, order=order, odd=odd, use_sin=sin, method=meth, radii=radii, sign=sign.tolist(),
                          tol=tol.tolist(),
                          a=dict(origin=oj(a['origin']), rmax=a['rmax'], W=aj(a['W']), IM=aj(a['IM'])),
                          b=dict(origin=oj(b['origin']), rmax=b['rmax'], W=aj(b['W']), IM=aj(b['IM'])))
            hits.append(Hit(kind, 'C15:invariance:%s:method=%s:use_sin=%s:odd=%s:N=%d' % (kind, meth, sin, odd_r, len(orders)),
                            'invariance %s fails (shape %dx%d, origin %r, rmax %r, order %d, odd %s, %s, use_sin %s): '
                            'max difference %.3g at well-conditioned radii'
                            % (kind, h, w, a['origin'], rm, order, odd, meth, sin, float(err.max())),
                            SNIPPET_INV % dict(params=json.dumps(params)),
                            dict(kind=kind, shape=[h, w], order=order, odd=odd, method=meth, use_sin=sin)))
    return hits, n_eval, len(distinct), samples


SNIPPET_SCALE = '''
import json, sys, warnings
import numpy as np
warnings.simplefilter('ignore')
import abel.tools.vmi as vmi
p = json.loads(%(params)r)
IM = np.array(p['IM']); W = None if p['W'] is None else np.array(p['W'])
origin = tuple(p['origin']) if isinstance(p['origin'], list) else p['origin']
c = float.fromhex(p['c']); window = p['window']; exact = p['power_of_two']
kw = dict(odd=p['odd'], use_sin=p['use_sin'], weights=W, method=p['method'])
def run(img):
    return vmi.Distributions(origin, p['rmax'], p['order'], **kw).image(img)
r1, r2 = run(IM), run(c * IM)
bad = []
def same(a, b, what):
    if exact and not np.array_equal(a, b, equal_nan=True): bad.append(what)
harm = r2.harmonics(); P0, Pn = harm[:1], harm[1:]
ib = r2.Ibeta(1)
with np.errstate(all='ignore'):
    ref = np.where(P0 != 0, Pn / np.where(P0 != 0, P0, 1), 0.0)
if not np.array_equal(ib[1:], ref, equal_nan=True): bad.append('beta_n = P_n/P_0 wherever P_0 != 0')
if not np.allclose(ib[0], 4 * np.pi * r2.r ** 2 * P0[0], rtol=1e-13, atol=0, equal_nan=True): bad.append('I = 4 pi r^2 P0')
same(r2.cos(), c * r1.cos(), 'cos scales'); same(r2.cossin(), c * r1.cossin(), 'cossin scales')
same(r2.harmonics(), c * r1.harmonics(), 'harmonics scale')
i1, i2 = r1.Ibeta(window), r2.Ibeta(window)
same(i2[0], c * i1[0], 'I scales')
same(i2[1:], i1[1:], 'beta is scale invariant (window %%d)' %% window)
if not np.array_equal(r2.rIbeta(window), np.vstack((r2.r, i2)), equal_nan=True): bad.append('rIbeta')
mk = dict(kw)
if not np.array_equal(vmi.Ibeta(c * IM, origin, p['rmax'], p['order'], window, **mk), i2, equal_nan=True): bad.append('vmi.Ibeta helper')
if not np.array_equal(vmi.rIbeta(c * IM, origin, p['rmax'], p['order'], window, **mk), r2.rIbeta(window), equal_nan=True): bad.append('vmi.rIbeta helper')
if not np.array_equal(vmi.harmonics(c * IM, origin, p['rmax'], p['order'], **mk), r2.harmonics(), equal_nan=True): bad.append('vmi.harmonics helper')
if not np.array_equal(vmi.rharmonics(c * IM, origin, p['rmax'], p['order'], **mk), r2.rharmonics(), equal_nan=True): bad.append('vmi.rharmonics helper')
print('C15 image scaling by', c, 'holds' if not bad else 'FAILS: ' + '; '.join(bad))
sys.exit(0 if not bad else 1)
'''


def search_scale(ctx, rng, budget):
    """Scaling the image by c != 0 over hundreds of decades (both signs): cos, cossin, harmonics and
    I scale by c, beta does not change, beta_n = P_n/P_0 wherever P_0 != 0, rIbeta and the
    module-level helpers agree; powers of two scale every binary64 operation exactly, so the
    comparison is bit for bit; powers of ten are compared to 1e-9."""
    import abel.tools.vmi as vmi
    hits, n_eval, distinct = [], 0, set()
    for it in range(budget):
        h, w = [int(v) for v in rng.integers(6, 26, 2)]
        if rng.random() < 0.6:
            row, col = int(rng.integers(h)), int(rng.integers(w))
            o = (row, col)
        else:
            o = L.ORIGIN_STRINGS[rng.integers(len(L.ORIGIN_STRINGS))]
        rm = L.RMAX_KW[rng.integers(9)] if rng.random() < 0.7 else int(rng.integers(1, max(h, w)))
        order = int(rng.integers(0, 5)) if rng.random() < 0.75 else int(rng.integers(0, 9))
        odd = bool(rng.integers(2))
        meth = ['nearest', 'linear'][rng.integers(2)]
        sin = bool(rng.integers(2))
        W = None if rng.random() < 0.5 else rng.uniform(0.2, 3, (h, w)) * (rng.random((h, w)) < 0.9)
        window = [1, 1, 2, 3, 5][rng.integers(5)]
        exact = rng.random() < 0.7
        sign = (-1.0) ** int(rng.integers(2))
        c = sign * (2.0 ** int(rng.integers(-800, 801)) if exact else 10.0 ** int(rng.integers(-240, 241)))
        # a peak on a background, ordinary units
        yy, xx = np.mgrid[:h, :w]
        IM = rng.uniform(0.5, 1.5, (h, w)) + 3 * np.exp(-((np.hypot(yy - h / 2, xx - w / 2) - min(h, w) / 4) ** 2) / 4)
        kw = dict(odd=odd, use_sin=sin, weights=W, method=meth)
        n_eval += 1
        distinct.add(('scale', meth, sin, odd, W is None, window, exact, sign))
        bad = []
        try:
            with warnings.catch_warnings(), np.errstate(all='ignore'):
                warnings.simplefilter('ignore')
                r1 = vmi.Distributions(o, rm, order, **kw).image(IM)
                r2 = vmi.Distributions(o, rm, order, **kw).image(c * IM)

                def same(a, b, what):
                    # (only for powers of two: every binary64 operation then scales exactly, also at
                    #  ill-conditioned radii; for powers of ten only the clauses at the scaled image
                    #  itself are checked)
                    if exact and not np.array_equal(a, b, equal_nan=True):
                        bad.append(what)

                harm = r2.harmonics()
                P0, Pn = harm[:1], harm[1:]
                ib = r2.Ibeta(1)
                ref = np.where(P0 != 0, Pn / np.where(P0 != 0, P0, 1), 0.0)
                if not np.array_equal(ib[1:], ref, equal_nan=True):
                    bad.append('beta_n = P_n/P_0 wherever P_0 != 0')
                if not np.allclose(ib[0], 4 * np.pi * r2.r ** 2 * P0[0], rtol=1e-13, atol=0, equal_nan=True):
                    bad.append('I = 4 pi r^2 P0')
                same(r2.cos(), c * r1.cos(), 'cos scales')
                same(r2.cossin(), c * r1.cossin(), 'cossin scales')
                same(r2.harmonics(), c * r1.harmonics(), 'harmonics scale')
                i1, i2 = r1.Ibeta(window), r2.Ibeta(window)
                same(i2[0], c * i1[0], 'I scales')
                same(i2[1:], i1[1:], 'beta is scale invariant (window %d)' % window)
                if not np.array_equal(r2.rIbeta(window), np.vstack((r2.r, i2)), equal_nan=True):
                    bad.append('rIbeta')
                if not np.array_equal(vmi.Ibeta(c * IM, o, rm, order, window, **kw), i2, equal_nan=True):
                    bad.append('vmi.Ibeta helper')
                if not np.array_equal(vmi.rIbeta(c * IM, o, rm, order, window, **kw), r2.rIbeta(window), equal_nan=True):
                    bad.append('vmi.rIbeta helper')
                if not np.array_equal(vmi.harmonics(c * IM, o, rm, order, **kw), r2.harmonics(), equal_nan=True):
                    bad.append('vmi.harmonics helper')
                if not np.array_equal(vmi.rharmonics(c * IM, o, rm, order, **kw), r2.rharmonics(), equal_nan=True):
                    bad.append('vmi.rharmonics helper')
        except Exception as e:     # noqa
            bad.append('exception %s: %s' % (type(e).__name__, e))
        for b in bad:
            params = dict(IM=IM.tolist(), W=None if W is None else W.tolist(), origin=oj(o), rmax=rm, order=order, odd=odd,
                          use_sin=sin, method=meth, c=float(c).hex(), window=window, power_of_two=bool(exact))
            clause = re.sub(r' \(window \d+\)', '', b).split(':')[0]
            hits.append(Hit('scale-and-ratio', 'C15:image-scale:%s:window=%s' % (clause, 'gt1' if window > 1 else '1'),
                            'image (shape %dx%d, origin %r, rmax %r, order %d, odd %s, %s, use_sin %s) multiplied by %g: %s fails'
                            % (h, w, o, rm, order, odd, meth, sin, c, b),
                            SNIPPET_SCALE % dict(params=json.dumps(params)),
                            dict(scale=float(c), window=window, order=order, odd=odd, method=meth)))
    return hits, n_eval, len(distinct)


SNIPPET_WSCALE = '''
import json, sys, warnings
import numpy as np
warnings.simplefilter('ignore')
import abel.tools.vmi as vmi
p = json.loads(%(params)r)
IM = np.array(p['IM']); W = np.array(p['W']); c = float.fromhex(p['c'])
origin = tuple(p['origin']) if isinstance(p['origin'], list) else p['origin']
kw = dict(odd=p['odd'], use_sin=p['use_sin'], method=p['method'])
d1 = vmi.Distributions(origin, p['rmax'], p['order'], weights=W, **kw); r1 = d1.image(IM)
d2 = vmi.Distributions(origin, p['rmax'], p['order'], weights=c * W, **kw); r2 = d2.image(IM)
bad = []
for name, f in [('cos', lambda r: r.cos()), ('cossin', lambda r: r.cossin()), ('harmonics', lambda r: r.harmonics()),
                ('Ibeta', lambda r: r.Ibeta(p['window'])), ('valid', lambda r: np.asarray(r.valid, float))]:
    a, b = f(r1), f(r2)
    if p['exact']:
        ok = np.array_equal(a, b, equal_nan=True)
    elif name in ('valid', 'Ibeta'):
        ok = True
    else:
        sel = p['radii']; tol = np.array(p['tol'])
        ok = bool(np.all(np.abs(a[:, sel] - b[:, sel]) <= tol[None, :]))
    if not ok: bad.append(name)
print('C15 weights multiplied by', c, '(N = %%d):' %% d1.N, 'results unchanged' if not bad else 'FAILS for ' + ', '.join(bad))
sys.exit(0 if not bad else 1)
'''


def search_wscale(ctx, rng, budget):
    """All weights multiplied by 2^k, |k| <= 300: every result is unchanged -- bit for bit for
    N <= 3 angular terms (the hand-written inverses scale exactly), to rounding at
    well-conditioned radii for N > 3 (numpy.linalg.inv)."""
    import abel.tools.vmi as vmi
    hits, n_eval, distinct = [], 0, set()
    for it in range(budget):
        h, w = [int(v) for v in rng.integers(6, 28, 2)]
        if rng.random() < 0.6:
            o = (int(rng.integers(h)), int(rng.integers(w)))
        else:
            o = L.ORIGIN_STRINGS[rng.integers(len(L.ORIGIN_STRINGS))]
        row, col = L.resolve_origin((h, w), o)
        rm = L.RMAX_KW[rng.integers(9)] if rng.random() < 0.7 else int(rng.integers(1, max(h, w)))
        order, odd = [(0, False), (1, True), (2, False), (2, True), (4, False), (3, True), (6, False), (4, True), (8, False),
                      (5, True)][rng.integers(10)]
        orders, odd_r = L.orders_of(order, odd)
        N = len(orders)
        meth = ['nearest', 'linear'][rng.integers(2)]
        sin = bool(rng.integers(2))
        W = rng.uniform(0.2, 3, (h, w)) * (rng.random((h, w)) < 0.95)
        IM = rng.normal(size=(h, w)) + 2
        k = int(rng.integers(-300, 301))
        c = 2.0 ** k
        window = int([1, 2, 3][rng.integers(3)])
        kw = dict(odd=odd, use_sin=sin, method=meth)
        exact = N <= 3
        n_eval += 1
        distinct.add(('wscale', min(N, 4), meth, sin, np.sign(k)))
        bad, radii, tol = [], [], []
        try:
            with warnings.catch_warnings(), np.errstate(all='ignore'):
                warnings.simplefilter('ignore')
                d1 = vmi.Distributions(o, rm, order, weights=W, **kw)
                r1 = d1.image(IM)
                d2 = vmi.Distributions(o, rm, order, weights=c * W, **kw)
                r2 = d2.image(IM)
                if not exact:
                    conds = L.hankel_cond((h, w), row, col, W, orders, odd_r, meth, sin, d1.rmax)
                    radii = [int(r) for r in range(d1.rmax + 1) if conds[r] <= 1e6]
                    tol = ((1e-8 + 1e-12 * conds[radii]) * (1 + np.abs(r1.cos()[:, radii]).max(axis=0))).tolist() if radii else []
                for name, f in [('cos', lambda r: r.cos()), ('cossin', lambda r: r.cossin()), ('harmonics', lambda r: r.harmonics()),
                                ('Ibeta', lambda r: r.Ibeta(window)), ('valid', lambda r: np.asarray(r.valid, float))]:
                    a, b = f(r1), f(r2)
                    if exact:
                        ok = np.array_equal(a, b, equal_nan=True)
                    elif name in ('valid', 'Ibeta') or not radii:
                        ok = True
                    else:
                        ok = bool(np.all(np.abs(a[:, radii] - b[:, radii]) <= np.array(tol)[None, :]))
                    if not ok:
                        bad.append(name)
        except Exception as e:     # noqa
            bad.append('exception %s: %s' % (type(e).__name__, e))
        if bad:
            params = dict(IM=IM.tolist(), W=W.tolist(), origin=oj(o), rmax=rm, order=order, odd=odd, use_sin=sin, method=meth,
                          c=float(c).hex(), window=window, exact=bool(exact), radii=radii, tol=tol)
            if N > 3 and k < 0:
                key = 'C15:weights-scale:N>3:absolute-threshold-of-the-general-inverse'
            else:
                key = 'C15:weights-scale:N=%s:method=%s:%s' % (N if N <= 3 else '>3', meth, 'down' if k < 0 else 'up')
            hits.append(Hit('weights-scale', key,
                            'all weights multiplied by 2^%d (shape %dx%d, origin %r, rmax %r, order %d, odd %s, N = %d, %s, use_sin %s): '
                            '%s change%s' % (k, h, w, o, rm, order, odd, N, meth, sin, ', '.join(bad),
                                             '' if not exact else ' (expected bit for bit equal)'),
                            SNIPPET_WSCALE % dict(params=json.dumps(params)),
                            dict(k=k, N=N, order=order, odd=odd, method=meth, shape=[h, w])))
    return hits, n_eval, len(distinct)


def run(ctx):
    rng = np.random.default_rng(ctx.seed)
    warnings.simplefilter('ignore')
    try:
        from translate import vmi_inv, vmi_index
        vmi_inv.generate()
        vmi_index.generate()          # model/DistrFit.v (used by the theorems) imports gen/VmiInv.v
        trans_err = None
    except Exception as e:     # noqa
        trans_err = '%s: %s' % (type(e).__name__, e)
    pr = vlib.coq_props('C15', extra_targets=['model/DistrReprQ.vo'])
    ctx.cov.update(obligations=len(pr['theorems']), discharged=pr['discharged'], theorems=pr['theorems'],
                   axioms=pr['axioms'],
                   checker_cmd='make -C /verif/coq props/C15.vo (coqc 8.16.1, full .vo build) + Print Assumptions; '
                               'coqc cases/C15_*.v (vm_compute)',
                   trusted_base=vlib.TRUSTED_COMMON + ['axioms reported by Print Assumptions: ' + ', '.join(pr['axioms'])])
    h0 = []
    n_cases, n_ok, bad, errors = correspondence(ctx, rng, h0)
    ctx.cov.update(traces_validated_against_impl=n_ok, correspondence_cases=n_cases,
                   correspondence_disagreements=len(bad),
                   input_distribution={'(order, parity) cases': 18, 'identity coefficient arrays': 18,
                                       'random dyadic coefficient arrays': n_cases - 18, 'windows': '1..5'})
    broken = bool(trans_err) or (not pr['ok']) or bad or errors
    mult = 3 if broken else 1
    h1, e1, d1 = search_repr(ctx, rng, (180 if ctx.quick else 1800) * mult)
    h2, e2, d2, samples = search_invariance(ctx, rng, (350 if ctx.quick else 3500) * mult)
    h3, e3, d3 = search_scale(ctx, rng, (150 if ctx.quick else 2000) * mult)
    h4, e4, d4 = search_wscale(ctx, rng, (200 if ctx.quick else 2500) * mult)
    dfails, e5, d5 = L.dtype_search(rng, (150 if ctx.quick else 2000) * mult, 'representations', 'C15')
    h5 = [Hit('dtype-independence', k_, 'cossin / harmonics / Ibeta / helpers: ' + w_, sn_, da_) for (k_, w_, sn_, da_) in dfails]
    lfails, e6, d6 = L.layout_search(rng, (150 if ctx.quick else 2000) * mult, 'representations', 'C15')
    h5 += [Hit('layout-independence', k_, 'cossin / harmonics / Ibeta / helpers: ' + w_, sn_, da_) for (k_, w_, sn_, da_) in lfails]
    h2 = h2 + h3 + h4 + h5
    e2, d2 = e2 + e3 + e4 + e5 + e6, d2 + d3 + d4 + d5 + d6
    ctx.cov.update(evaluations=e1 + e2 + n_cases, distinct_nontrivial=d1 + d2,
                   rule='search 1: random coefficient arrays for each of the 18 (order, parity) cases, the four '
                        'representations evaluated at 7 random angles (tolerance 1e-9 relative to the coefficient sum); '
                        'search 2: seven invariances (mirror LR, mirror TB with sign change of odd terms, weight scaling, '
                        'zero-weight pixels, negative-index origin, location-string origin, larger rmax) on random images '
                        '4..25 squared, compared at radii with Hankel cond <= 1e8 (tolerance (1e-9 + 1e-12 cond)(1+|c|)); '
                        'distinct by (invariance, method, use_sin, odd, N); search 3: the image multiplied by +-2^k (|k| <= 700, '
                        'compared bit for bit) or +-10^k (|k| <= 280, 1e-9): cos/cossin/harmonics/I scale, beta (windows 1,2,3,5) is '
                        'unchanged, beta_n = P_n/P_0 exactly wherever P_0 != 0, rIbeta and the module-level Ibeta/rIbeta/harmonics/'
                        'rharmonics helpers agree with the object; search 4: all weights times 2^k, |k| <= 300: every representation unchanged, bit '
                        'for bit for N <= 3, to rounding at radii with cond <= 1e6 for N > 3; search 5: dtype independence of cossin / '
                        'harmonics / Ibeta / rIbeta / helpers for integer (8..64 bit) and float32 images and weights up to the type extremes; '
                        'search 6: memory-layout independence (Fortran order, transposed / strided / negative-stride views, read-only), bit for bit',
                   samples=samples, exhaustive=False)
    new, seen = 0, set()
    for h in h0 + h1 + h2:
        if (h.key, h.clause) in seen:
            continue
        seen.add((h.key, h.clause))
        if new >= MAX_REPORTED:
            ctx.cov['hits_not_reported'] = ctx.cov.get('hits_not_reported', 0) + 1
            continue
        if ctx.report_hit(h):
            new += 1
    if trans_err and new == 0:
        ctx.report_broken('translator', 'tools/translate/vmi_inv.py', trans_err)
    if not pr['ok'] and new == 0:
        ctx.report_broken('proof', pr['broken'] or 'props/C15.v', pr['error'] or '')
    if (bad or errors) and new == 0:
        detail = ''
        if bad:
            detail = 'first disagreeing case (order, odd, coefficient array, window): %r' % (bad[0],)
        if errors:
            detail += ' coq errors: %r' % (errors[:1],)
        ctx.report_broken('correspondence', 'model/DistrRepr.v vs Distributions.Results (%d of %d cases disagree)'
                          % (len(bad), n_cases), detail)
    ctx.assumptions += [
        'the same-function theorems are per radius (one column); the conversions act on columns independently '
        '(matrix product), which the correspondence exercises with 1..7 radii',
        'numpy.linalg.inv of the Legendre coefficient matrix is modelled by the exact rational inverse (tolerance 2^-30)',
        'mirror LR (both parities), mirror TB (both parities: C15_mirror_tb, odd coefficients change sign), weight scaling '
        '(C15_weights_scale), zero-weight pixels and origin spellings are theorems on the executable model; the sign/scale '
        'theorems are for N <= 3 angular terms at radii with non-zero Hankel determinant; rmax prefix (C15_rmax_prefix: both '
        'methods, both parities, every N) and image scaling (C15_image_scale_cos, C15_harmonics_scale, C15_Ibeta_scale) have no '
        'conditioning hypothesis',
        'well-conditioned radii: Hankel condition number <= 1e8',
    ]
