# C12 — centring moves exactly the requested point to the image centre.
#
#   theorems        coq/props/C12.v  (proofs in coq/proofs/Center*.v)
#   model           coq/model/Center.v (hand-written, executable), CenterQ.v
#   tie             correspondence: model (Q instance, vm_compute) vs
#                   abel.tools.center.set_center / center_image on the same cases
#   search          the clauses of the property evaluated on the implementation
import itertools
import json
import re
import warnings

import numpy as np

import vlib
from vlib import Hit

LEVEL = 'proof'

CROPS = ['maintain_size', 'valid_region', 'maintain_data']
CROP_COQ = {'maintain_size': 'MaintainSize', 'valid_region': 'ValidRegion',
            'maintain_data': 'MaintainData'}
AXES = [0, 1, (0, 1), ()]


def ax_flags(axes):
    s = {axes} if isinstance(axes, int) else set(axes)
    return (0 in s, 1 in s)


# ---------------------------------------------------------------------------
# correspondence
# ---------------------------------------------------------------------------

def opt_q(v):
    return 'None' if v is None else '(Some %s)' % vlib.q_lit(v)


def case_coq(c, res):
    exp = 'ERaises' if res[0] != 'Ok' else 'EOk %s' % vlib.img_q(res[1])
    ax0, ax1 = ax_flags(c['axes'])
    ci = 'None'
    if c.get('ci') is not None:
        odd, sq, ic = c['ci']
        ci = '(Some (%s, %s, %s))' % (vlib.bool_lit(odd), vlib.bool_lit(sq), vlib.bool_lit(ic))
    return ('{| c_im := %s; c_o0 := %s; c_o1 := %s; c_crop := %s; c_ax0 := %s; c_ax1 := %s; '
            'c_order := %d; c_ci := %s; c_expect := %s |}'
            % (vlib.img_q(c['IM'].tolist()), opt_q(c['origin'][0]), opt_q(c['origin'][1]),
               CROP_COQ.get(c['crop'], 'OtherCrop'), vlib.bool_lit(ax0), vlib.bool_lit(ax1),
               c['order'], ci, exp))


def run_impl(c):
    from abel.tools.center import set_center, center_image
    with warnings.catch_warnings(), np.errstate(all='ignore'):
        warnings.simplefilter('ignore')
        try:
            if c.get('ci') is None:
                out = set_center(c['IM'], origin=c['origin'], crop=c['crop'], axes=c['axes'],
                                 order=c['order'])
            else:
                odd, sq, ic = c['ci']
                out = center_image(c['IM'], method='image_center' if ic else c['origin'], odd_size=odd,
                                   square=sq, axes=c['axes'], crop=c['crop'], order=c['order'])
        except Exception as e:      # noqa
            return ('Raises', type(e).__name__)
    out = np.asarray(out)
    if out.ndim != 2 or not np.all(np.isfinite(out.astype(float))):
        return ('Raises', 'non-2D-or-non-finite')
    return ('Ok', out.astype(float).tolist(), out.shape, str(out.dtype))


def gen_cases(ctx, rng):
    """quick: random sample of the grid; thorough: the whole grid
    shapes 1..6 x 1..6, every integer origin in [-n, n) and None, 4 axes values,
    3 crop modes (orders / dtypes / int-or-float spelling of the origin drawn
    at random per case) + fractional origins with order 0 and 1 + out-of-range
    origins + invalid crop + center_image flags x shapes 1..7 x 1..7."""
    shapes = [(n, m) for n in range(1, 7) for m in range(1, 7)]
    cases = []

    def image(n, m, force_float=False):
        IM = rng.integers(-9, 10, size=(n, m))
        if force_float or rng.random() < 0.5:
            IM = IM.astype(float)
        return IM

    def spell(v):
        """an integral origin as a Python int, a float or a numpy scalar"""
        if v is None:
            return None
        r = rng.random()
        return int(v) if r < 0.5 else (float(v) if r < 0.85 else np.int64(v))

    def comps(n):
        return [None] + list(range(-n, n))

    # A. whole-pixel origins
    grid = []
    for (n, m) in shapes:
        for o0 in comps(n):
            for o1 in comps(m):
                for axes in AXES:
                    for crop in CROPS:
                        grid.append((n, m, o0, o1, axes, crop))
    if ctx.quick:
        idx = rng.choice(len(grid), size=900, replace=False)
        grid = [grid[i] for i in idx]
    for (n, m, o0, o1, axes, crop) in grid:
        cases.append(dict(kind='whole', IM=image(n, m), origin=(spell(o0), spell(o1)), crop=crop,
                          axes=axes, order=int(rng.integers(0, 6))))
    nB = 250 if ctx.quick else 3000
    # B. order 0, fractional origins (quarters: exercises ties-to-even)
    for _ in range(nB):
        n, m = shapes[rng.integers(len(shapes))]
        o = [None if rng.random() < 0.1 else float(rng.integers(-4 * k, 4 * k)) / 4 for k in (n, m)]
        cases.append(dict(kind='order0-frac', IM=image(n, m), origin=tuple(o),
                          crop=CROPS[rng.integers(3)], axes=AXES[rng.integers(4)], order=0))
    # C. order 1, fractional origins (eighths: all float operations exact), float images
    for _ in range(nB):
        n, m = shapes[rng.integers(len(shapes))]
        o = [None if rng.random() < 0.1 else
             (float(rng.integers(-k, k)) if rng.random() < 0.25 else float(rng.integers(-8 * k, 8 * k)) / 8)
             for k in (n, m)]
        cases.append(dict(kind='order1-frac', IM=image(n, m, True), origin=tuple(o),
                          crop=CROPS[rng.integers(3)], axes=AXES[rng.integers(4)], order=1))
    # D. origins outside the image (Python slice wrap-around, broadcast errors), invalid crop
    for _ in range(120 if ctx.quick else 1500):
        n, m = shapes[rng.integers(len(shapes))]
        o = [int(rng.integers(-3 * k - 2, 3 * k + 3)) for k in (n, m)]
        crop = CROPS[rng.integers(3)] if rng.random() < 0.9 else 'foo'
        cases.append(dict(kind='outside', IM=image(n, m), origin=tuple(o), crop=crop,
                          axes=AXES[rng.integers(4)], order=int(rng.integers(0, 3))))
    # E. center_image: flags x shapes 1..7 x 1..7
    ci = []
    for n in range(1, 8):
        for m in range(1, 8):
            for odd in (True, False):
                for sq in (True, False):
                    ci.append((n, m, odd, sq))
    if ctx.quick:
        idx = rng.choice(len(ci), size=150, replace=False)
        ci = [ci[i] for i in idx]
    for (n, m, odd, sq) in ci:
        ic = bool(rng.random() < 0.5)
        # explicit origin: valid for the trimmed image whatever the trimming is
        o = (None, None) if ic else (spell(0 if rng.random() < 0.5 else -1), spell(0 if rng.random() < 0.5 else -1))
        cases.append(dict(kind='center_image', IM=image(n, m), origin=o, crop=CROPS[rng.integers(3)],
                          axes=AXES[rng.integers(4)] if rng.random() < 0.5 else (0, 1),
                          order=int(rng.integers(0, 6)), ci=(odd, sq, ic)))
    # F. center_image forwards order to set_center: fractional explicit origins with order 0 (whole-pixel move
    #    after rounding, quarters incl. ties) and order 1 (eighths, float images), every flag / crop / axes
    for _ in range(200 if ctx.quick else 2500):
        n, m = int(rng.integers(1, 8)), int(rng.integers(1, 8))
        order = int(rng.integers(0, 2))
        den = 4 if order == 0 else 8
        o = tuple(None if rng.random() < 0.1 else float(rng.integers(-2 * den, 3 * den)) / den for _ in (0, 1))
        cases.append(dict(kind='center_image-frac', IM=image(n, m, force_float=(order == 1)), origin=o,
                          crop=CROPS[rng.integers(3)], axes=AXES[rng.integers(4)], order=order,
                          ci=(bool(rng.random() < 0.5), bool(rng.random() < 0.5), False)))
    return cases


def correspondence(ctx, rng):
    cases = gen_cases(ctx, rng)
    results = [run_impl(c) for c in cases]
    shard = 400
    texts = []
    for k in range(0, len(cases), shard):
        body = vlib.list_lit([case_coq(c, r) for c, r in zip(cases[k:k + shard], results[k:k + shard])])
        texts.append(('C12_%03d' % (k // shard),
                      vlib.HEADER_CASES +
                      'From PA Require Import base.QClose model.Center model.CenterQ.\nOpen Scope Q_scope.\n'
                      'Definition cases : list case := %s.\n'
                      'Definition res := map check cases.\n'
                      'Eval vm_compute in (count_true res, false_idx 0 res).\n' % body))
    outs = vlib.coq_eval_many(texts)
    bad, errors, n_ok = [], [], 0
    for k, (name, _) in enumerate(texts):
        rc, out = outs[name]
        r = vlib.parse_eval_lists(out)
        if rc != 0 or not r:
            errors.append((name, out[-500:]))
            continue
        m = re.match(r'\((\d+), (.*)\)$', r[0])
        n_ok += int(m.group(1))
        bad += [k * shard + i for i in vlib.parse_nat_list(m.group(2))]
    dist = {}
    for c, r in zip(cases, results):
        key = '%s/%s/%s' % (c['kind'], c['crop'], r[0])
        dist[key] = dist.get(key, 0) + 1
    return cases, results, n_ok, bad, errors, dist


# ---------------------------------------------------------------------------
# the property itself, evaluated on the implementation
# ---------------------------------------------------------------------------

SPEC_SRC = r'''
import numpy as np
from scipy.ndimage import center_of_mass

def spec_len(n, o, crop):
    if crop == 'maintain_size':
        return n
    if crop == 'valid_region':
        return 2 * min(o, n - 1 - o) + 1      # largest block symmetric about o
    return 2 * max(o, n - 1 - o) + 1          # smallest zero-padded block symmetric about o

def spec_whole(data, o0, o1, crop):
    """The input translated without interpolation so that pixel (o0, o1) lands
    on index (rows//2, cols//2) of an output whose size is fixed by the crop
    mode; vacated pixels are zero; None = that axis is untouched."""
    n, m = data.shape
    n2 = n if o0 is None else spec_len(n, o0, crop)
    m2 = m if o1 is None else spec_len(m, o1, crop)
    d0 = 0 if o0 is None else n2 // 2 - o0
    d1 = 0 if o1 is None else m2 // 2 - o1
    out = np.zeros((n2, m2), dtype=data.dtype)
    a = np.arange(n2) - d0
    b = np.arange(m2) - d1
    va = (a >= 0) & (a < n)
    vb = (b >= 0) & (b < m)
    out[np.ix_(va, vb)] = data[np.ix_(a[va], b[vb])]
    return out

def spec_trim(data, odd_size, square):
    """the documented trimming of center_image: odd_size drops the right-hand column of an even-width image;
    square removes rows (half from each end, the odd one from the end) or columns (half from the left, the rest
    from the right; with odd_size the last row of an even-height image first) until rows == cols"""
    T = data
    if odd_size and T.shape[1] % 2 == 0:
        T = T[:, :T.shape[1] - 1]
    r, c = T.shape
    if square and r != c:
        if r > c:
            k = (r - c) // 2
            T = T[k:k + c]
        else:
            if odd_size and r % 2 == 0:
                T = T[:r - 1]
                r -= 1
            k = (c - r) // 2
            T = T[:, k:k + r]
    return T

ALL_METHODS = ['basex', 'daun', 'direct', 'hansenlaw', 'onion_bordas', 'onion_peeling', 'two_point', 'three_point',
               'linbasex', 'rbasex']
TOPTS = {'basex': dict(basis_dir=None, verbose=False), 'daun': dict(verbose=False), 'onion_peeling': dict(basis_dir=None),
         'two_point': dict(basis_dir=None), 'three_point': dict(basis_dir=None), 'direct': dict(backend='python')}

def run_history(hist):
    """earlier abel.Transform calls of the process: (method, origin, center_options or None = default)"""
    import abel
    H = np.add.outer(np.arange(15.0), np.arange(15.0)) % 7 + 1
    for method, origin, copts in hist:
        kw = dict(method=method, origin=origin, transform_options=dict(TOPTS.get(method, {})))
        if copts is not None:
            kw['center_options'] = dict(copts)
        try:
            abel.Transform(H, **kw)
        except Exception:       # a failing earlier call is part of the history as well
            pass

def transform_IM(IM, method, origin, copts):
    """abel.Transform(IM, origin=origin[, center_options=copts]).IM and its reference: set_center of the
    documented trimming of the float image with the options center_options resolves to"""
    import abel
    from abel.tools.center import set_center, find_origin
    kw = dict(method=method, origin=origin, transform_options=dict(TOPTS.get(method, {})))
    given = None if copts is None else dict(copts)
    if given is not None:
        kw['center_options'] = given
    o = dict(odd_size=True, square=False, crop='maintain_size', order=3, axes=(0, 1))
    o.update(copts or {})
    T = spec_trim(np.asarray(IM, dtype=float), o['odd_size'], o['square'])
    org = find_origin(T, method=origin, axes=o['axes']) if isinstance(origin, str) else origin
    ref = set_center(T, org, crop=o['crop'], axes=o['axes'], order=o['order'])
    try:
        out = abel.Transform(IM, **kw).IM
    except Exception:
        if min(ref.shape) < 3:
            return None, ref, True      # the Abel-transform step rejects such a small centred image: not a case
        raise
    untouched = given is None or given == dict(copts)
    return out, ref, untouched

def whole_origin(v, n, order):
    """whole-pixel origin meant by the value v on an axis of length n"""
    if v is None:
        return None
    if v < 0:
        v = v + n                 # negative origins count from the end
    return int(round(v)) if order == 0 else int(v)

def selected(axes, origin):
    s = {axes} if isinstance(axes, int) else set(axes)
    return [(a in s) and origin[a] is not None for a in (0, 1)]
'''
exec(SPEC_SRC)

SNIPPET = SPEC_SRC.replace('%', '%%') + r'''
import json, sys, warnings
warnings.simplefilter('ignore')
from abel.tools.center import set_center, center_image
P = json.loads(%(payload)r)
clause = P['clause']
data = np.array(P['data'], dtype=P['dtype'])
origin = tuple(P['origin']); axes = P['axes']
axes = tuple(axes) if isinstance(axes, list) else axes
crop = P['crop']; order = P['order']
def evaluate():
    ok = True; msg = ''
    if clause == 'whole':
        out = set_center(data, origin, crop=crop, axes=axes, order=order)
        sel = selected(axes, origin)
        o = [whole_origin(origin[a], data.shape[a], order) if sel[a] else None for a in (0, 1)]
        exp = spec_whole(data, o[0], o[1], crop)
        ok = out.shape == exp.shape and np.array_equal(out, exp)
        msg = 'shape %%r expected %%r' %% (out.shape, exp.shape)
    elif clause == 'negative':
        pos = tuple(None if v is None else (v + data.shape[a] if v < 0 else v) for a, v in enumerate(origin))
        a_ = set_center(data, origin, crop=crop, axes=axes, order=order)
        b_ = set_center(data, pos, crop=crop, axes=axes, order=order)
        ok = a_.shape == b_.shape and np.allclose(a_, b_, rtol=1e-12, atol=1e-9)
    elif clause in ('mass', 'centroid', 'untouched'):
        out = set_center(data, origin, crop=crop, axes=axes, order=order)
        sel = selected(axes, origin)
        if clause == 'mass':
            err = abs(float(out.sum()) - float(data.sum())) / abs(float(data.sum()))
            ok = err <= P['tol']; msg = 'relative change of total intensity %%.3g (tolerance %%.1g)' %% (err, P['tol'])
        elif clause == 'centroid':
            c1 = np.array(center_of_mass(out.astype(float))) - np.array(out.shape) // 2
            c0 = np.array(center_of_mass(data.astype(float)))
            exp = np.array([c0[a] - (origin[a] + (data.shape[a] if origin[a] < 0 else 0)) if sel[a]
                            else c0[a] - data.shape[a] // 2 for a in (0, 1)])
            err = float(np.abs(c1 - exp).max())
            ok = err <= P['tol']; msg = 'centroid error %%.3g px (tolerance %%.1g)' %% (err, P['tol'])
        else:
            o2 = tuple(origin[a] if sel[a] else None for a in (0, 1))
            ref = set_center(data, o2, crop=crop, axes=axes, order=order)
            ok = out.shape == ref.shape and np.allclose(out, ref, rtol=0, atol=1e-12)
            msg = 'shape %%r, with the unselected coordinate set to None %%r' %% (out.shape, ref.shape)
    elif clause == 'ci-content':
        # center_image with a whole-pixel origin = set_center of the image without its right-hand column
        # (odd_size and an even number of columns), i.e. the translation spec applied to the trimmed image
        meth = P['method'] if isinstance(P['method'], str) else tuple(P['method'])
        out = center_image(data, method=meth, odd_size=P['odd_size'], square=False, crop=crop, axes=axes, order=order)
        trimmed = data[:, :-1] if (P['odd_size'] and data.shape[1] %% 2 == 0) else data
        org = (trimmed.shape[0] // 2, trimmed.shape[1] // 2) if meth == 'image_center' else meth
        sel = selected(axes, org)
        o = [whole_origin(org[a], trimmed.shape[a], order) if sel[a] else None for a in (0, 1)]
        exp = spec_whole(trimmed, o[0], o[1], crop)
        ok = out.shape == exp.shape and np.array_equal(out, exp)
        msg = 'shape %%r -> %%r, expected %%r (centring of the %%r image)' %% (data.shape, out.shape, exp.shape, trimmed.shape)
    elif clause == 'forward':
        # center_image hands every option to set_center unchanged: same result as set_center on the trimmed
        # image with the origin center_image uses (explicit, or find_origin of the trimmed image)
        from abel.tools.center import find_origin
        meth = P['method'] if isinstance(P['method'], str) else tuple(P['method'])
        out = center_image(data, method=meth, odd_size=P['odd_size'], square=P['square'], crop=crop, axes=axes,
                           order=order)
        T = spec_trim(data, P['odd_size'], P['square'])
        org = find_origin(T, method=meth, axes=axes) if isinstance(meth, str) else meth
        ref = set_center(T, org, crop=crop, axes=axes, order=order)
        ok = out.shape == ref.shape and np.array_equal(out, ref)
        msg = 'shape %%r, set_center(trimmed %%r image, origin %%r, order=%%d) has shape %%r%%s' %% (
            out.shape, T.shape, tuple(org), order, ref.shape,
            '' if out.shape != ref.shape else ', max difference %%.3g' %% float(np.abs(out - ref).max()))
    elif clause == 'transform-state':
        # the centring step of abel.Transform does not depend on earlier Transform calls of the process
        run_history([(m_, o_ if isinstance(o_, str) else tuple(o_), c_) for m_, o_, c_ in P['history']])
        org = P['method'] if isinstance(P['method'], str) else tuple(P['method'])
        copts = P['center_options']
        if copts is not None and 'axes' in copts and isinstance(copts['axes'], list):
            copts['axes'] = tuple(copts['axes'])
        out, ref, untouched = transform_IM(data, P['transform_method'], org, copts)
        if out is None:
            out = ref
        ok = out.shape == ref.shape and np.array_equal(out, ref) and untouched
        msg = 'after %%d earlier Transform calls: Transform(...).IM has shape %%r, centring of the image gives %%r%%s' %% (
            len(P['history']), out.shape, ref.shape, '' if untouched else '; the center_options dictionary was modified')
    elif clause in ('odd', 'square'):
        out = center_image(data, method=P['method'] if isinstance(P['method'], str) else tuple(P['method']),
                           odd_size=P['odd_size'], square=P['square'], crop=crop, axes=axes, order=order)
        ok = (out.shape[1] %% 2 == 1) if clause == 'odd' else (out.shape[0] == out.shape[1] and out.shape[0] > 0)
        msg = 'shape %%r -> %%r' %% (data.shape, out.shape)
    return ok, msg
try:
    ok, msg = evaluate()
except Exception as e:
    ok, msg = False, 'raises %%s: %%s' %% (type(e).__name__, e)
print('clause', clause, 'holds' if ok else 'FAILS', msg)
sys.exit(0 if ok else 1)
'''

# measured on the unchanged implementation with a 16-pixel empty margin, 60
# random blobs per order, all crop modes (worst: order 5, mass 5.4e-6, centroid
# 6.9e-5 px); order 1 is exact up to rounding.
TOL = {1: (1e-12, 1e-10), 2: (1e-4, 1e-3), 3: (1e-4, 1e-3), 4: (1e-4, 1e-3), 5: (1e-4, 1e-3)}
MARGIN = {1: 6, 2: 16, 3: 16, 4: 16, 5: 16}


def jsonable(v):
    if v is None:
        return None
    if isinstance(v, (np.integer,)):
        return int(v)
    if isinstance(v, (np.floating,)):
        return float(v)
    return v


def mkhit(clause, key, what, data, origin, axes, crop, order, **extra):
    payload = dict(clause=clause, data=np.asarray(data).tolist(), dtype=str(np.asarray(data).dtype),
                   origin=[jsonable(v) for v in origin], axes=list(axes) if isinstance(axes, tuple) else axes,
                   crop=crop, order=int(order))
    payload.update(extra)
    snip = SNIPPET % dict(payload=json.dumps(payload))
    d = dict(shape=list(np.asarray(data).shape), dtype=str(np.asarray(data).dtype),
             origin=[jsonable(v) for v in origin], axes=repr(axes), crop=crop, order=int(order))
    d.update({k: v for k, v in extra.items() if k != 'tol'})
    return Hit(clause, key, what, snip, d)


def search(ctx, rng, budget):
    from abel.tools.center import set_center, center_image
    from scipy.ndimage import center_of_mass
    hits, n_eval, distinct = [], 0, set()
    warnings.simplefilter('ignore')

    # ---- 1. whole-pixel clauses ------------------------------------------
    big = [(101, 200), (255, 256), (300, 123)]
    for it in range(budget):
        if it < len(big):
            n, m = big[it]
        else:
            n, m = (int(v) for v in rng.integers(1, 41, size=2))
        dt = [np.float64, np.int64, np.int32, np.float32][rng.integers(4)]
        data = rng.integers(-99, 100, size=(n, m)).astype(dt)
        order = int(rng.integers(0, 6))
        origin = []
        for k in (n, m):
            r = rng.random()
            if r < 0.12:
                origin.append(None)
            elif order == 0 and r < 0.5:
                # fractional origin away from ties, rounded origin inside the image
                w = int(rng.integers(0, k)) + float(rng.uniform(-0.49, 0.49))
                if w < 0 or w > k - 0.51:
                    w = float(round(w)) if 0 <= round(w) < k else 0.0
                origin.append(w if rng.random() < 0.5 or w == 0 else w - k)
            else:
                v = int(rng.integers(-k, k))
                origin.append(v if rng.random() < 0.6 else float(v))
        origin = tuple(origin)
        axes = AXES[rng.integers(4)]
        for crop in CROPS:
            n_eval += 1
            sel = selected(axes, origin)
            distinct.add((crop, repr(axes), n % 2, m % 2, order, np.dtype(dt).kind,
                          tuple(None if v is None else (v < 0) for v in origin)))
            o = [whole_origin(origin[a], data.shape[a], order) if sel[a] else None for a in (0, 1)]
            try:
                out = set_center(data, origin, crop=crop, axes=axes, order=order)
                good = out.shape == spec_whole(data, o[0], o[1], crop).shape and \
                    np.array_equal(out, spec_whole(data, o[0], o[1], crop))
            except Exception as e:      # noqa
                good = False
            if not good:
                hits.append(mkhit('whole', 'C12:whole:%s:axes=%s:order%s0' % (crop, repr(axes).replace(' ', ''),
                                                                           '=' if order == 0 else '>'),
                                  'whole-pixel centring is not the translation putting the origin pixel on '
                                  '(rows//2, cols//2) [crop=%s axes=%r order=%d origin=%r shape=%r]'
                                  % (crop, axes, order, origin, data.shape), data, origin, axes, crop, order))
            if any(v is not None and v < 0 for v in origin):
                n_eval += 1
                pos = tuple(None if v is None else (v + data.shape[a] if v < 0 else v)
                            for a, v in enumerate(origin))
                try:
                    a_ = set_center(data, origin, crop=crop, axes=axes, order=order)
                    b_ = set_center(data, pos, crop=crop, axes=axes, order=order)
                    good = a_.shape == b_.shape and np.array_equal(a_, b_)
                except Exception:       # noqa
                    good = False
                if not good:
                    hits.append(mkhit('negative', 'C12:negative:%s' % crop,
                                      'a negative origin does not count from the end', data, origin, axes, crop, order))

    # ---- 2. fractional origins: total intensity, centroid, untouched axes, dtype
    for it in range(max(12, budget // 4)):
        order = 1 + it % 5
        mg = MARGIN[order]
        k0, k1 = (int(v) for v in rng.integers(1, 8, size=2))
        n, m = k0 + 2 * mg + int(rng.integers(0, 2)), k1 + 2 * mg + int(rng.integers(0, 2))
        data = np.zeros((n, m))
        data[mg:mg + k0, mg:mg + k1] = np.round(rng.random((k0, k1)) * 900 + 100)
        integer = bool(it % 3 == 2)
        if integer:
            data = data.astype(np.int64 if rng.random() < 0.5 else np.int32)
        origin = [n // 2 + float(rng.uniform(-1.5, 1.5)), m // 2 + float(rng.uniform(-1.5, 1.5))]
        neg = bool(rng.random() < 0.35)
        if neg:
            which = int(rng.integers(3))
            if which in (0, 2):
                origin[0] -= n
            if which in (1, 2):
                origin[1] -= m
        axes = [(0, 1), (0, 1), 0, 1][rng.integers(4)]
        sel = selected(axes, origin)
        tolm, tolc = TOL[order]
        for crop in CROPS:
            n_eval += 3
            distinct.add(('frac', crop, repr(axes), order, integer, neg))
            out = set_center(data, tuple(origin), crop=crop, axes=axes, order=order)
            errm = abs(float(out.sum()) - float(data.sum())) / float(data.sum())
            c1 = np.array(center_of_mass(out.astype(float))) - np.array(out.shape) // 2
            c0 = np.array(center_of_mass(data.astype(float)))
            exp = np.array([c0[a] - (origin[a] + (data.shape[a] if origin[a] < 0 else 0)) if sel[a]
                            else c0[a] - data.shape[a] // 2 for a in (0, 1)])
            errc = float(np.abs(c1 - exp).max())
            o2 = tuple(origin[a] if sel[a] else None for a in (0, 1))
            ref = set_center(data, o2, crop=crop, axes=axes, order=order)
            untouched = out.shape == ref.shape and np.allclose(out, ref, rtol=0, atol=1e-12)
            # negative origins count from the end -- also for fractional origins and every crop mode
            if neg:
                n_eval += 1
                pos = tuple(v + (data.shape[a] if v < 0 else 0) for a, v in enumerate(origin))
                ref2 = set_center(data, pos, crop=crop, axes=axes, order=order)
                if not (ref2.shape == out.shape and np.allclose(out, ref2, rtol=1e-12, atol=1e-9)):
                    hits.append(mkhit('negative', 'C12:negative-fractional:%s' % crop,
                                      'a negative fractional origin %r does not give the same result as the equivalent '
                                      'non-negative origin %r (shape %r vs %r)' % (tuple(origin), pos, out.shape, ref2.shape),
                                      data, origin, axes, crop, order))
            # classification of a failure (which specific behaviour is it?)
            trunc = False
            if integer:
                f = set_center(data.astype(float), tuple(origin), crop=crop, axes=axes, order=order)
                trunc = f.shape == out.shape and out.dtype == data.dtype and \
                    bool(np.all(np.abs(f - out) <= 0.5 + 1e-9))
            if not untouched:
                cls = ('C12:axes-untouched:unselected-axis-with-fractional-origin-is-shifted:crop=%s' % crop
                       if (crop != 'maintain_size' and not all(sel)) else 'C12:axes-untouched:%s:order=%d' % (crop, order))
                hits.append(mkhit('untouched', cls,
                                  'set_center(axes=%r, crop=%r, order=%d) with a fractional coordinate on the axis '
                                  'that is not selected changes the image along that axis (shape %r -> %r)'
                                  % (axes, crop, order, data.shape, out.shape), data, origin, axes, crop, order))
            if errm > tolm or errc > tolc:
                if not untouched and crop != 'maintain_size' and not all(sel):
                    continue        # consequence of the hit reported just above
                if integer and trunc:
                    key = 'C12:fractional-origin:integer-dtype-result-rounded'
                    what = ('integer-typed image with a fractional origin: the interpolated result is rounded to '
                            'the integer dtype, total intensity / centroid not preserved (mass %.2g, centroid %.2g px)'
                            % (errm, errc))
                else:
                    key = 'C12:fractional:%s:order=%d:%s' % (crop, order, 'int' if integer else 'float')
                    what = 'fractional origin, order %d, %s: mass error %.3g, centroid error %.3g px' % (
                        order, crop, errm, errc)
                cl = 'mass' if errm > tolm else 'centroid'
                hits.append(mkhit(cl, key, what, data, origin, axes, crop, order,
                                  tol=tolm if cl == 'mass' else tolc))

    # ---- 3. center_image flags x parities x aspects ------------------------
    top = 9 if budget < 200 else 14
    shapes = [(n, m) for n in range(1, top) for m in range(1, top)] + [(100, 151), (150, 101), (64, 99), (99, 64)]
    for (n, m) in shapes:
        data = rng.integers(0, 10, size=(n, m)).astype(float)
        for odd in (True, False):
            for sq in (True, False):
                meth = ['image_center', 'com', (0, 0)][rng.integers(3)] if (n, m) != (1, 1) else 'image_center'
                order = int(rng.integers(0, 4))
                n_eval += 1
                distinct.add(('ci', odd, sq, n % 2, m % 2, (n > m) - (n < m)))
                try:
                    out = center_image(data + 1, method=meth, odd_size=odd, square=sq, order=order)
                    shp = out.shape
                except Exception as e:  # noqa
                    shp = (-1, -1)
                cls = 'rows%scols:diff-%s' % ('>' if n > m else ('<' if n < m else '='),
                                              'odd' if (n - m) % 2 else 'even')
                common = dict(method=meth if isinstance(meth, str) else list(meth), odd_size=odd, square=sq)
                if odd and shp[1] % 2 != 1:
                    hits.append(mkhit('odd', 'C12:center_image:odd_size:width-not-odd:square=%s:%s' % (sq, cls),
                                      'center_image(odd_size=True, square=%s) returns shape %r for input %r'
                                      % (sq, shp, (n, m)), data + 1, (None, None), (0, 1), 'maintain_size', order,
                                      **common))
                if sq and not (shp[0] == shp[1] and shp[0] > 0):
                    hits.append(mkhit('square', 'C12:center_image:square:not-square:odd_size=%s:%s' % (odd, cls),
                                      'center_image(square=True, odd_size=%s) returns shape %r for input %r'
                                      % (odd, shp, (n, m)), data + 1, (None, None), (0, 1), 'maintain_size', order,
                                      **common))
    # ---- 4. center_image with every crop mode and axes selection ---------------
    #      odd_size => odd width whatever crop / axes / method; whole-pixel origins: the result is the centring
    #      of the image without its right-hand column (odd_size, even width)
    for it in range(max(60, budget)):
        n, m = (int(v) for v in rng.integers(1, 13, size=2)) if it % 6 else (int(rng.integers(20, 60)), int(rng.integers(20, 60)))
        data = rng.integers(1, 10, size=(n, m)).astype([np.float64, np.int64][rng.integers(2)])
        odd = bool(rng.random() < 0.7)
        mt = m - 1 if (odd and m % 2 == 0) else m        # width after the odd_size trimming
        if mt == 0:
            continue
        axes = AXES[rng.integers(4)]
        order = int(rng.integers(0, 6))
        r = rng.random()
        if r < 0.3:
            meth = 'image_center'
        elif r < 0.8:
            o0 = None if rng.random() < 0.2 else int(rng.integers(-n, n))
            o1 = None if rng.random() < 0.2 else int(rng.integers(-mt, mt))
            meth = (o0, o1)
        else:
            meth = ['com', 'convolution'][rng.integers(2)]
        for crop in CROPS:
            n_eval += 1
            distinct.add(('ci4', crop, repr(axes), odd, n % 2, m % 2, meth if isinstance(meth, str) else
                          tuple(v is None for v in meth)))
            common = dict(method=meth if isinstance(meth, str) else list(meth), odd_size=odd, square=False)
            try:
                out = center_image(data, method=meth, odd_size=odd, square=False, crop=crop, axes=axes, order=order)
                shp = out.shape
            except Exception:       # noqa
                out, shp = None, (-1, -1)
            akey = repr(axes).replace(' ', '')
            if odd and shp[1] % 2 != 1:
                hits.append(mkhit('odd', 'C12:center_image:odd_size:width-not-odd:crop=%s:axes=%s' % (crop, akey),
                                  'center_image(odd_size=True, crop=%r, axes=%r, method=%r) returns shape %r for input %r'
                                  % (crop, axes, meth, shp, (n, m)), data, (None, None), axes, crop, order, **common))
            if isinstance(meth, tuple) or meth == 'image_center':
                org = (n // 2, mt // 2) if meth == 'image_center' else meth
                trimmed = data[:, :mt]
                sel = selected(axes, org)
                o = [whole_origin(org[a], trimmed.shape[a], order) if sel[a] else None for a in (0, 1)]
                exp = spec_whole(trimmed, o[0], o[1], crop)
                if out is None or out.shape != exp.shape or not np.array_equal(out, exp):
                    hits.append(mkhit('ci-content', 'C12:center_image:content:crop=%s:axes=%s:odd_size=%s' % (crop, akey, odd),
                                      'center_image(odd_size=%s, crop=%r, axes=%r, method=%r) is not the centring of the image '
                                      '%s: shape %r, expected %r' % (odd, crop, axes, meth,
                                                                     'without its right-hand column' if mt != m else 'itself',
                                                                     shp, exp.shape),
                                      data, (None, None), axes, crop, order, **common))
    # ---- 5. center_image forwards every option to set_center --------------------
    from abel.tools.center import find_origin
    for it in range(max(60, budget)):
        n, m = (int(v) for v in rng.integers(2, 16, size=2)) if it % 5 else (int(rng.integers(20, 50)), int(rng.integers(20, 50)))
        data = (rng.integers(1, 20, size=(n, m)) * [1.0, 1.0, 0.37][rng.integers(3)]).astype(
            [np.float64, np.float64, np.int64][rng.integers(3)])
        odd, sq = bool(rng.random() < 0.5), bool(rng.random() < 0.3)
        T = spec_trim(data, odd, sq)
        if 0 in T.shape:
            continue
        axes = AXES[rng.integers(4)]
        order = int(rng.integers(0, 6))
        r = rng.random()
        if r < 0.55:       # explicit origin: None / integer / negative / fractional components inside the trimmed image
            meth = []
            for k in T.shape:
                u = rng.random()
                v = None if u < 0.12 else (float(rng.integers(0, k)) if u < 0.35 else
                                           float(np.clip(rng.uniform(0, k - 1), 0, max(0, k - 1))))
                if v is not None and rng.random() < 0.25 and v > 0:
                    v -= k
                meth.append(v)
            meth = tuple(meth)
        else:
            meth = ['com', 'convolution', 'image_center', 'gaussian'][rng.integers(4 if min(T.shape) >= 8 else 3)]
        crop = CROPS[rng.integers(3)]
        n_eval += 1
        distinct.add(('fwd', crop, repr(axes), order, odd, sq, meth if isinstance(meth, str) else
                      tuple(None if v is None else (v < 0, v != int(v)) for v in meth)))
        try:
            org = find_origin(T, method=meth, axes=axes) if isinstance(meth, str) else meth
            ref = set_center(T, org, crop=crop, axes=axes, order=order)
        except Exception:       # noqa  (reference undefined, e.g. a failed fit: not a case)
            continue
        try:
            out = center_image(data, method=meth, odd_size=odd, square=sq, crop=crop, axes=axes, order=order)
            good = out.shape == ref.shape and np.array_equal(out, ref)
        except Exception:       # noqa
            good, out = False, None
        if not good:
            frac = (not isinstance(meth, str)) and any(v is not None and v != int(v) for v in meth)
            hits.append(mkhit('forward', 'C12:center_image:forward:order=%d:%s:%s' % (
                order, crop, meth if isinstance(meth, str) else ('fractional-origin' if frac else 'whole-origin')),
                'center_image(method=%r, odd_size=%s, square=%s, crop=%r, axes=%r, order=%d) differs from set_center of '
                'the trimmed image with the same options (shape %r vs %r)' % (
                    meth, odd, sq, crop, axes, order, None if out is None else out.shape, ref.shape),
                data, (None, None), axes, crop, order, method=meth if isinstance(meth, str) else list(meth),
                odd_size=odd, square=sq))
    # ---- 6. the clauses observed through abel.Transform(origin=...).IM, in several process states ----------
    #      fresh; after Transform calls of every method with default center_options; after calls with explicit
    #      center_options.  The result must be the centring of the image (reference above) in every state.
    CO = [None, None, None, dict(crop='valid_region'), dict(order=0), dict(square=True), dict(odd_size=False, axes=0),
          dict(crop='maintain_data', order=1)]
    tcases = []
    for it in range(10 if budget <= 400 else 60):
        n, m = (int(v) for v in rng.integers(5, 15, size=2))
        if it % 3 == 0:
            m = n
        IM = rng.integers(1, 20, size=(n, m)).astype([np.float64, np.int64][rng.integers(2)])
        u = rng.random()
        if u < 0.5:
            org = (int(rng.integers(n // 4, n - n // 4)), int(rng.integers(m // 4, m - 1 - m // 4)))
        elif u < 0.7:
            org = (float(rng.uniform(n // 4, n - 1 - n // 4)), float(rng.uniform(m // 4, m - 2 - m // 4)))
        else:
            org = ['com', 'convolution', 'image_center'][rng.integers(3)]
        tcases.append(dict(IM=IM, tm=['two_point', 'hansenlaw', 'three_point', 'onion_peeling'][rng.integers(4)],
                           org=org, co=CO[rng.integers(len(CO))]))
    hist_default = [(mth, o, None) for mth in ALL_METHODS for o in ('none', 'image_center')]
    hist_explicit = [(mth, 'image_center', co) for mth in ALL_METHODS
                     for co in (dict(square=True), dict(crop='valid_region', order=0))]
    history, fresh = [], {}
    for stage, more in (('fresh', []), ('default-center_options', hist_default), ('explicit-center_options', hist_explicit)):
        run_history(more)
        history = history + more
        for ci, c in enumerate(tcases):
            n_eval += 1
            distinct.add(('tstate', stage, c['tm'], c['org'] if isinstance(c['org'], str) else 'tuple',
                          None if c['co'] is None else tuple(sorted(c['co'])), c['IM'].shape[0] == c['IM'].shape[1]))
            try:
                out, ref, untouched = transform_IM(c['IM'], c['tm'], c['org'], c['co'])
                if out is None:
                    continue
                good = out.shape == ref.shape and np.array_equal(out, ref) and untouched
            except Exception:       # noqa
                good, out = False, None
            if stage == 'fresh':
                fresh[ci] = out
            elif good and fresh.get(ci) is not None:
                good = fresh[ci].shape == out.shape and np.array_equal(fresh[ci], out)
            if not good:
                co_json = None if c['co'] is None else {k: (list(v) if isinstance(v, tuple) else v) for k, v in c['co'].items()}
                hits.append(mkhit('transform-state', 'C12:transform-state:%s:center_options=%s' % (
                    stage, 'default' if c['co'] is None else ','.join(sorted(c['co']))),
                    'abel.Transform(IM %r, method=%r, origin=%r%s).IM is not the centring of the image in the process state '
                    '"%s" (%d earlier Transform calls)' % (c['IM'].shape, c['tm'], c['org'],
                                                          '' if c['co'] is None else ', center_options=%r' % (c['co'],),
                                                          stage, len(history)),
                    c['IM'], (None, None), (0, 1), 'maintain_size', 0,
                    method=c['org'] if isinstance(c['org'], str) else list(c['org']), transform_method=c['tm'],
                    center_options=co_json, history=[[a, b, cc] for a, b, cc in history]))
    return hits, n_eval, len(distinct)


def run(ctx):
    rng = np.random.default_rng(ctx.seed)
    pr = vlib.coq_props('C12', translators=['center_src', 'center_prep_src'])
    ctx.cov.update(obligations=len(pr['theorems']), discharged=pr['discharged'],
                   theorems=pr['theorems'], axioms=pr['axioms'],
                   checker_cmd='make -C /verif/coq props/C12.vo (coqc 8.16.1, full .vo build) + Print Assumptions',
                   trusted_base=vlib.TRUSTED_COMMON + ['axioms reported by Print Assumptions: ' + ', '.join(pr['axioms'])])
    cases, results, n_ok, bad, errors, dist = correspondence(ctx, rng)
    ctx.cov.update(traces_validated_against_impl=n_ok, correspondence_cases=len(cases),
                   correspondence_disagreements=len(bad), input_distribution=dist)
    broken = (not pr['ok']) or bad or errors
    budget = (300 if ctx.quick else 3000) * (4 if broken else 1)
    hits, n_eval, n_distinct = search(ctx, rng, budget)
    ctx.cov.update(evaluations=n_eval + len(cases), distinct_nontrivial=n_distinct,
                   rule='search: (1) whole-pixel clauses on random integer-valued images, shapes 1..40 (+3 of several '
                        'hundred pixels), 4 dtypes, orders 0..5, integer / None / negative origins and (order 0) '
                        'fractional origins away from ties, 4 axes values x 3 crop modes, compared with an independent '
                        'numpy statement of the clause; (2) fractional origins, orders 1..5, blobs with empty margins: '
                        'total intensity, centroid, untouched axes, integer dtype; (3) center_image flags x shapes; (4) center_image with every '
                        'crop mode, axes selection, odd_size value and method (image_center, explicit whole-pixel / None / negative '
                        'origins, com, convolution): odd width, result = centring of the image without its right-hand column; (5) center_image '
                        'with every option (order 0..5, crop, axes, odd_size, square, explicit None / integer / negative / fractional '
                        'origins and com / convolution / image_center / gaussian) = set_center of the documented trimming with the '
                        'same options; (6) abel.Transform(origin=...).IM = centring of the image, evaluated in three process states '
                        '(fresh / after Transform calls of all 10 methods with default center_options / with explicit ones). '
                        'distinct = (crop, axes, parities, order, dtype kind, sign pattern) resp. (crop, axes, order, '
                        'dtype, negative) resp. (flags, parities, aspect); correspondence cases counted in evaluations only',
                   samples=[dict(kind=c['kind'], shape=list(c['IM'].shape), origin=[jsonable(v) for v in c['origin']],
                                 crop=c['crop'], axes=repr(c['axes']), order=c['order'], center_image=c.get('ci'),
                                 outcome=r[0])
                            for c, r in list(zip(cases, results))[:6]],
                   exhaustive=(not ctx.quick))
    new, seen = 0, set()
    for h in hits:
        if h.key in seen:
            continue
        seen.add(h.key)
        if ctx.report_hit(h):
            new += 1
    if not pr['ok'] and new == 0:
        ctx.report_broken('proof', pr['broken'] or 'props/C12.v', pr['error'] or '')
    if (bad or errors) and new == 0:
        detail = ''
        if bad:
            c = cases[bad[0]]
            detail = 'first disagreeing case: kind=%s shape=%r origin=%r crop=%r axes=%r order=%r center_image=%r impl=%s' % (
                c['kind'], c['IM'].shape, c['origin'], c['crop'], c['axes'], c['order'], c.get('ci'),
                results[bad[0]][0:1] + results[bad[0]][2:])
        if errors:
            detail += ' coq errors: %r' % (errors[:1],)
        ctx.report_broken('correspondence', 'model/Center.v vs abel/tools/center.py (%d of %d cases disagree)'
                          % (len(bad), len(cases)), detail)
    ctx.assumptions += [
        'theorems about whole-pixel centring are polymorphic in the pixel type (set_center_int); the order-1 theorems '
        '(mass and first moments, exact) are about the R instance of the two-tap interpolation model lin2, the '
        'correspondence runs the Q instance on dyadic origins (all binary64 operations exact)',
        'dtype clause: integer images with a fractional origin are converted to float by the implementation (commit '
        '64762f4); the model has no dtypes, the clause is evaluated by the search (mass / centroid on int32 / int64 images)',
        'orders 2..5 with a fractional origin (scipy spline prefilter) are not modelled: total intensity and centroid are '
        'only swept numerically with measured tolerances (mass 1e-4, centroid 1e-3 px at a 16-pixel empty margin)',
        'scipy.ndimage.shift(order=1, mode="constant") on the zero-padded array is modelled as linear interpolation of the '
        'zero-extended image (validated by the correspondence, not proved)',
    ]
