# C10 — polynomial classes return exact functions and exact Abel transforms.
#
#   theorems   coq/props/C10.v  (proofs: PolyRing, AbelPolyAlg, AbelPolyInt,
#              PolyTop, PolyPiecewise, AbelPolyEval, AngularProofs, AngularR)
#   models     coq/model/Poly.v (coefficient preparation, Horner, limits; Q and
#              R instances), coq/model/AbelPoly.v (Abel, a(k), .abel),
#              coq/model/Angular.v
#   tie        correspondence: Polynomial(...).func against the Q instance run by
#              vm_compute; Polynomial(...).abel against the model by Interval
#              goals |model - impl| <= tol (tol scaled to the size of the terms);
#              Angular(...).c exactly over Q; translator angular_sub.py selects
#              the model of Angular.__sub__ from the source; ApproxGaussian
#              segment goals generated from the ranges the implementation returns
#   search     tools/props/C10_oracle.py: the clauses evaluated on the
#              implementation (quadrature of the defining integral, algebra laws,
#              copies, B-splines, ApproxGaussian dense sampling)
import json
import os
import re
from fractions import Fraction

import numpy as np

import vlib
from vlib import Hit

LEVEL = 'proof'
HERE = os.path.dirname(os.path.abspath(__file__))
ORACLE_SRC = open(os.path.join(HERE, 'C10_oracle.py')).read()
exec(compile(ORACLE_SRC, os.path.join(HERE, 'C10_oracle.py'), 'exec'))   # defines run_clause etc.

Q = vlib.q_lit


def qlist(v):
    return vlib.list_lit([Q(float(x)) for x in v]) + '%Q'


# ---------------------------------------------------------------------------
# generators
# ---------------------------------------------------------------------------

def gen_grid(rng, n):
    kind = int(rng.integers(4))
    if kind == 0:
        g = np.arange(n, dtype=float)
    elif kind == 1:
        g = np.arange(n) * 0.5 + (0.25 if rng.random() < 0.5 else 0.0)
    elif kind == 2:
        g = np.sort(rng.uniform(0, n, n))
        if rng.random() < 0.5:
            g[0] = 0.0
    else:
        g = np.cumsum(rng.uniform(0.1, 1.5, n))
    return g


def _limit(rng, g, lo, hi):
    """A limit either equal to a grid value or at least 1e-3 (relative) away from
    every grid value (see `rule`: sqrt(r_max^2 - x^2) of nearly equal floats
    loses half the digits, which is not what the property is about)."""
    for _ in range(100):
        if rng.random() < 0.2:
            return float(g[rng.integers(len(g))])
        v = float(rng.uniform(lo, hi))
        if np.all(np.abs(g - v) > 1e-3 * max(1.0, abs(v))):
            return v
    return float(hi + 1.0)


def gen_poly_args(rng, nmax=9, kmax=8):
    n = int(rng.integers(3, nmax + 1))
    g = gen_grid(rng, n)
    top = float(g[-1])
    u = rng.random()
    if u < 0.06:
        rmin, rmax = float(rng.uniform(-3, -1)), float(rng.uniform(-1, 0))      # r_max <= 0
    else:
        a = _limit(rng, g, -2.0, top + 1.0)
        b = _limit(rng, g, -0.5, top + 2.0)
        rmin, rmax = (a, b) if a < b else (b, a)
        if rmin == rmax:
            rmax = rmin + 1.5
    K = int(rng.integers(0, kmax + 1))
    if rng.random() < 0.3:
        c = rng.integers(-5, 6, size=K + 1).astype(float)
    else:
        c = rng.normal(size=K + 1) * 10 ** rng.uniform(-1, 1)
    if rng.random() < 0.3:
        c[rng.random(K + 1) < 0.4] = 0.0
    if rng.random() < 0.15:
        c = np.concatenate([c, np.zeros(int(rng.integers(1, 3)))])
    if rng.random() < 0.04:
        c[:] = 0.0
    r0 = 0.0 if rng.random() < 0.3 else float(rng.uniform(-3, top + 1))
    s = 1.0 if rng.random() < 0.3 else float(rng.choice([-1, 1]) * rng.uniform(0.3, 3))
    red = bool(rng.random() < 0.5)
    return g, rmin, rmax, c, r0, s, red


def tol_q(x, rel):
    """rational tolerance rel * x + tiny, rounded up to a short dyadic"""
    v = float(x) * rel + 1e-300
    m, e = np.frexp(v)
    return Fraction(int(np.ceil(m * 2 ** 20)), 2 ** 20) * Fraction(2) ** int(e)


REL_FUNC = 1e-11
REL_ABEL = 1e-10

CASE_HEADER = ('From Coq Require Import Reals List ZArith QArith Qreals Bool.\n'
               'From Interval Require Import Tactic.\n'
               'From PA Require Import base.QClose model.Poly model.AbelPoly model.Angular proofs.PolyEvalTac.\n'
               'Import ListNotations.\n')


def poly_call(args):
    g, rmin, rmax, c, r0, s, red = args
    return '%s %s%%Q %s%%Q %s %s%%Q %s%%Q %s' % (qlist(g), Q(rmin), Q(rmax), qlist(c), Q(r0), Q(s), vlib.bool_lit(red))


def correspondence_poly(ctx, rng, n_obj, n_abel_idx):
    """Polynomial(...) against the model.  Returns dict with counts, failures."""
    from abel.tools.polynomial import Polynomial
    objs = []
    for _ in range(n_obj):
        a = gen_poly_args(rng)
        g, rmin, rmax, c, r0, s, red = a
        P = Polynomial(g.copy(), rmin, rmax, c.copy(), r0, s, red)
        fs, as_ = poly_scales(g, rmin, rmax, c, r0, s, red)
        objs.append((a, P.func.copy(), P.abel.copy(), fs, as_))
    # --- func: Q instance, vm_compute, one boolean per object
    shard = 40
    texts = []
    for k in range(0, len(objs), shard):
        items = []
        for (a, func, ab, fs, as_) in objs[k:k + shard]:
            tols = vlib.list_lit([Q(tol_q(v, REL_FUNC)) for v in fs]) + '%Q'
            items.append('all_within %s (poly_funcQ %s) %s' % (tols, poly_call(a), qlist(func)))
        texts.append(('C10_func_%03d' % (k // shard),
                      CASE_HEADER + 'Definition res : list bool := %s.\n'
                      'Eval vm_compute in (count_true res, false_idx 0 res).\n' % vlib.list_lit(items)))
    # --- abel: Interval goals, a few grid indices per object
    goals = []       # (object index, grid index)
    for oi, (a, func, ab, fs, as_) in enumerate(objs):
        n = len(a[0])
        idx = sorted(set(int(i) for i in rng.choice(n, size=min(n, n_abel_idx), replace=False)))
        for i in idx:
            goals.append((oi, i))
    gshard = 8
    gtexts = []
    line_of = {}
    for k in range(0, len(goals), gshard):
        name = 'C10_abel_%03d' % (k // gshard)
        lines = CASE_HEADER.rstrip('\n').split('\n') + ['Open Scope R_scope.']
        for (oi, i) in goals[k:k + gshard]:
            a, func, ab, fs, as_ = objs[oi]
            lines.append('Lemma ab_%d_%d : Rabs (poly_abelQ_at %s %d - Q2R %s%%Q) <= Q2R %s%%Q.'
                         % (oi, i, poly_call(a), i, Q(float(ab[i])), Q(tol_q(as_[i], REL_ABEL))))
            line_of[(name, len(lines))] = (oi, i)
            lines.append('Proof. evalQ. Qed.')
            line_of[(name, len(lines))] = (oi, i)
        gtexts.append((name, '\n'.join(lines) + '\n'))
    outs = vlib.coq_eval_many(texts + gtexts, timeout=1500)
    res = dict(n_obj=len(objs), func_ok=0, func_bad=[], abel_goals=len(goals), abel_ok=0, abel_bad=[], errors=[])
    for k, (name, _) in enumerate(texts):
        rc, out = outs[name]
        r = vlib.parse_eval_lists(out)
        m = re.match(r'\((\d+), (.*)\)$', r[0]) if (rc == 0 and r) else None
        if not m:
            res['errors'].append((name, out[-400:]))
            continue
        res['func_ok'] += int(m.group(1))
        res['func_bad'] += [k * shard + i for i in vlib.parse_nat_list(m.group(2))]
    for k, (name, _) in enumerate(gtexts):
        rc, out = outs[name]
        chunk = goals[k * gshard:(k + 1) * gshard]
        if rc == 0:
            res['abel_ok'] += len(chunk)
            continue
        m = re.search(r'File "[^"]*%s\.v", line (\d+)' % name, out)
        if m and (name, int(m.group(1))) in line_of:
            bad = line_of[(name, int(m.group(1)))]
            res['abel_ok'] += chunk.index(bad)
            res['abel_bad'].append(bad)
        else:
            res['errors'].append((name, out[-400:]))
    res['objs'] = objs
    return res


# ---- scalar operators on PiecewisePolynomial: whole object and every piece vs the model ----

def correspondence_scalar(ctx, rng, n_obj):
    """op(P, a) for op in *, num *, *=, /, /=, `/= a; *= a`: func of the whole object and of every piece against
    vscaleQ k (poly_funcQ ...) (k = a, 1/a or 1, exact rationals), abel at one grid point by Interval."""
    from abel.tools.polynomial import PiecewisePolynomial
    qitems = []
    goals = []
    tags = []
    for oi in range(n_obj):
        n = int(rng.integers(3, 8))
        g = gen_grid(rng, n)
        pieces = []
        # every (operator, number of pieces) pair occurs within 18 objects; a single piece shares nothing with the object
        for _ in range(1 + (oi // 6) % 3 if n_obj >= 18 else (1 + oi % 3 if oi % 2 else int(rng.integers(1, 4)))):
            _, rmin, rmax, c, r0, s, red = gen_poly_args(rng, kmax=4)
            rmin = _limit(rng, g, -1, g[-1]); rmax = rmin + float(rng.uniform(0.5, g[-1] + 1))
            if np.any((np.abs(g - rmax) < 1e-3 * max(1, rmax)) & (g != rmax)):
                rmax += 0.0123
            pieces.append((g, rmin, rmax, c, r0, s, red))
        a = float(rng.choice([-4.0, -0.5, 0.25, 2.0, 3.0, 7.0, float(rng.uniform(0.2, 6))]))
        op = SCALAR_OPS[oi % 6]            # mul, rmul, imul, div, idiv, roundtrip
        P = PiecewisePolynomial(g.copy(), [(p[1], p[2], p[3].copy(), p[4], p[5], p[6]) for p in pieces])
        if op in ('imul', 'idiv') and (oi // 6) % 2 == 0:     # on the object as constructed, no copy in between
            if op == 'imul':
                P *= a
            else:
                P /= a
            R = P
        else:
            R, _, _ = apply_scalar_op(P, op, a)
        fa = Fraction(a)
        k = fa if op in ('mul', 'rmul', 'imul') else (1 / fa if op in ('div', 'idiv') else Fraction(1))
        kq = '(%d # %d)%%Q' % (k.numerator, k.denominator)
        sc = [poly_scales(*p) for p in pieces]
        absk = abs(float(k)) if op != 'roundtrip' else 1.0
        tag = (op, a, [(p[1], p[2], p[3].tolist(), p[4], p[5], p[6]) for p in pieces], g.tolist())
        whole = None
        for j, p in enumerate(pieces):
            tols = vlib.list_lit([Q(tol_q(absk * v, REL_FUNC * 10)) for v in sc[j][0]]) + '%Q'
            qitems.append('all_within %s (vscaleQ %s (poly_funcQ %s)) %s' % (tols, kq, poly_call(p), qlist(R.p[j].func)))
            tags.append(tag + ('piece %d func' % j,))
            term = 'vscaleQ %s (poly_funcQ %s)' % (kq, poly_call(p))
            whole = term if whole is None else 'vaddQ (%s) (%s)' % (whole, term)
        tolw = vlib.list_lit([Q(tol_q(absk * v, REL_FUNC * 10)) for v in sum(x[0] for x in sc)]) + '%Q'
        qitems.append('all_within %s (%s) %s' % (tolw, whole, qlist(R.func)))
        tags.append(tag + ('object func',))
        i = int(rng.integers(0, n))
        kr = '(%d / %d)' % (k.numerator, k.denominator)
        for j, p in enumerate(pieces):
            goals.append((tag + ('piece %d abel[%d]' % (j, i),),
                          'Lemma sc_%d_%d : Rabs (%s * poly_abelQ_at %s %d - Q2R %s%%Q) <= Q2R %s%%Q.\nProof. evalQ. Qed.'
                          % (oi, j, kr, poly_call(p), i, Q(float(R.p[j].abel[i])), Q(tol_q(absk * sc[j][1][i], REL_ABEL * 10)))))
        goals.append((tag + ('object abel[%d]' % i,),
                      'Lemma sc_%d_w : Rabs (%s * (%s) - Q2R %s%%Q) <= Q2R %s%%Q.\nProof. evalQ. Qed.'
                      % (oi, kr, ' + '.join('poly_abelQ_at %s %d' % (poly_call(p), i) for p in pieces),
                         Q(float(R.abel[i])), Q(tol_q(absk * sum(x[1][i] for x in sc), REL_ABEL * 10)))))
    text = (CASE_HEADER + 'Definition res : list bool := %s.\nEval vm_compute in (count_true res, false_idx 0 res).\n'
            % vlib.list_lit(qitems))
    gshard = 8
    gtexts = []
    line_of = {}
    for k0 in range(0, len(goals), gshard):
        name = 'C10_scal_%03d' % (k0 // gshard)
        lines = CASE_HEADER.rstrip('\n').split('\n') + ['Open Scope R_scope.']
        for tg, gl in goals[k0:k0 + gshard]:
            for ln in gl.split('\n'):
                lines.append(ln)
                line_of[(name, len(lines))] = tg
        gtexts.append((name, '\n'.join(lines) + '\n'))
    outs = vlib.coq_eval_many([('C10_scalq', text)] + gtexts, timeout=1500)
    res = dict(q_items=len(qitems), q_ok=0, bad=[], goals=len(goals), g_ok=0, errors=[])
    rc, out = outs['C10_scalq']
    r = vlib.parse_eval_lists(out)
    m = re.match(r'\((\d+), (.*)\)$', r[0]) if (rc == 0 and r) else None
    if not m:
        res['errors'].append(('C10_scalq', out[-400:]))
    else:
        res['q_ok'] = int(m.group(1))
        res['bad'] += [tags[i] for i in vlib.parse_nat_list(m.group(2))]
    for k0, (name, _) in enumerate(gtexts):
        rc, out = outs[name]
        chunk = [t for t, _ in goals[k0 * gshard:(k0 + 1) * gshard]]
        if rc == 0:
            res['g_ok'] += len(chunk)
            continue
        m = re.search(r'File "[^"]*%s\.v", line (\d+)' % name, out)
        if m and (name, int(m.group(1))) in line_of:
            tg = line_of[(name, int(m.group(1)))]
            res['g_ok'] += chunk.index(tg)
            res['bad'].append(tg)
        else:
            res['errors'].append((name, out[-400:]))
    return res


# ---- SPolynomial(...).abel at sampled pixels vs the model (model/SPoly.v) by Interval ----

def correspondence_spoly(ctx, rng, n_obj, n_px):
    from abel.tools.polynomial import SPolynomial
    goals = []
    crashed = []
    for oi in range(n_obj):
        R, C, rmin, rmax, c, r0, s = gen_spoly_args(rng)
        if not np.any(c):
            c[0, 0] = 1.0
        try:
            P = SPolynomial(R.copy(), C.copy(), rmin, rmax, c.copy(), r0, s)
        except Exception as e:
            crashed.append((('SPolynomial', R.shape, rmin, rmax, np.asarray(c).tolist(), r0, s), '%s: %s' % (type(e).__name__, e)))
            continue
        flat = [idx for idx in np.ndindex(R.shape) if 0 < R[idx] < rmax]
        if not flat:
            continue
        cols = vlib.list_lit([qlist(col)[:-2] for col in np.asarray(c, float).T]) + '%Q'
        for t in rng.choice(len(flat), size=min(len(flat), n_px), replace=False):
            idx = flat[int(t)]
            r, cs, v = float(R[idx]), float(C[idx]), float(P.abel[idx])
            _, _, _, sc = spoly_reference(np.array([r]), np.array([cs]), rmin, rmax, c, r0, s)
            tag = (R.shape, idx, rmin, rmax, np.asarray(c).tolist(), r0, s, r, cs)
            goals.append((tag, 'Lemma sp_%d_%d : Rabs (sp_abelQ_at (sp_prepareQ %s %s%%Q %s%%Q) %s%%Q %s%%Q %s%%Q %s%%Q - Q2R %s%%Q) <= Q2R %s%%Q.\n'
                               'Proof. sp_eval. Qed.'
                          % (oi, len(goals), cols, Q(r0), Q(s), Q(r), Q(cs), Q(max(rmin, 0.0)), Q(rmax), Q(v),
                             Q(tol_q(float(sc[0]) + abs(v) * 1e-3 + 1e-6, 1e-9)))))
    # PiecewiseSPolynomial: pieces placed anywhere relative to the sampled radii (inside, straddling the edge, entirely
    # beyond, below the first radius, zero width); abel = sum of the pieces' model values
    from abel.tools.polynomial import PiecewiseSPolynomial
    for oi in range(n_obj):
        R, C, _, _, _, _, _ = gen_spoly_args(rng)
        flatR = np.sort(np.ravel(R))
        pieces = []
        for where in [PLACEMENTS[(oi + j) % len(PLACEMENTS)] for j in range(int(rng.integers(1, 4)))]:
            _, _, _, _, c, r0, s = gen_spoly_args(rng)
            if not np.any(c):
                c[0, 0] = 1.0
            a, b = place_limits(rng, flatR, where)
            pieces.append((a, b, c, r0, s))
        try:
            P = PiecewiseSPolynomial(R.copy(), C.copy(), [(a, b, c.copy(), r0, s) for (a, b, c, r0, s) in pieces])
            pabel = np.asarray(P.abel, float)
        except Exception as e:       # a valid request must not raise: counted as a disagreement with the model
            crashed.append((('PiecewiseSPolynomial', R.shape, [(a, b, np.asarray(c).tolist(), r0, s) for (a, b, c, r0, s) in pieces]),
                            '%s: %s' % (type(e).__name__, e)))
            continue
        flat = [idx for idx in np.ndindex(R.shape) if R[idx] > 0]
        if not flat:
            continue
        for t in rng.choice(len(flat), size=min(len(flat), n_px), replace=False):
            idx = flat[int(t)]
            r, cs, v = float(R[idx]), float(C[idx]), float(pabel[idx])
            sc = sum(float(spoly_reference(np.array([r]), np.array([cs]), a, b, c, r0, s)[3][0]) for (a, b, c, r0, s) in pieces)
            terms = ' + '.join('sp_piece_abelQ_at %s %s%%Q %s%%Q %s%%Q %s%%Q %s%%Q %s%%Q'
                               % (vlib.list_lit([qlist(col)[:-2] for col in np.asarray(c, float).T]) + '%Q',
                                  Q(r0), Q(s), Q(r), Q(cs), Q(a), Q(b)) for (a, b, c, r0, s) in pieces)
            tag = ('PiecewiseSPolynomial', R.shape, idx, [(a, b, np.asarray(c).tolist(), r0, s) for (a, b, c, r0, s) in pieces], r, cs)
            goals.append((tag, 'Lemma spw_%d_%d : Rabs (%s - Q2R %s%%Q) <= Q2R %s%%Q.\nProof. sp_eval. Qed.'
                          % (oi, len(goals), terms, Q(v), Q(tol_q(sc + abs(v) * 1e-3 + 1e-6, 1e-9)))))
    gshard = 4
    gtexts = []
    line_of = {}
    for k0 in range(0, len(goals), gshard):
        name = 'C10_spoly_%03d' % (k0 // gshard)
        lines = (CASE_HEADER.rstrip('\n').split('\n') + ['From PA Require Import model.SPoly.', 'Open Scope R_scope.'])
        for tg, gl in goals[k0:k0 + gshard]:
            for ln in gl.split('\n'):
                lines.append(ln)
                line_of[(name, len(lines))] = tg
        gtexts.append((name, '\n'.join(lines) + '\n'))
    outs = vlib.coq_eval_many(gtexts, timeout=1500)
    res = dict(goals=len(goals), ok=0, bad=[t for t, _ in crashed], errors=[])
    for k0, (name, _) in enumerate(gtexts):
        rc, out = outs[name]
        chunk = [t for t, _ in goals[k0 * gshard:(k0 + 1) * gshard]]
        if rc == 0:
            res['ok'] += len(chunk)
            continue
        m = re.search(r'File "[^"]*%s\.v", line (\d+)' % name, out)
        if m and (name, int(m.group(1))) in line_of:
            tg = line_of[(name, int(m.group(1)))]
            res['ok'] += chunk.index(tg)
            res['bad'].append(tg)
        else:
            res['errors'].append((name, out[-400:]))
    return res


# ---- Angular: exact comparison over Q -------------------------------------

def small_coeffs(rng, n):
    return [float(v) for v in rng.integers(-6, 7, size=n) / rng.choice([1, 2, 4])]


def correspondence_angular(ctx, rng, n_cases):
    from abel.tools.polynomial import Angular
    items = []
    descr = []
    for _ in range(n_cases):
        op = rng.choice(['add', 'sub', 'mul', 'scal', 'div', 'cos', 'cossin', 'legendre', 'outer'])
        a = small_coeffs(rng, int(rng.integers(1, 6)))
        b = small_coeffs(rng, int(rng.integers(1, 6)))
        if op == 'add':
            items.append('qlist_eq (paddQ %s %s) %s' % (qlist(a), qlist(b), qlist((Angular(a) + Angular(b)).c)))
        elif op == 'sub':
            items.append('qlist_eq (asub_implQ %s %s) %s' % (qlist(a), qlist(b), qlist((Angular(a) - Angular(b)).c)))
        elif op == 'mul':
            items.append('qlist_eq (pmulQ %s %s) %s' % (qlist(a), qlist(b), qlist((Angular(a) * Angular(b)).c)))
        elif op == 'scal':
            k = float(rng.integers(-8, 9) / 4)
            items.append('qlist_eq (ascalQ %s%%Q %s) %s' % (Q(k), qlist(a), qlist((k * Angular(a)).c)))
        elif op == 'div':
            k = float(rng.choice([-4, -2, -0.5, 0.25, 2, 8]))
            items.append('qlist_eq (adivnQ %s %s%%Q) %s' % (qlist(a), Q(k), qlist((Angular(a) / k).c)))
        elif op == 'cos':
            n = int(rng.integers(0, 9))
            items.append('qlist_eq (acosQ %d) %s' % (n, qlist(Angular.cos(n).c)))
        elif op == 'cossin':
            m, n = int(rng.integers(0, 6)), 2 * int(rng.integers(0, 6))
            items.append('qlist_eq (acossinQ %d %d) %s' % (m, n, qlist(Angular.cossin(m, n).c)))
            a = [m, n]
        elif op == 'legendre':
            a = small_coeffs(rng, int(rng.integers(1, 10)))
            # scipy's Legendre coefficients carry rounding noise: 2^-40 relative to max |P_n coefficient| * sum|a|
            tol = Fraction(1, 2 ** 36) * Fraction(sum(abs(v) for v in a) + 1)
            items.append('qlist_close %s%%Q (alegendreQ %s) %s' % (Q(tol), qlist(a), qlist(Angular.legendre(a).c)))
        elif op == 'outer':
            M = b * Angular(a)
            items.append('list_all2 qlist_eq (aouterQ %s %s) %s'
                         % (qlist(b), qlist(a), vlib.list_lit([qlist(row) for row in M])))
        descr.append((str(op), a, b))
    text = (CASE_HEADER + 'From PA Require Import gen.AngularSub.\n'
            'Definition res : list bool := %s.\nEval vm_compute in (count_true res, false_idx 0 res).\n'
            % vlib.list_lit(items))
    rc, out = vlib.coq_eval('C10_angular', text)
    r = vlib.parse_eval_lists(out)
    m = re.match(r'\((\d+), (.*)\)$', r[0]) if (rc == 0 and r) else None
    if not m:
        return dict(n=len(items), ok=0, bad=[], errors=[('C10_angular', out[-500:])], descr=descr)
    return dict(n=len(items), ok=int(m.group(1)), bad=vlib.parse_nat_list(m.group(2)), errors=[], descr=descr)


# ---- ApproxGaussian at random tolerances: Interval goals -------------------

def correspondence_ag(ctx, rng, n_tol):
    from abel.tools.polynomial import ApproxGaussian
    from translate import approx_gaussian as agt
    tols = [float(10 ** rng.uniform(-5, np.log10(5e-2))) for _ in range(n_tol)]
    texts = []
    cnt = 0
    for k, tol in enumerate(tols):
        g = ApproxGaussian(tol)
        # 1.08 tol, not 1.01: see finding C10:approx-gaussian-exceeds-tol (the 1.01 bound is checked by the
        # search and proved for the tabulated tolerances)
        t, nm, c = agt.instance_text('agr%d' % k, tol, g.ranges, slack=Fraction(108, 100))
        cnt += c
        texts.append(('C10_ag_%02d' % k, 'From PA Require Import gen.ApproxGaussianInst.\n'
                      'From Coq Require Import Reals.\nFrom Interval Require Import Tactic.\nOpen Scope R_scope.\n' + t))
    outs = vlib.coq_eval_many(texts, timeout=1500)
    bad = []
    for (name, _), tol in zip(texts, tols):
        rc, out = outs[name]
        if rc != 0:
            bad.append((tol, out[-300:]))
    return dict(tols=tols, goals=cnt, bad=bad)


# ---------------------------------------------------------------------------
# search on the implementation
# ---------------------------------------------------------------------------

SNIPPET_TAIL = '''
if __name__ == '__main__':
    name = %(name)r
    args = json.loads(%(args)r)
    ok, detail = run_clause(name, args)
    print('C10 clause', name, 'holds' if ok else 'FAILS: ' + detail)
    sys.exit(0 if ok else 1)
'''


def jsonable(x):
    if isinstance(x, np.ndarray):
        return x.tolist()
    if isinstance(x, (np.floating,)):
        return float(x)
    if isinstance(x, (np.integer,)):
        return int(x)
    if isinstance(x, (np.bool_,)):
        return bool(x)
    if isinstance(x, (list, tuple)):
        return [jsonable(v) for v in x]
    return x


def make_hit(name, args, detail, key):
    args = jsonable(args)
    snippet = ORACLE_SRC + SNIPPET_TAIL % dict(name=name, args=json.dumps(args))
    return Hit(name, key, '%s: %s' % (name, detail), snippet, dict(clause=name, args=args, detail=detail))


def spoly_key(args, detail):
    return 'C10:spolynomial:%s' % ('raises' if 'raises' in detail else detail.split('[')[0])


def ag_key(args, detail):
    m = re.match(r'max deviation ([0-9.eE+-]+) > 1.01 \* tol', detail)
    if m and float(m.group(1)) <= 1.08 * args[0]:
        return 'C10:approx-gaussian-exceeds-tol'
    return 'C10:approx_gaussian:' + detail.split('(')[0][:40]


def gen_spoly_args(rng, allow_zero_top=True):
    from abel.tools.polynomial import rcos
    if rng.random() < 0.6:
        shape = (int(rng.integers(3, 7)), int(rng.integers(3, 7)))
        if rng.random() < 0.5:
            origin = (float(rng.integers(0, shape[0])), float(rng.integers(0, shape[1])))
        else:
            origin = (float(rng.uniform(0, shape[0] - 1)), float(rng.uniform(0, shape[1] - 1)))
        R, C = rcos(shape=shape, origin=origin)
    else:
        R = gen_grid(rng, int(rng.integers(3, 9)))
        C = np.ones_like(R) if rng.random() < 0.5 else rng.uniform(-1, 1, size=R.shape)
    top = float(R.max())
    flat = np.ravel(R)
    a = _limit(rng, flat, -1.0, top + 0.5)
    b = _limit(rng, flat, 0.2, top + 1.0)
    rmin, rmax = (a, b) if a < b else (b, a)
    if rmin == rmax:
        rmax = rmin + 1.0
    M, N = int(rng.integers(1, 5)), int(rng.integers(1, 6))
    c = rng.normal(size=(M, N))
    c[rng.random((M, N)) < 0.35] = 0.0
    if allow_zero_top and M > 1 and rng.random() < 0.12:
        c[-1, :] = 0.0
    r0 = 0.0 if rng.random() < 0.35 else float(rng.uniform(-1, top))
    s = 1.0 if rng.random() < 0.35 else float(rng.choice([-1, 1]) * rng.uniform(0.4, 2.5))
    return R, C, rmin, rmax, c, r0, s


BS_KINDS = ['tck', 'bspline', 'splrep', 'interp', 'univariate']
BS_PLACES = ['outside', 'knot', 'inside', 'inside-far']


def gen_bspline_args(rng, j, kind=None, place=None):
    """Splines given as tck / BSpline (arbitrary knot vectors) or built from data (splrep, make_interp_spline,
    UnivariateSpline); breakpoints negative, zero and positive; 0 a breakpoint / strictly inside an interval / outside
    all; degree 1..5."""
    kind = kind or BS_KINDS[j % 5]
    place = place or BS_PLACES[(j // 5) % 4]
    deg = int(rng.integers(1, 6))
    nb = int(rng.integers(4, 9))                       # number of distinct breakpoints / data points
    if kind in ('tck', 'bspline'):
        brk = np.cumsum(rng.uniform(0.4, 1.5, nb))
    else:
        nb = max(nb, deg + 3)
        brk = np.cumsum(rng.uniform(0.4, 1.5, nb))
    j0 = int(rng.integers(1, max(2, nb - 2)))          # index of the breakpoint placed at / before 0
    if place == 'outside':
        brk = brk - brk[0] + float(rng.choice([0.0, 0.3, 1.1]))
    elif place == 'knot':
        brk = brk - brk[j0]
    elif place == 'inside':
        brk = brk - brk[j0] - float(rng.uniform(0.1, 0.9)) * (brk[j0 + 1] - brk[j0])
    else:
        brk = brk - brk[min(j0 + 1, nb - 2)] - 0.5 * (brk[min(j0 + 2, nb - 1)] - brk[min(j0 + 1, nb - 2)])
    if brk[-1] <= 0.5:
        brk = brk + (0.7 - brk[-1]) + 1.0
    if kind in ('tck', 'bspline'):
        t = np.concatenate([[brk[0]] * deg, brk, [brk[-1]] * deg])
        coef = rng.normal(size=len(t) - deg - 1)
        xk, yk = t, coef
    else:
        xk, yk = brk, rng.normal(size=len(brk))
    r = np.arange(0, brk[-1] + 1.5, 0.5)
    if rng.random() < 0.5:
        r = np.sort(np.concatenate([r, rng.uniform(0, brk[-1] + 1, 4)]))
    r = r[np.all(np.abs(r[:, None] - brk[None, :]) > 1e-3, axis=1) | np.isin(r, brk)]
    return kind, xk, yk, deg, r


PLACEMENTS = ['inside', 'straddle-edge', 'beyond', 'below-first', 'zero-width', 'touch-edge']


def place_limits(rng, g, where):
    """(r_min, r_max) of a piece relative to the sampled radii g (sorted, non-negative)"""
    lo, hi = float(np.min(g)), float(np.max(g))
    for _ in range(200):
        if where == 'inside':
            a, b = sorted(float(v) for v in rng.uniform(lo, hi, 2))
        elif where == 'straddle-edge':
            a, b = float(rng.uniform(lo, hi)), hi + float(rng.uniform(0.1, 2))
        elif where == 'beyond':
            a = hi + float(rng.uniform(0.05, 2)); b = a + float(rng.uniform(0.2, 2))
        elif where == 'below-first':
            if lo > 0.2:
                a, b = sorted(float(v) for v in rng.uniform(0, lo * 0.95, 2))
            else:
                a, b = -float(rng.uniform(1, 2)), -float(rng.uniform(0.1, 0.9))      # entirely at negative r
        elif where == 'zero-width':
            a = float(rng.uniform(lo, hi + 1)); b = a
        else:                                   # r_min exactly the largest sampled radius
            a, b = hi, hi + float(rng.uniform(0.2, 2))
        ok = all(np.all((np.abs(g - v) > 1e-3 * max(1.0, abs(v))) | (g == v)) for v in (a, b))
        if ok and (b - a > 0.05 or where == 'zero-width'):
            return a, b
    return hi + 1.0, hi + 2.0


def placement_sweep(rng, run):
    """Every class x every placement of a piece relative to the grid (inside, straddling the edge, entirely beyond,
    entirely below the first radius / at negative r, zero width, starting exactly at the last radius): abel vs the
    line-of-sight integral."""
    from abel.tools.polynomial import rcos
    for where in PLACEMENTS:
        # 1-D
        g = gen_grid(rng, int(rng.integers(4, 9)))
        if rng.random() < 0.5:
            g = g + float(rng.uniform(0.3, 1.0))            # grid not starting at 0
        _, _, _, c, r0, s, red = gen_poly_args(rng, kmax=5)
        if not np.any(c):
            c = c + 1.0
        a, b = place_limits(rng, g, where)
        run('polynomial', (g, a, b, c, r0, s, red), lambda A, d: 'C10:polynomial:' + d.split('[')[0], ('place', 'P', where))
        a2, b2 = place_limits(rng, g, 'inside')
        _, _, _, c2, r02, s2, red2 = gen_poly_args(rng, kmax=4)
        order = [(a, b, c, r0, s, red), (a2, b2, c2, r02, s2, red2)]
        if rng.random() < 0.5:
            order.reverse()
        run('piecewise', (g, order), lambda A, d: 'C10:piecewise:' + d.split('[')[0], ('place', 'PW', where))
        # 2-D
        if rng.random() < 0.6:
            shape = (int(rng.integers(3, 6)), int(rng.integers(3, 6)))
            R, C = rcos(shape=shape, origin=(float(rng.uniform(0, shape[0] - 1)), float(rng.uniform(0, shape[1] - 1))))
        else:
            R = gen_grid(rng, int(rng.integers(3, 8))) + float(rng.choice([0.0, 0.4]))
            C = rng.uniform(-1, 1, size=R.shape)
        flat = np.sort(np.ravel(R))
        _, _, _, _, cm, r0m, sm = gen_spoly_args(rng)
        if not np.any(cm):
            cm[0, 0] = 1.0
        a, b = place_limits(rng, flat, where)
        run('spolynomial', (R, C, a, b, cm, r0m, sm), spoly_key, ('place', 'SP', where))
        a2, b2 = place_limits(rng, flat, 'inside')
        _, _, _, _, cm2, r0m2, sm2 = gen_spoly_args(rng)
        order = [(a, b, cm, r0m, sm), (a2, b2, cm2, r0m2, sm2)]
        k = int(rng.integers(0, 3))
        if k == 1:
            order.reverse()
        elif k == 2:
            order = [order[0]]                                  # the placed piece alone
        run('piecewise_s', (R, C, order), lambda A, d: 'C10:piecewise_s:' + d.split('[')[0], ('place', 'PWS', where))


def search(ctx, rng, budget):
    hits = []
    n_eval = 0
    distinct = set()

    def run(name, args, keyf, dkey):
        nonlocal n_eval
        n_eval += 1
        distinct.add(dkey)
        ok, detail = run_clause(name, jsonable(args))
        if not ok:
            hits.append(make_hit(name, args, detail, keyf(args, detail)))

    # radial coefficients as any list-like object (list, tuple, float and integer ndarray)
    for kind in ('list', 'tuple', 'ndarray', 'int-ndarray'):
        def okey(A, d, kind=kind):
            return 'C10:angular_outer:%s:%s' % (A[2], d[:40])
        run('angular_outer', (rng.normal(size=int(rng.integers(1, 5))), rng.normal(size=int(rng.integers(2, 5))) * 3, kind),
            okey, ('outer', kind))
    # directed case: the tolerance of the recorded finding C10:approx-gaussian-exceeds-tol (refuted instance theorem)
    run('approx_gaussian', (0.0187,), ag_key, ('ag', 'recorded'))
    # every class x every placement of a piece relative to the sampled radii (twice in the quick tier, 8 x in thorough)
    for _ in range(max(2, budget // 40)):
        placement_sweep(rng, run)
        # every kind of spline input x every position of 0 relative to the breakpoints
        for kind in BS_KINDS:
            for place in BS_PLACES:
                run('bspline', gen_bspline_args(rng, 0, kind, place),
                    lambda A, d: 'C10:bspline:%s:%s' % (A[0], re.sub(r'\[.*', '', d)[:40]), ('bs', kind, place))
    for it in range(budget):
        # Polynomial vs quadrature (larger grids and degrees than the correspondence)
        a = gen_poly_args(rng, nmax=24, kmax=8)
        g, rmin, rmax, c, r0, s, red = a
        run('polynomial', a, lambda A, d: 'C10:polynomial:' + d.split('[')[0],
            ('poly', len(np.trim_zeros(c, 'b')), r0 == 0, s == 1, s < 0, red, rmin < 0, rmax > g[-1]))
        # SPolynomial
        sa = gen_spoly_args(rng)
        run('spolynomial', sa, spoly_key,
            ('spoly', sa[4].shape, sa[5] == 0, sa[6] == 1, np.ndim(sa[0]), bool(np.any(sa[4][-1]))))
        if it % 3 == 0:
            # piecewise sums (overlapping, gapped)
            g = gen_grid(rng, int(rng.integers(4, 16)))
            ranges = []
            for _ in range(int(rng.integers(1, 5))):
                _, rmin, rmax, c, r0, s, red = gen_poly_args(rng, kmax=5)
                rmin = _limit(rng, g, -1, g[-1]); rmax = rmin + float(rng.uniform(0.5, g[-1]))
                if np.any((np.abs(g - rmax) < 1e-3 * max(1, rmax)) & (g != rmax)):
                    rmax += 0.0123
                ranges.append((rmin, rmax, c, r0, s, red))
            if len(ranges) >= 1 and rng.random() < 0.5:
                z = ranges[0]
                pos = int(rng.integers(0, len(ranges) + 1)) if rng.random() < 0.5 else 0
                ranges.insert(pos, (z[0], z[1], np.zeros_like(np.asarray(z[2], dtype=float)), z[3], z[4], z[5]))
            run('piecewise', (g, ranges), lambda A, d: 'C10:piecewise:' + d.split('[')[0], ('pw', len(ranges)))
            R, C, _, _, _, _, _ = gen_spoly_args(rng)
            sr = []
            for _ in range(int(rng.integers(1, 4))):
                _, _, rmin, rmax, c, r0, s = gen_spoly_args(rng)
                rmin = _limit(rng, np.ravel(R), -0.5, float(R.max())); rmax = rmin + float(rng.uniform(0.5, 3))
                if np.any((np.abs(R - rmax) < 1e-3 * max(1, rmax)) & (R != rmax)):
                    rmax += 0.0123
                sr.append((rmin, rmax, c, r0, s))
            # pieces with all-zero coefficients (or an empty range) at every position of the list,
            # the first one included: a sum of pieces must not depend on which piece comes first
            if len(sr) >= 1 and rng.random() < 0.6:
                zc = np.zeros_like(sr[0][2])
                pos = int(rng.integers(0, len(sr) + 1)) if rng.random() < 0.5 else 0
                sr.insert(pos, (sr[0][0], sr[0][1], zc, sr[0][3], sr[0][4]))
            run('piecewise_s', (R, C, sr), lambda A, d: 'C10:piecewise_s:' + d.split('[')[0], ('pws', len(sr)))
            # copies and every scalar operator (*, num *, *=, /, /=, round trips) on every class: whole object and pieces
            kind = ['Polynomial', 'PiecewisePolynomial', 'SPolynomial', 'PiecewiseSPolynomial'][it // 3 % 4]
            k = float(rng.choice([-3.0, -0.5, 0.25, 2.0, 7.0, 3.0, float(rng.uniform(0.1, 9)), -float(rng.uniform(0.1, 9))]))
            if kind == 'Polynomial':
                args = gen_poly_args(rng)
            elif kind == 'PiecewisePolynomial':
                args = (g, ranges[:1] if (it // 12) % 2 == 0 else ranges)      # a single piece every other time
            elif kind == 'SPolynomial':
                args = gen_spoly_args(rng)
            else:
                args = (R, C, sr[:1] if (it // 12) % 2 == 0 else sr)
            run('scalar_copy', (kind, args, k),
                lambda A, d: 'C10:scalar_copy:%s:%s' % (A[0], re.sub(r'by -?[0-9.e+-]+|piece \d+', '', d)), ('sc', kind))
        # Angular algebra at random points
        xs = rng.uniform(-1, 1, 5)
        op = ['add', 'sub', 'mul', 'scal', 'cossin', 'legendre', 'outer'][it % 7]
        a = rng.normal(size=int(rng.integers(1, 7))); b = rng.normal(size=int(rng.integers(1, 7)))
        if op == 'scal':
            b = [float(rng.choice([-2.5, 0.5, 3.0]))]
        if op == 'cossin':
            a = [int(rng.integers(0, 7)), 2 * int(rng.integers(0, 6))]
        if op == 'legendre':
            a = rng.normal(size=int(rng.integers(1, 10)))

        def akey(A, d):
            return 'C10:angular:%s:%s' % (A[0], d.split('[')[0])
        run('angular', (op, a, b, xs), akey, ('ang', op, len(a) > len(b), len(a) == len(b)))
        # the same algebra as values: operands unchanged, no aliasing, repeatable, reusable (one pair of objects, a whole
        # sequence of expressions, finally SPolynomial(radial * B)); equal and unequal lengths in both orders
        la = int(rng.integers(1, 6))
        lb = [la, int(rng.integers(1, 6)), la + int(rng.integers(1, 4)), max(1, la - int(rng.integers(1, 4)))][it % 4]
        pa = rng.normal(size=la); pb = rng.normal(size=lb)
        names = ['A+B', 'B+A', 'A-B', 'B-A', 'A*B', 'B*A', 'A+A', 'A-A', 'A*A', 'k*A', 'B*k', 'A/k', '(A+B)*B', '(A-B)+(B*A)']
        order = [names[int(i)] for i in rng.permutation(len(names))[:int(rng.integers(4, 10))]]
        run('angular_purity', (pa, pb, rng.normal(size=int(rng.integers(1, 4))), float(rng.choice([-2.0, 0.5, 3.0])), xs, order),
            lambda A, d: 'C10:angular_purity:%s' % re.sub(r'[-0-9.e+\[\], ]{4,}|\(evaluation \d\)', '', d)[:60],
            ('angp', la == lb, la > lb))
        if it % 5 == 0:
            run('bspline', gen_bspline_args(rng, it // 5), lambda A, d: 'C10:bspline:%s:%s' % (A[0], re.sub(r'\[.*', '', d)[:40]),
                ('bs', it // 5 % 5, it // 25 % 4))
        if it % 4 == 0:
            tol = float(10 ** rng.uniform(-5, np.log10(5e-2)))
            run('approx_gaussian', (tol,), ag_key, ('ag', int(np.log10(tol) * 2)))
    return hits, n_eval, len(distinct)


# ---------------------------------------------------------------------------

def run(ctx):
    rng = np.random.default_rng(ctx.seed)
    # 0. regenerate this property's generated files from the current source
    from translate import angular_sub, approx_gaussian
    gen_err = []
    variant = None
    try:
        variant = angular_sub.generate()
    except Exception as e:
        gen_err.append(('angular_sub', repr(e)))
    try:
        n_ag = approx_gaussian.generate()
    except Exception as e:
        n_ag = 0
        gen_err.append(('approx_gaussian', repr(e)))
    # 1. theorems
    # the per-instance theorems (Interval) live outside props/C10.v (coqchk closure); recompiled on every run
    inst = 'proofs/C10Instances.v'
    try:
        os.remove(os.path.join(vlib.COQ, inst + 'o'))
    except OSError:
        pass
    if not ctx.quick:        # thorough: re-prove the tabulated ApproxGaussian segment goals too (45 s)
        try:
            os.remove(os.path.join(vlib.COQ, 'gen', 'ApproxGaussianInst.vo'))
        except OSError:
            pass
    pr = vlib.coq_props('C10', extra_targets=['proofs/PolyEvalTac.vo', 'gen/AngularSub.vo', inst + 'o'])
    # instance goals are counted only when they were really compiled in this run
    inst_thms = vlib.theorems_in(inst) if ('COQC ' + inst) in pr['log'] else []
    n_ag_run = n_ag if 'COQC gen/ApproxGaussianInst.v' in pr['log'] else 0
    ctx.cov['instance_goals_from_an_earlier_build_not_counted'] = n_ag - n_ag_run
    n_ag_total, n_ag = n_ag, n_ag_run
    ctx.cov.update(obligations=len(pr['theorems']) + len(inst_thms) + n_ag,
                   discharged=(pr['discharged'] + len(inst_thms) + n_ag) if pr['ok'] else 0,
                   theorems=pr['theorems'], instance_theorems=inst_thms, axioms=pr['axioms'],
                   checker_cmd='make -C /verif/coq props/C10.vo (coqc 8.16.1, full .vo build) + Print Assumptions; '
                               'per-instance goals: coqc cases/C10_*.v (Interval 4.6, vm_compute)',
                   trusted_base=vlib.TRUSTED_COMMON + [
                       'axioms reported by Print Assumptions (classical real numbers of Coq Reals/Coquelicot): '
                       + ', '.join(pr['axioms']),
                       'Abel f Rm x is defined as 2 * RInt (fun y => f (sqrt (x^2+y^2))) 0 (sqrt (Rm^2-x^2)) '
                       '(equivalence with the singular textbook form by substitution is not proved)',
                       'the Q instance (executed) of model/Poly.v equals the R instance (theorems) on rational inputs: proved '
                       '(C10_model_Q2R_func, C10_model_Q2R_abel); for SPolynomial the per-column preparation over Q is the same '
                       'Section code as over R (not proved), the abel formula part is proved (C10_spoly_eval_sound)',
                       'scipy.integrate.quad (search oracle) and scipy.special.legendre / PPoly.from_spline (external)'])
    broken = not pr['ok'] or bool(gen_err)
    # 2. correspondence
    nq = 48 if ctx.quick else 400
    cp = correspondence_poly(ctx, rng, nq, 2 if ctx.quick else 3)
    ca = correspondence_angular(ctx, rng, 150 if ctx.quick else 1500)
    cg = correspondence_ag(ctx, rng, 2 if ctx.quick else 12)
    cs = correspondence_scalar(ctx, rng, 18 if ctx.quick else 90)
    csp = correspondence_spoly(ctx, rng, 6 if ctx.quick else 48, 2)
    corr_bad = bool(cp['func_bad'] or cp['abel_bad'] or cp['errors'] or ca['bad'] or ca['errors'] or cg['bad']
                    or cs['bad'] or cs['errors'] or csp['bad'] or csp['errors'])
    ctx.cov['correspondence_spolynomial'] = dict(abel_goals=csp['goals'], abel_ok=csp['ok'])
    ctx.cov['correspondence_scalar_ops'] = dict(func_checks=cs['q_items'], func_ok=cs['q_ok'], abel_goals=cs['goals'],
                                                abel_ok=cs['g_ok'])
    ctx.cov.update(traces_validated_against_impl=cp['func_ok'] + cp['abel_ok'] + ca['ok'] + cs['q_ok'] + cs['g_ok'] + csp['ok'],
                   correspondence=dict(polynomial_objects=cp['n_obj'], func_ok=cp['func_ok'], abel_goals=cp['abel_goals'],
                                       abel_ok=cp['abel_ok'], angular_cases=ca['n'], angular_ok=ca['ok'],
                                       approx_gaussian_random_tols=cg['tols'], approx_gaussian_goals=cg['goals'],
                                       approx_gaussian_table_goals=n_ag_total, approx_gaussian_table_goals_compiled_this_run=n_ag, angular_sub_variant=variant),
                   per_instance_goals=cp['abel_goals'] + cg['goals'] + n_ag + cs['goals'] + csp['goals'])
    # 3. search
    budget = (30 if ctx.quick else 300) * (4 if (broken or corr_bad) else 1)
    hits, n_eval, n_distinct = search(ctx, rng, budget)
    objs = cp['objs']
    ctx.cov.update(evaluations=n_eval + cp['n_obj'] + ca['n'], distinct_nontrivial=n_distinct,
                   rule='search: random Polynomial (grid 3..24 points: pixel, half-pixel, random sorted, random increments; '
                        'degree <= 8, zero/trailing-zero coefficients, r_min < 0, r_max beyond the grid, r_max <= 0, shift, '
                        'stretch of both signs, reduced on/off), SPolynomial on rcos images 3..6 x 3..6 with integer and '
                        'fractional origins and on 1-D (r, cos) arrays, piecewise sums, copies/scalar multiplication, Angular '
                        'operations at 5 random cos values, B-splines of degree 1..5, ApproxGaussian at log-uniform tol; '
                        'limits are equal to a grid value or >= 1e-3 (relative) away from every grid value; distinct = '
                        'distinct option/shape classes',
                   input_distribution=dict(
                       reduced=sum(1 for o in objs if o[0][6]), shifted=sum(1 for o in objs if o[0][4] != 0),
                       stretched=sum(1 for o in objs if o[0][5] != 1), negative_s=sum(1 for o in objs if o[0][5] < 0),
                       negative_rmin=sum(1 for o in objs if o[0][1] < 0), rmax_beyond_grid=sum(1 for o in objs if o[0][2] > o[0][0][-1]),
                       zero_objects=sum(1 for o in objs if not np.any(o[1]) and not np.any(o[2]))),
                   samples=[dict(grid=o[0][0].tolist(), r_min=o[0][1], r_max=o[0][2], c=o[0][3].tolist(), r_0=o[0][4],
                                 s=o[0][5], reduced=o[0][6], func=o[1].tolist(), abel=o[2].tolist()) for o in objs[:3]],
                   exhaustive=False)
    new = 0
    seen = set()
    for h in hits:
        if h.key in seen:
            continue
        seen.add(h.key)
        if ctx.report_hit(h):
            new += 1
    if gen_err and new == 0:
        ctx.report_broken('translator', gen_err[0][0], gen_err[0][1])
    if not pr['ok'] and new == 0:
        ctx.report_broken('proof', pr['broken'] or 'props/C10.v', pr['error'] or '')
    if corr_bad and new == 0:
        detail = []
        if cp['func_bad']:
            a = objs[cp['func_bad'][0]][0]
            detail.append('func disagrees for Polynomial(r=%r, r_min=%r, r_max=%r, c=%r, r_0=%r, s=%r, reduced=%r)'
                          % (a[0].tolist(), a[1], a[2], a[3].tolist(), a[4], a[5], a[6]))
        if cp['abel_bad']:
            oi, i = cp['abel_bad'][0]
            a = objs[oi][0]
            detail.append('abel[%d] not within tolerance of the model for Polynomial(r=%r, r_min=%r, r_max=%r, c=%r, r_0=%r, '
                          's=%r, reduced=%r): impl %r' % (i, a[0].tolist(), a[1], a[2], a[3].tolist(), a[4], a[5], a[6],
                                                          float(objs[oi][2][i])))
        if ca['bad']:
            detail.append('Angular case %r' % (ca['descr'][ca['bad'][0]],))
        if csp['bad']:
            detail.append('SPolynomial abel not within tolerance of the model (shape, pixel, r_min, r_max, c, r_0, s, r, cos): %r'
                          % (csp['bad'][0],))
        for e in csp['errors'][:1]:
            detail.append('coq error in %s: %s' % e)
        if cs['bad']:
            detail.append('scalar operator on PiecewisePolynomial (op, a, pieces, grid, part): %r' % (cs['bad'][0],))
        for e in cs['errors'][:1]:
            detail.append('coq error in %s: %s' % e)
        if cg['bad']:
            detail.append('ApproxGaussian(tol=%r): a segment goal failed: %s' % cg['bad'][0])
        for e in (cp['errors'] + ca['errors'])[:1]:
            detail.append('coq error in %s: %s' % e)
        ctx.report_broken('correspondence',
                          'model/Poly.v, AbelPoly.v, Angular.v vs abel/tools/polynomial.py '
                          '(func %d, abel %d, angular %d disagreements)'
                          % (len(cp['func_bad']), len(cp['abel_bad']), len(ca['bad'])), '; '.join(detail))
    ctx.assumptions += [
        'THEOREMS (all inputs): shift/stretch coefficient transforms (any commutative ring); func = polynomial on '
        '[max(r_min,0), r_max) and 0 outside for any ascending non-negative grid; a(k) antiderivative for all k; abel = '
        'Abel(func) at every grid point for every degree, shift, stretch s<>0, reduced on/off, r_max <= R_m; piecewise sums; '
        'Angular add/sub/mul/scal/cos/cossin/legendre evaluation homomorphisms',
        'PER-INSTANCE machine-checked goals: Polynomial.abel sampled grid points (Interval), ApproxGaussian segments for 7 '
        'tabulated and the sampled tolerances (Interval); ApproxGaussian for all tol is not a theorem (node search not modelled)',
        'SPolynomial: theorems for every pixel (antiderivative families for all k, .abel = Abel2); tie: .abel at sampled '
        'pixels by Interval goals against the model (arctangent form proved equal to the arccos form of the code)',
        'ONLY SWEPT NUMERICALLY (scipy quadrature, rtol 1e-9 of the absolute terms): SPolynomial.func, PiecewiseSPolynomial '
        'as a sum, bspline (relies on scipy PPoly.from_spline), copy independence (memory)',
        'tolerances: func 1e-11, abel 1e-10 relative to the sum of the absolute values of the terms the code adds; limits '
        'closer than 1e-3 (relative) to a grid value but not equal to it are not generated (sqrt cancellation)',
    ]
