# C11_oracle.py — the clauses of C11 evaluated directly on the implementation:
# .abel of every shipped analytical object against scipy quadrature of the
# line-of-sight integral of its .func.  Concatenated after C10_oracle.py (uses
# its _quad, _cmp, poly_reference) in C11.py and in every replay snippet.

RTOL_EXACT = 1e-9        # closed-form objects: relative to max |abel| of the object (and the local value)
P4_ABS = 1.5e-6          # recorded finding: TransformPair profile 4 (rounded published constants)


def _los(f, x, ymax, pts=None):
    """2 * int_0^ymax f(sqrt(x^2+y^2)) dy with optional break points in y"""
    from scipy import integrate as _i
    if not ymax > 0:
        return 0.0
    pts = sorted(p for p in (pts or []) if 0 < p < ymax)
    v, _ = _i.quad(lambda y: f(np.hypot(x, y)), 0, ymax, points=pts or None, epsabs=0, epsrel=1e-13, limit=400)
    return 2 * v


def _grid_ok(obj, n, r_max, symmetric):
    r = np.asarray(obj.r, float)
    if r.shape != (n,):
        return False, 'r has shape %r' % (r.shape,)
    lo = -r_max if symmetric else 0.0
    ref = lo + np.arange(n) * ((r_max - lo) / (n - 1))
    if not np.allclose(r, ref, rtol=1e-13, atol=1e-13 * r_max):
        return False, 'r is not linspace(%r, %r, %d)' % (lo, r_max, n)
    if abs(obj.dr - (r_max - lo) / (n - 1)) > 1e-13 * r_max:
        return False, 'dr = %r' % obj.dr
    if symmetric and not np.allclose(r, -r[::-1], rtol=0, atol=1e-13 * r_max):
        return False, 'r is not symmetric'
    return True, ''


def cl_step(n, r_max, r1, r2, A0, ratio, symmetric):
    from abel.tools.analytical import StepAnalytical
    S = StepAnalytical(n, r_max, r1, r2, A0, ratio, symmetric)
    ok, d = _grid_ok(S, n, r_max, symmetric)
    if not ok:
        return ok, d
    r = np.abs(S.r)
    func = np.where((r > r1) & (r < r2), A0, 0.0)
    if S.func.shape != (n,):
        return False, 'func has shape %r' % (S.func.shape,)
    diff = S.func != func
    if np.any(diff):
        # The class decides membership by | |r| - (r1+r2)/2 | < (r2-r1)/2.  When (r1+r2)/2 or (r2-r1)/2 is not exactly
        # representable, a sample lying exactly on a bound may fall on either side by rounding (a single point of the
        # discontinuity; the projection is not affected).  Only then, and only there, either value is accepted.
        from fractions import Fraction as _F
        exact = (_F(0.5 * (r1 + r2)) == (_F(r1) + _F(r2)) / 2) and (_F(0.5 * (r2 - r1)) == (_F(r2) - _F(r1)) / 2)
        on_bound = (np.abs(r - r1) <= 4e-16 * max(abs(r1), 1e-300)) | (np.abs(r - r2) <= 4e-16 * abs(r2))
        if exact or np.any(diff & ~on_bound) or not np.all(np.isin(S.func[diff], [0.0, A0])):
            return False, 'func is not A0 on (r1, r2) and 0 elsewhere'
    ref = np.array([_los(lambda R: A0 if r1 < R < r2 else 0.0, x, np.sqrt(max(r_max**2 * 4 - x * x, 0)),
                         [np.sqrt(max(r1**2 - x * x, 0)), np.sqrt(max(r2**2 - x * x, 0))]) for x in r])
    scale = abs(A0) * 2 * r2 * np.ones(n)
    ok, d = _cmp('abel', S.abel, ref, scale, RTOL_EXACT)
    if not ok:
        return ok, d
    mv = np.abs(r - 0.5 * (r1 + r2)) < ratio * 0.5 * (r2 - r1)
    if not np.array_equal(np.asarray(S.mask_valid, bool), mv):
        return False, 'mask_valid'
    if symmetric and not (np.array_equal(S.func, S.func[::-1]) and np.allclose(S.abel, S.abel[::-1], rtol=1e-15)):
        return False, 'func/abel not symmetric'
    return True, ''


def cl_gaussian(n, r_max, sigma, A0, ratio, symmetric):
    from abel.tools.analytical import GaussianAnalytical
    G = GaussianAnalytical(n, r_max, sigma, A0, ratio, symmetric)
    ok, d = _grid_ok(G, n, r_max, symmetric)
    if not ok:
        return ok, d
    r = np.abs(G.r)
    f = lambda R: A0 * np.exp(-R**2 / sigma**2)
    ok, d = _cmp('func', G.func, f(r), abs(A0) * np.ones(n), 1e-13)
    if not ok:
        return ok, d
    # the function is not truncated at r_max: integrate far into the tail
    ref = np.array([_los(f, x, 12 * sigma + 0 * x, [sigma, 3 * sigma]) for x in r])
    ok, d = _cmp('abel', G.abel, ref, abs(A0) * sigma * 2 * np.ones(n), RTOL_EXACT)
    if not ok:
        return ok, d
    mv = (r < ratio * sigma) & (r > 0)
    if not np.array_equal(np.asarray(G.mask_valid, bool), mv):
        return False, 'mask_valid'
    return True, ''


def cl_poly_wrapper(n, r_max, ranges, symmetric, piecewise):
    from abel.tools import analytical as an
    if piecewise:
        P = an.PiecewisePolynomial(n, r_max, [(a, b, np.asarray(c, float), r0, s, red) for (a, b, c, r0, s, red) in ranges],
                                   symmetric=symmetric)
    else:
        a, b, c, r0, s, red = ranges[0]
        P = an.Polynomial(n, r_max, a, b, np.asarray(c, float), r0, s, red, symmetric=symmetric)
    ok, d = _grid_ok(P, n, r_max, symmetric)
    if not ok:
        return ok, d
    if P.func.shape != (n,) or P.abel.shape != (n,):
        return False, 'func/abel have shapes %r, %r for n = %d' % (P.func.shape, P.abel.shape, n)
    r = np.abs(P.r)
    func = np.zeros(n); ab = np.zeros(n); fs = np.zeros(n); as_ = np.zeros(n)
    half = r[n // 2:] if symmetric else r
    for (a, b, c, r0, s, red) in ranges:
        f1, a1, s1, s2 = poly_reference(r, a, b, c, r0, s)
        s3, s4 = poly_scales(half, a, b, c, r0, s, red)
        if symmetric:
            s3 = np.concatenate([s3[:0:-1], s3]); s4 = np.concatenate([s4[:0:-1], s4])
        func += f1; ab += a1; fs += s1 + s3; as_ += s2 + s4
    ok, d = _cmp('func', P.func, func, fs, RTOL_FUNC * 100)
    if not ok:
        return ok, d
    ok, d = _cmp('abel', P.abel, ab, as_, RTOL_ABEL)
    if not ok:
        return ok, d
    if not np.all(np.asarray(P.mask_valid) == 1):
        return False, 'mask_valid'
    return True, ''


def _profile_ref(k, x):
    """projection of the source of profile k at x by quadrature"""
    from abel.tools import transform_pairs as tp
    prof = getattr(tp, 'profile%d' % k)
    src = lambda R: float(prof(np.array([min(max(R, 1e-300 if k in (1, 4) else 0.0), 1.0)]))[0][0])
    brk = {1: 0.25, 3: 0.5, 4: 0.7}.get(k)
    pts = [np.sqrt(brk * brk - x * x)] if (brk and x < brk) else []
    ymax = np.sqrt(1 - x * x)
    if k == 6:
        # the source is singular-looking but tiny near r = 1: stop where it underflows
        pts = pts + [ymax * 0.5, ymax * 0.9, ymax * 0.99]
    return _los(src, x, ymax, pts)


def cl_profile(k, xs):
    """transform_pairs.profile<k>(r): projection = Abel projection of source"""
    from abel.tools import transform_pairs as tp
    xs = np.asarray(xs, float)
    src, prj = getattr(tp, 'profile%d' % k)(xs)
    if src.shape != xs.shape or prj.shape != xs.shape:
        return False, 'shapes'
    ref = np.array([_profile_ref(k, x) for x in xs])
    tol_abs = RTOL_EXACT * 2.0
    d = np.abs(prj - ref)
    if np.any(d > tol_abs):
        i = int(np.argmax(d))
        return False, 'projection(%r) = %r, Abel projection of source = %r (|diff| = %.3g, allowed %.3g)' % (
            float(xs[i]), float(prj[i]), float(ref[i]), float(d[i]), tol_abs)
    return True, ''


def cl_transform_pair(n, k):
    from abel.tools.analytical import TransformPair
    from abel.tools import transform_pairs as tp
    T = TransformPair(n, k)
    ok, d = _grid_ok(T, n, 1.0, False)
    if not ok:
        return ok, d
    r = T.r.copy(); r[0] = 1.0e-8; r[-1] -= 1.0e-8
    s, p = getattr(tp, 'profile%d' % k)(r)
    if not (np.array_equal(T.func, s) and np.array_equal(T.abel, p)):
        return False, 'func/abel are not profile%d(r)' % k
    if T.label != 'profile%d' % k or not np.all(np.asarray(T.mask_valid) == 1):
        return False, 'label/mask_valid'
    idx = list(np.linspace(0, n - 1, min(n, 9)).astype(int))
    for b in (0.25, 0.5, 0.7):          # samples on (or nearest to) the branch points of the piecewise profiles
        j = int(np.argmin(np.abs(r - b)))
        idx += [j, max(j - 1, 0), min(j + 1, n - 1)]
    idx = np.unique(idx)
    ref = np.array([_profile_ref(k, r[i]) for i in idx])
    d = np.abs(T.abel[idx] - ref)
    if np.any(d > RTOL_EXACT * 2.0):
        i = int(np.argmax(d))
        return False, 'abel[%d] = %r, Abel projection of func = %r (|diff| = %.3g, allowed %.3g)' % (
            int(idx[i]), float(T.abel[idx[i]]), float(ref[i]), float(d[i]), RTOL_EXACT * 2.0)
    return True, ''


def _sample_peaks(S):
    """(A, r0 [px], width, angular coeffs) as the class stores them"""
    return [(float(A), float(r0) * S._scale, float(w), [float(c) for c in cn]) for (A, r0, w, cn) in S._peaks]


def _sample_make(name, n, sigma, temperature):
    from abel.tools.analytical import SampleImage
    kw = {}
    if sigma is not None:
        kw['sigma'] = sigma
    if name.lower() in ('ominus', 'o-'):
        kw['temperature'] = temperature
    return SampleImage(n, name, **kw)


def _sample_reference(S, pixels):
    """Per pixel: (func by definition, projection of func by quadrature, bound per unit tol, amplitude scale)."""
    n = S.n
    peaks = _sample_peaks(S)
    o2 = S.name == 'O2'

    def ring(R, r0, w):
        if o2:
            dr = abs(R - r0) / (2 * w)
            return 1 - (3 - 2 * dr) * dr**2 if dr <= 1 else 0.0
        return np.exp(-((R - r0) / w)**2)

    def f(R, C):
        return sum(A * ring(R, r0, w) * sum(c * C**k for k, c in enumerate(cn)) for (A, r0, w, cn) in peaks)
    c0 = (n - 1) / 2
    amax = max(abs(A) * sum(abs(c) for c in cn) for (A, r0, w, cn) in peaks)
    out = []
    for (i, j) in pixels:
        row, col = i - c0, j - c0
        r = np.hypot(row, col)
        cs = -row / r if r else 0.0
        z = r * cs
        tot = 0.0
        bound = 0.0
        for (A, r0, w, cn) in peaks:
            ang = lambda R: sum(c * (z / R if R > 0 else 0.0)**k for k, c in enumerate(cn))
            ext = 2 * w if o2 else 9 * w
            Rhi = r0 + ext
            if Rhi <= r:
                continue
            ymax = np.sqrt(Rhi**2 - r * r)
            pts = [np.sqrt(t * t - r * r) for t in (r0 - ext, r0 - 3 * w, r0 - w, r0, r0 + w, r0 + 3 * w) if t > r]
            tot += _los(lambda R: A * ring(R, r0, w) * ang(R), r, ymax, pts)
            sw = w / np.sqrt(2)
            bound += abs(A) * sum(abs(c) for c in cn) * 1.08 * (2 * np.sqrt(max((r0 + 4.5 * sw)**2 - r * r, 0.0)) + 4 * w)
        out.append((f(r, cs), tot, bound, amax))
    return out


def _sample_abel_ok(S, ab, tol, pixels, ref, what='abel'):
    exact = S.name in ('O2', 'Gaussian')
    for (i, j), (ref_f, tot, bound, amax) in zip(pixels, ref):
        allowed = RTOL_EXACT * (abs(tot) + amax) + (0.0 if exact else bound * tol)
        if abs(ab[i, j] - tot) > allowed:
            return False, '%s[%d,%d] = %r, projection of func = %r (|diff| = %.3g, allowed %.3g for tol = %g)' % (
                what, i, j, float(ab[i, j]), tot, abs(ab[i, j] - tot), allowed, tol)
    return True, ''


def cl_sample_image(name, n, sigma, temperature, tol, pixels):
    """SampleImage(n, name): func is the stated sum of rings; abel (transform(tol)) is the projection of func
    within the tolerance-derived bound (exactly for 'Gaussian' and 'O2')."""
    S = _sample_make(name, n, sigma, temperature)
    ok, d = _grid_ok(S, n, (n - 1) / 2, True)
    if not ok:
        return ok, d
    ref = _sample_reference(S, pixels)
    ab = S.transform(tol)
    if S.func.shape != (n, n) or ab.shape != (n, n):
        return False, 'shapes'
    for (i, j), (ref_f, tot, bound, amax) in zip(pixels, ref):
        if abs(S.func[i, j] - ref_f) > 1e-11 * amax:
            return False, 'func[%d,%d] = %r, sum of rings = %r' % (i, j, float(S.func[i, j]), ref_f)
    ok, d = _sample_abel_ok(S, ab, tol, pixels, ref)
    if not ok:
        return ok, d
    # symmetric layout of the unfolded image
    if not (np.array_equal(S.func, S.func[::-1]) and np.array_equal(S.func, S.func[:, ::-1])
            and np.array_equal(ab, ab[::-1]) and np.array_equal(ab, ab[:, ::-1])):
        return False, 'image not symmetric'
    return True, ''


DEFAULT_TOL = 4.8e-3


def cl_sample_history(name, n, sigma, temperature, ops, pixels):
    """A sequence of operations on ONE SampleImage object (reads of .abel / .func, transform(tol) with tolerances in
    any order, repeated, decreasing, increasing): every returned and every stored abel meets the tolerance last
    requested (the default 4.8e-3 when .abel is read first), and equals what a fresh object returns for that tolerance;
    func is never changed."""
    S = _sample_make(name, n, sigma, temperature)
    ref = _sample_reference(S, pixels)
    func0 = S.func.copy()
    fresh = {}
    last = None
    for step, op in enumerate(ops):
        if op[0] == 'func':
            if not np.array_equal(S.func, func0):
                return False, 'step %d: func changed' % step
            continue
        if op[0] == 'read':
            ab = S.abel
            if last is None:
                last = DEFAULT_TOL
            what = 'step %d (.abel after tol %g)' % (step, last)
        elif op[0] == 'transform':
            last = float(op[1])
            ab = S.transform(last)
            what = 'step %d (transform(%g))' % (step, last)
            if not np.array_equal(S.abel, ab):
                return False, what + ': .abel differs from the returned array'
        else:
            raise ValueError(op)
        ok, d = _sample_abel_ok(S, ab, last, pixels, ref, what + ' abel')
        if not ok:
            return ok, d
        if last not in fresh:
            fresh[last] = _sample_make(name, n, sigma, temperature).transform(last)
        if not np.array_equal(ab, fresh[last]):
            k = np.unravel_index(int(np.argmax(np.abs(ab - fresh[last]))), ab.shape)
            return False, what + ': differs from transform(%g) of a fresh object (max |diff| = %.3g at %s)' % (
                last, float(np.max(np.abs(ab - fresh[last]))), k)
        if not np.array_equal(S.func, func0):
            return False, what + ': func changed'
    return True, ''


CLAUSES.update(step=cl_step, gaussian=cl_gaussian, poly_wrapper=cl_poly_wrapper, profile=cl_profile,
               transform_pair=cl_transform_pair, sample_image=cl_sample_image, sample_history=cl_sample_history)
