# C09 — every basis projection and deconvolution-operator element equals its
# defining Abel integral (basex, daun degrees 0-3, rbasex orders 0..8, dasch).
#
#   theorems       coq/props/C09.v (daun degree 0, 1, 2 entries, Hermite p/q of degree 3, onion-peeling W =
#                  transposed degree-0 matrix, two_point / three_point operator entries of
#                  every row i >= 1, rbasex orders 0..8), all indices and sizes, about the
#                  formulas that tools/translate/formulas_basis.py regenerates from
#                  abel/dasch.py, abel/daun.py, abel/rbasex.py on every run
#                  (coq/gen/FormulasBasis.v);
#   tie            (a) translation validation: every generated definition evaluated inside
#                  Coq (Interval) at sampled arguments must enclose the float the Python
#                  code returns there; (b) the intermediate representation evaluated in
#                  binary64 in source order is compared with the implementation's matrices at
#                  all entries for n <= 24 (index structure of the assembly);
#   instances      per-instance machine-checked goals |entry - 2*RInt(...)| <= tol by the
#                  `integral` tactic for the Hermite functions of daun degree 3 (and a few
#                  entries of daun 1/2 and rbasex), basex rho_k by `interval` (labelled
#                  instances);
#   search         scipy quadrature of the defining integrals against the implementation
#                  (tools/oracle/c09_quad.py), independent of model and translator.
from __future__ import annotations

import json
import math
import os
import sys
import time
import warnings
from fractions import Fraction

import numpy as np

import vlib
from vlib import Hit

LEVEL = 'proof'

TOL_REL = Fraction(1, 2 ** 40)


# ---------------------------------------------------------------------------
# helpers: rational literals for Coq reals
# ---------------------------------------------------------------------------
def rlit(x):
    f = Fraction(x)
    if f.denominator == 1:
        return '%d' % f.numerator if f.numerator >= 0 else '(%d)' % f.numerator
    if f.numerator < 0:
        return '(- (%d / %d))' % (-f.numerator, f.denominator)
    return '(%d / %d)' % (f.numerator, f.denominator)


def up_pow2(x):
    """smallest power of two >= x as a Fraction (keeps the literals short)"""
    x = float(x)
    if not (x > 0) or not math.isfinite(x):
        return Fraction(1, 2 ** 1000)
    e = math.ceil(math.log2(x))
    return Fraction(2) ** e


TV_HEADER = '''From Coq Require Import Reals ZArith Bool.
From Coquelicot Require Import Coquelicot.
From Interval Require Import Tactic.
From PA Require Import model.Abel gen.FormulasBasis.
Open Scope R_scope.
Ltac evalconds := repeat match goal with
  |- context [if ?c then _ else _] => let b := eval vm_compute in c in change c with b; cbv iota end.
Ltac evalz := repeat match goal with
  | |- context [IZR (?a - ?b)%Z] => let z := eval vm_compute in (a - b)%Z in change (a - b)%Z with z
  | |- context [IZR (?a + ?b)%Z] => let z := eval vm_compute in (a + b)%Z in change (a + b)%Z with z
  end.
Ltac acos2atan := repeat match goal with
  |- context [acos ?x] => rewrite (acos_atan x) by interval end; unfold Rsqr.
Ltac tv := repeat autounfold with c09defs; evalconds; evalz; acos2atan; interval with (i_prec 90).
(* no Ltac timeout: a wrong value makes `integral` use up its fuel (about 25 s of CPU), which is
   deterministic and independent of the load of the machine.
   the upper limit must not contain the literal 0 (= the lower limit): Interval 4.6 fails to
   reify the goal otherwise; zeros outside binders are simplified first *)
Ltac inst := unfold rbasex_proj; unfold Abel, AbelW, tri, quad2, herm_p, herm_q, pos; cbv beta;
  rewrite ?Rmult_0_l, ?Rmult_0_r, ?Rplus_0_l, ?Rminus_0_r;
  integral with (i_prec 60, i_fuel 500, i_degree 6).
'''


def lemma(k, stmt, tac):
    """Qed-checked, never failing: the message C09OK k is printed only when the
    tactic proved the left disjunct (the statement); the kernel then checks
    or_introl of that proof."""
    return ('Lemma g%d : (%s) \\/ True.\nProof. first [ left; %s; idtac "C09OK %d" | right; exact I ]. Qed.\n'
            % (k, stmt, tac, k))


def run_goal_files(prefix, goals, per_file=8, timeout=900):
    """goals: list of (tag, statement, tactic).  Compiles them in parallel files;
    returns (n_ok, failed tags, errors)."""
    import re
    files = []
    cdir = os.path.join(vlib.COQ, 'cases')
    if os.path.isdir(cdir):
        for f in os.listdir(cdir):          # stale files of earlier runs
            if f.startswith(prefix + '_'):
                try:
                    os.remove(os.path.join(cdir, f))
                except OSError:
                    pass
    for k in range(0, len(goals), per_file):
        chunk = goals[k:k + per_file]
        text = TV_HEADER + '\n'.join(lemma(k + m, st, tac) for m, (tag, st, tac) in enumerate(chunk))
        files.append(('%s_%03d' % (prefix, k // per_file), text, chunk, k))
    res = vlib.coq_eval_many([(n, t) for n, t, _, _ in files], timeout=timeout)
    failed, errors, n_ok = [], [], 0
    for name, text, chunk, k in files:
        rc, out = res[name]
        oks = set(int(x) for x in re.findall(r'C09OK (\d+)', out))
        for m, (tag, st, tac) in enumerate(chunk):
            if rc == 0 and (k + m) in oks:
                n_ok += 1
            else:
                failed.append(tag)
                errors.append((tag, ('coqc rc=%d ' % rc) + out[-300:] if rc != 0 else 'tactic failed or timed out: ' + st[:300]))
    return n_ok, failed, errors


# ---------------------------------------------------------------------------
# implementation access
# ---------------------------------------------------------------------------
def impl_matrices(n):
    import abel.dasch as da
    import abel.daun as dn
    out = {'two_point': da._bs_two_point(n), 'three_point': da._bs_three_point(n),
           'onion_D': da._bs_onion_peeling(n)}
    for deg in range(4):
        out['daun%d' % deg] = dn._bs_daun(n, deg)
    return out


def daun3_from_ir(fb, D, n):
    """degree 3: A = P3 + spline correction computed from Q3 exactly as
    _bs_daun does (solve_banded on 3*B) — P3, Q3 from the translated formulas."""
    from scipy.linalg import solve_banded
    A = np.empty((n, n)); B = np.empty((n, n)); EA = np.empty((n, n))
    for j in range(n):
        for i in range(n):
            A[j, i], EA[j, i] = fb.ev(D['daun_p3'][1], dict(i=i, j=j), D)
            B[j, i], _ = fb.ev(D['daun_q3'][1], dict(i=i, j=j), D)
    if n >= 3:
        C = solve_banded((1, 1), ([0] + [1] * (n - 2) + [0], [4] * n, [0] + [1] * (n - 2) + [0]), 3 * B)[1:-1, 1:-1]
        A[2:, 1:-1] += C
        A[:-2, 1:-1] -= C
    return A, EA


def structure_check(fb, D, info, sizes, rng):
    """IR (binary64, source order) against the implementation, all entries."""
    import abel.rbasex as rb
    bad = []
    n_eval = 0
    for n in sizes:
        M = impl_matrices(n)
        for name, key in (('two_point_D', 'two_point'), ('three_point_D', 'three_point')):
            for i in range(n):
                for j in range(n):
                    v, e = fb.ev(D[name][1], dict(cols=n, i=i, j=j), D)
                    n_eval += 1
                    if not abs(v - M[key][i, j]) <= 16 * e + 1e-300:
                        bad.append((name, n, i, j, v, float(M[key][i, j])))
        W = np.array([[fb.ev(D['onion_W'][1], dict(cols=n, i=i, j=j), D)[0] for j in range(n)] for i in range(n)])
        n_eval += n * n
        R = M['onion_D'] @ W - np.eye(n)
        if info['onion']['result'] != 'inv' or not np.abs(R).max() <= 1e-10 * n:
            bad.append(('onion_W', n, -1, -1, float(np.abs(R).max()), 0.0))
        for deg in range(3):
            nm = 'daun_p%d' % deg
            for j in range(n):
                for i in range(n):
                    v, e = fb.ev(D[nm][1], dict(i=i, j=j), D)
                    n_eval += 1
                    if not abs(v - M['daun%d' % deg][j, i]) <= 16 * e + 1e-300:
                        bad.append((nm, n, j, i, v, float(M['daun%d' % deg][j, i])))
        A3, E3 = daun3_from_ir(fb, D, n)
        n_eval += n * n
        d3 = np.abs(A3 - M['daun3'])
        if not (d3 <= 64 * E3 + 1e-12).all():
            j, i = np.unravel_index(np.argmax(d3), d3.shape)
            bad.append(('daun_p3/q3+spline', n, int(j), int(i), float(A3[j, i]), float(M['daun3'][j, i])))
    # basex: tabulated rho_k(r_i)
    import abel.basex as bx
    for sigma in (1.0, 0.75, 2.5):
        nb = 24
        M, Mc = bx._bs_basex(nb, sigma, verbose=False)
        for k in range(Mc.shape[1]):
            for i in range(nb):
                if k == 0:
                    v, e = fb.ev(D['basex_Mc0'][1], dict(sigma=sigma, i=i), D)
                elif i == 0:
                    v, e = 0.0, 0.0
                else:
                    v, e = fb.ev(D['basex_Mck'][1], dict(k=k, sigma=sigma, i=i), D)
                n_eval += 1
                if not abs(v - Mc[i, k]) <= 16 * e + 1e-300:
                    bad.append(('basex_Mc(sigma=%s)' % sigma, nb, i, k, v, float(Mc[i, k])))
    # rbasex: all orders, both parities
    Rmax = max(sizes)
    for odd in (False, True):
        P = rb._bs_rbasex(Rmax, 8, odd)
        orders = list(range(0, 9, 1 if odd else 2))
        for idx, n in enumerate(orders):
            for r in range(1, Rmax + 1):
                for Rc in range(r, Rmax + 1):
                    v, e = fb.ev(D['rbasex_p%d' % n][1], dict(Rc=Rc, r=r), D)
                    n_eval += 1
                    if not abs(v - P[idx][Rc, r]) <= 16 * e + 1e-300:
                        bad.append(('rbasex_p%d' % n, Rmax, Rc, r, v, float(P[idx][Rc, r])))
            # column r = 0 and the part above the diagonal are constants of the code
            col0 = P[idx][:, 0]
            exp0 = np.zeros(Rmax + 1)
            exp0[0] = 1.0
            if n == 0:
                exp0[1:] = 2.0
            if not np.array_equal(col0, exp0) or np.abs(np.triu(P[idx], 1)).max() != 0:
                bad.append(('rbasex_col0/upper%d' % n, Rmax, 0, 0, 0.0, 0.0))
    return bad, n_eval


# ---------------------------------------------------------------------------
# sampled arguments
# ---------------------------------------------------------------------------
def sample_pairs(rng, n, k, lower=False):
    """special + random (a, b) index pairs, 0 <= a, b < n"""
    sp = [(0, 0), (0, 1), (0, 2), (1, 0), (1, 1), (1, 2), (1, 3), (2, 1), (2, 2), (3, 1), (n - 1, n - 1),
          (n - 2, n - 1), (n - 1, n - 2), (1, n - 1), (0, n - 1), (n - 1, 0)]
    sp = [(a, b) for a, b in sp if 0 <= a < n and 0 <= b < n]
    out = list(dict.fromkeys(sp))
    while len(out) < k + len(sp):
        a, b = int(rng.integers(n)), int(rng.integers(n))
        if rng.random() < 0.4:
            b = min(n - 1, max(0, a + int(rng.integers(-2, 3))))
        out.append((a, b))
    return out


def tv_goals(fb, D, info, rng, quick):
    """translation-validation goals: generated definition at literal arguments
    encloses the float of the implementation (dasch, daun 0-2, rbasex) or of the
    IR evaluation (degree-3 p/q, whose tie to the implementation is the
    all-entries structure check through the spline solve)."""
    import abel.dasch as da
    import abel.daun as dn
    import abel.rbasex as rb
    goals = []
    samples = []
    nbig = 300
    nsm = 9 if quick else 24      # thorough: every entry of the 24 x 24 matrices is validated inside Coq

    def add(tag, call, v, err):
        tol = up_pow2(float(TOL_REL) * abs(v) + 16 * err + 1e-300)
        goals.append((tag, 'Rabs (%s - %s) <= %s' % (call, rlit(v), rlit(tol)), 'tv'))
        samples.append(dict(goal=tag, value=v, tol=float(tol)))

    for name, gen in (('two_point_D', da._bs_two_point), ('three_point_D', da._bs_three_point)):
        for n, k in ((nsm, 0), (nbig, 4 if quick else 30)):
            M = gen(n)
            prs = sample_pairs(rng, n, k)
            if n == nsm and not quick:
                prs = [(a, b) for a in range(n) for b in range(n)]
            for i, j in prs:
                v, e = fb.ev(D[name][1], dict(cols=n, i=i, j=j), D)
                add('%s(%d,%d,%d)' % (name, n, i, j), '%s %d %d %d' % (name, n, i, j), float(M[i, j]), e)
    # onion W: compare with the IR value (the implementation only returns inv(W); tie: D @ W = 1)
    for i, j in sample_pairs(rng, nsm, 0)[:8] + sample_pairs(rng, nbig, 3)[-3:]:
        n = nsm if max(i, j) < nsm else nbig
        v, e = fb.ev(D['onion_W'][1], dict(cols=n, i=i, j=j), D)
        add('onion_W(%d,%d,%d)' % (n, i, j), 'onion_W %d %d %d' % (n, i, j), v, e)
    for deg in range(3):
        for n, k in ((nsm, 0), (nbig, 3 if quick else 30)):
            A = dn._bs_daun(n, deg)
            prs = sample_pairs(rng, n, k)
            if quick and n == nsm:
                prs = prs[:10]
            if n == nsm and not quick:
                prs = [(a, b) for a in range(n) for b in range(n)]
            for j, i in prs:
                v, e = fb.ev(D['daun_p%d' % deg][1], dict(i=i, j=j), D)
                add('daun_p%d(%d,%d)' % (deg, j, i), 'daun_p%d %d %d' % (deg, j, i), float(A[j, i]), e)
    for nm in ('daun_p3', 'daun_q3'):
        prs = sample_pairs(rng, nsm, 0)[:8] + sample_pairs(rng, nbig, 2 if quick else 20)[-(2 if quick else 20):]
        for j, i in prs:
            v, e = fb.ev(D[nm][1], dict(i=i, j=j), D)
            add('%s(%d,%d)' % (nm, j, i), '%s %d %d' % (nm, j, i), v, e)
    Rm = 40 if quick else 120
    for odd in (False, True):
        P = rb._bs_rbasex(Rm, 8, odd)
        for idx, n in enumerate(range(0, 9, 1 if odd else 2)):
            if odd and n % 2 == 0:
                continue      # even orders are taken from the even-only basis
            prs = [(1, 1), (2, 1), (3, 2), (Rm, Rm), (Rm, 1)]
            prs += [(int(a), int(b)) for a, b in [sorted(rng.integers(1, Rm + 1, 2), reverse=True)
                                                  for _ in range(1 if quick else 6)]]
            for Rc, r in prs:
                v, e = fb.ev(D['rbasex_p%d' % n][1], dict(Rc=Rc, r=r), D)
                add('rbasex_p%d(%d,%d)' % (n, Rc, r), 'rbasex_p%d %d %d' % (n, Rc, r), float(P[idx][Rc, r]), e)
    # basex: tabulated basis functions rho_k(r_i) (matrix Mc) against the generated basex_Mc0 / basex_Mck
    import abel.basex as bx
    for sigma in (1.0, 0.75, 2.5):
        nb = 30
        M, Mc = bx._bs_basex(nb, sigma, verbose=False)
        nbf = Mc.shape[1]
        sl = rlit(Fraction(sigma))
        prs = [(1, 1), (2, 3), (nbf - 1, nb - 1), (3, 1), (0, 0), (0, 5)]
        prs += [] if quick else [(k, i) for k in (1, 4, nbf - 2) for i in (1, 7, 20)]
        for k, i in prs:
            if not (0 <= k < nbf and 0 <= i < nb) or (k >= 1 and i == 0):
                continue
            if k == 0:
                v, e = fb.ev(D['basex_Mc0'][1], dict(sigma=sigma, i=i), D)
                add('basex_Mc0[s=%s](%d)' % (sigma, i), 'basex_Mc0 %s %d' % (sl, i), float(Mc[i, 0]), e)
            else:
                v, e = fb.ev(D['basex_Mck'][1], dict(k=k, sigma=sigma, i=i), D)
                add('basex_Mck[s=%s](%d,%d)' % (sigma, k, i), 'basex_Mck %d %s %d' % (k, sl, i), float(Mc[i, k]), e)
    return goals, samples


def inst_goals(fb, D, rng, quick):
    """per-instance goals: the float entry of the implementation against the
    defining integral of the model basis function (`integral` tactic)."""
    import abel.daun as dn
    import abel.rbasex as rb
    import abel.basex as bx
    goals, samples = [], []

    def add(tag, v, integ, tol, tac='inst'):
        goals.append((tag, 'Rabs (%s - %s) <= %s' % (rlit(v), integ, rlit(tol)), tac))
        samples.append(dict(goal=tag, value=v, tol=float(tol)))

    n = 60
    A2 = dn._bs_daun(n, 2)
    A1 = dn._bs_daun(n, 1)
    prs = [(0, 0), (1, 0), (1, 1), (2, 1), (2, 2), (3, 1), (5, 4), (5, 5), (n - 1, n - 1), (n - 1, 0), (n - 1, n - 2)]
    prs += [tuple(sorted((int(a), int(b)), reverse=True)) for a, b in rng.integers(0, n, (2 if quick else 25, 2))]
    for j, i in (prs[1:4] + prs[8:9] if quick else prs):
        tol = up_pow2(2.0 ** -30 * max(1.0, float(j + 1) ** 3 * 1e-4))
        add('daun2[%d][%d]' % (j, i), float(A2[j, i]), 'Abel (quad2 %d) (%d + 1) %d' % (j, j, i), tol)
    for j, i in prs[2:4]:
        add('daun1[%d][%d]' % (j, i), float(A1[j, i]), 'Abel (tri %d) (%d + 1) %d' % (j, j, i), Fraction(1, 2 ** 30))
    for nm, fun in (('daun_p3', 'herm_p'), ('daun_q3', 'herm_q')):
        for j, i in (prs[2:4] + prs[8:9] if quick else prs[:9] + prs[11:]):
            v, e = fb.ev(D[nm][1], dict(i=i, j=j), D)
            tol = up_pow2(2.0 ** -30 + 64 * e)
            add('%s[%d][%d]' % (nm, j, i), v, 'Abel (%s %d) (%d + 1) %d' % (fun, j, j, i), tol)
    Rm = 40
    for odd in (False, True):
        P = rb._bs_rbasex(Rm, 8, odd)
        for idx, k in enumerate(range(0, 9, 1 if odd else 2)):
            if odd and k % 2 == 0:
                continue
            prs = [(2, 1), (Rm, 3)] if quick else [(1, 1), (2, 1), (2, 2), (Rm, Rm), (Rm, 3)]
            prs += [tuple(int(x) for x in sorted(rng.integers(1, Rm + 1, 2), reverse=True)) for _ in range(0 if quick else 5)]
            for Rc, r in prs:
                add('rbasex[%d][%d,%d]' % (k, Rc, r), float(P[idx][Rc, r]), 'rbasex_proj %d %d %d' % (k, Rc, r),
                    up_pow2(2.0 ** -30 * max(1.0, Rc)))
    return goals, samples


# ---------------------------------------------------------------------------
# search on the implementation (quadrature, no model)
# ---------------------------------------------------------------------------
SNIPPET = r'''
import sys, math, numpy as np
sys.path.insert(0, %(tools)r)
from oracle import c09_quad as Q
import abel.daun, abel.dasch, abel.rbasex, abel.basex
kind, prm, a, b, tol = %(kind)r, %(prm)r, %(a)d, %(b)d, %(tol)r
if kind == 'daun':
    n, deg = prm
    got = abel.daun._bs_daun(n, deg)[a, b]
    f, Rm, br = Q.daun3_f(n, a) if deg == 3 else Q.daun_f(deg, a)
    ref = Q.los(f, float(b), Rm, br)[0]
elif kind == 'rbasex':
    Rmax, order, odd, idx, n = prm
    got = abel.rbasex._bs_rbasex(Rmax, order, odd)[idx][a, b]
    ref = Q.rbasex_entry(n, a, b)[0]
elif kind == 'basex_chi':
    n, sigma = prm
    got = abel.basex._bs_basex(n, sigma, verbose=False)[0][a, b]
    ref = Q.basex_chi(b, sigma, a)[0]
elif kind == 'basex_rho':
    n, sigma = prm
    got = abel.basex._bs_basex(n, sigma, verbose=False)[1][a, b]
    ref = Q.basex_rho(b, sigma, a)
elif kind in ('two_point', 'three_point', 'onion_peeling'):
    n, = prm
    D = getattr(abel.dasch, '_bs_' + kind)(n)
    e = np.zeros(n); e[b] = 1.0
    if kind == 'onion_peeling':
        # D = inv(W) with W[i][j] = projection at i of the j-th ring: check (W D)[a, b] = delta
        wd, dw = Q.onion_products(D, a, b)
        ref = 1.0 if a == b else 0.0
        got = wd if abs(wd - ref) >= abs(dw - ref) else dw
    else:
        mk = Q.two_point_interp_d if kind == 'two_point' else Q.three_point_interp_d
        d, hi, br = mk(e)
        got = D[a, b]; ref = Q.inv_abel_pieces(d, float(a), 0, hi, br)[0]
print(kind, prm, (a, b), 'implementation', repr(float(got)), 'defining integral', repr(float(ref)), 'tol', tol)
sys.exit(0 if abs(got - ref) <= tol else 1)
'''


ROW_SNIPPET = r'''
import sys, numpy as np
sys.path.insert(0, %(tools)r)
from oracle import c09_quad as Q
import abel.dasch
kind, n, i = %(kind)r, %(n)d, %(i)d
D = getattr(abel.dasch, '_bs_' + kind)(n)
P = np.exp(-((np.arange(n) - 22.0) / 9.0) ** 2) + 0.3 * np.exp(-((np.arange(n) - 40.0) / 3.0) ** 2)
d, hi, br = (Q.two_point_interp_d if kind == 'two_point' else Q.three_point_interp_d)(P)
ref, qe = Q.inv_abel_pieces(d, float(i), 0.0, hi, br)
got = D[i] @ P
print(kind, 'row', i, 'applied to a smooth profile:', repr(float(got)), 'inverse Abel integral of the interpolant:', repr(float(ref)))
sys.exit(0 if abs(got - ref) <= 1e-11 + 10 * qe else 1)
'''


def index_class(a, b, n):
    if a == 0 and b == 0:
        return '00'
    if a == b:
        return 'diag'
    if abs(a - b) == 1:
        return 'offdiag1'
    if a == 0 or b == 0:
        return 'axis'
    if a == n - 1 or b == n - 1:
        return 'last'
    return 'general'


def search(ctx, rng, budget):
    """quadrature of the defining integrals against the implementation's
    matrices at special and random indices (sizes up to 300)."""
    from oracle import c09_quad as Q
    import abel.daun as dn
    import abel.dasch as da
    import abel.rbasex as rb
    import abel.basex as bx
    hits = []
    n_eval = 0
    distinct = set()
    worst = {}

    def mk(kind, prm, a, b, got, ref, tol, n, what):
        key = 'C09:%s:%s:%s' % (kind, ':'.join(str(p) for p in (prm[1:] if kind != 'rbasex' else prm[4:])), index_class(a, b, n))
        snip = SNIPPET % dict(tools=os.path.join(vlib.VERIF, 'tools'), kind=kind, prm=tuple(prm), a=a, b=b, tol=tol)
        return Hit('entry-equals-defining-integral', key, what + ': implementation %r, defining integral %r (|diff| %.3g > tol %.3g)'
                   % (float(got), float(ref), abs(got - ref), tol), snip,
                   dict(kind=kind, parameters=list(prm), index=[a, b], value=float(got), quadrature=float(ref), tol=tol))

    def note(kind, d, tol):
        worst[kind] = max(worst.get(kind, 0.0), d / tol)

    def idx(n, k):
        return sample_pairs(rng, n, k)

    # daun
    for deg in range(4):
        for n in ((7, 300) if deg < 3 else (6, 40, 120 if budget > 1 else 60)):
            A = dn._bs_daun(n, deg)
            k = (6 if deg < 3 else 2) * budget
            prs = idx(n, k)
            if deg == 3 and n > 40:
                prs = prs[-k:] + [(n - 1, n - 1), (n - 1, 0), (1, 1), (0, 0), (n - 2, n - 1)]
            for j, i in prs:
                f, Rm, br = Q.daun3_f(n, j) if deg == 3 else Q.daun_f(deg, j)
                ref, qe = Q.los(f, float(i), Rm, br)
                jj = n if deg == 3 else j + 1
                tol = 1e-13 * float(jj) ** (deg + 1) + 1e-11 + 10 * qe
                n_eval += 1
                distinct.add(('daun', deg, index_class(j, i, n), n > 40))
                note('daun%d' % deg, abs(A[j, i] - ref), tol)
                if not abs(A[j, i] - ref) <= tol:
                    hits.append(mk('daun', (n, deg), j, i, A[j, i], ref, tol, n,
                                   'daun degree %d basis projection A[%d][%d] (n=%d)' % (deg, j, i, n)))
    # rbasex
    for odd in (False, True):
        for Rmax in (6, 300):
            order = 8
            P = rb._bs_rbasex(Rmax, order, odd)
            for ix, n in enumerate(range(0, order + 1, 1 if odd else 2)):
                prs = [(a, b) for a, b in idx(Rmax + 1, 2 * budget) if b <= a and not (a == 0 and b == 0 and n > 0)]
                for Rc, r in prs:
                    ref, qe = Q.rbasex_entry(n, Rc, r)
                    tol = 1e-12 * max(1.0, Rc) ** 2 + 1e-11 + 10 * qe
                    n_eval += 1
                    distinct.add(('rbasex', n, odd, index_class(Rc, r, Rmax + 1), Rmax > 40))
                    note('rbasex', abs(P[ix][Rc, r] - ref), tol)
                    if not abs(P[ix][Rc, r] - ref) <= tol:
                        hits.append(mk('rbasex', (Rmax, order, odd, ix, n), Rc, r, P[ix][Rc, r], ref, tol, Rmax + 1,
                                       'rbasex projection p_{R=%d;n=%d}(r=%d) (odd=%s)' % (Rc, n, r, odd)))
    # basex
    sigmas = [1.0, 0.51, 3.0] + [float(np.round(rng.uniform(0.5, 3.0), 3)) for _ in range(budget)]
    for sigma in sigmas:
        for n in (8, 300 if sigma in (1.0, 3.0) or budget > 1 else 120):
            M, Mc = bx._bs_basex(n, sigma, verbose=False)
            nbf = M.shape[1]
            prs = [(i, k) for i, k in [(0, 0), (1, 0), (0, 1), (1, 1), (n - 1, nbf - 1), (n - 1, 0), (0, nbf - 1), (2, 1)]
                   if i < n and k < nbf]
            prs += [(int(rng.integers(n)), int(rng.integers(nbf))) for _ in range(3 * budget)]
            # around the maximum and the shoulders of chi_k (the summation window and the u > k + 8 cut-off)
            for _ in range(2 * budget):
                k = int(rng.integers(1, nbf))
                for c in (-3, -1, 0, 1, 2, 3, 4, 5, 7, 9):
                    i = int(round(sigma * (k + c)))
                    if 0 <= i < n:
                        prs.append((i, k))
            for i, k in prs:
                ref, qe = Q.basex_chi(k, sigma, i)
                scale = max(abs(ref), sigma)
                # the code works in the log domain with terms ~ k^2 ln k^2: relative rounding ~ 2e-16 k^2 ln k^2
                tol = (1e-9 + 4e-15 * k * k * math.log(k * k + 2.0)) * scale + 10 * qe
                n_eval += 2
                distinct.add(('basex', index_class(i, k, n), n > 40, sigma))
                note('basex_chi', abs(M[i, k] - ref), tol)
                if not abs(M[i, k] - ref) <= tol:
                    hits.append(mk('basex_chi', (n, sigma), i, k, M[i, k], ref, tol, n,
                                   'basex projected basis chi_%d(x=%d), sigma=%s' % (k, i, sigma)))
                r2 = Q.basex_rho(k, sigma, i)
                tol2 = 1e-9 * max(r2, 1e-300) + 1e-300
                note('basex_rho', abs(Mc[i, k] - r2), tol2)
                if not abs(Mc[i, k] - r2) <= tol2:
                    hits.append(mk('basex_rho', (n, sigma), i, k, Mc[i, k], r2, tol2, n,
                                   'basex basis function rho_%d(r=%d), sigma=%s' % (k, i, sigma)))
    # dasch two_point / three_point: rows i >= 1, unit vectors and a smooth profile
    for kind, gen, mkd in (('two_point', da._bs_two_point, Q.two_point_interp_d),
                           ('three_point', da._bs_three_point, Q.three_point_interp_d)):
        for n in (6, 300):
            Dm = gen(n)
            # rows i >= 1; the axis row i = 0 where the interpolant makes P'(s)/s integrable
            # (three_point: symmetric continuation; two_point: only j >= 2)
            for i, j in [(a, b) for a, b in idx(n, 4 * budget) + [(0, 3), (0, n - 1), (0, n // 2)]
                         if a >= 1 or kind == 'three_point' or b >= 2]:
                e = np.zeros(n); e[j] = 1.0
                d, hi, br = mkd(e)
                br = [x for x in br if abs(x - j) <= 2]
                ref, qe = Q.inv_abel_pieces(d, float(i), max(0.0, j - 2.0), min(hi, j + 2.0), br)
                tol = 1e-11 + 10 * qe
                n_eval += 1
                distinct.add((kind, index_class(i, j, n), n > 40))
                note(kind, abs(Dm[i, j] - ref), tol)
                if not abs(Dm[i, j] - ref) <= tol:
                    hits.append(mk(kind, (n,), i, j, Dm[i, j], ref, tol, n, '%s operator D[%d][%d] (n=%d)' % (kind, i, j, n)))
            if kind == 'two_point':
                # documented convention of the two-point method at the axis (the integrand c/x is
                # not integrable): D[0][0] = 2/pi, D[0][1] = ln(2)/pi - 2/pi
                for (i, j), ref in (((0, 0), 2 / math.pi), ((0, 1), math.log(2.0) / math.pi - 2 / math.pi)):
                    n_eval += 1
                    if not abs(Dm[i, j] - ref) <= 1e-14:
                        hits.append(Hit('axis-row-convention', 'C09:two_point:axis-convention:%d%d' % (i, j),
                                        'two_point D[%d][%d] = %r differs from the documented axis convention %r' % (i, j, float(Dm[i, j]), ref),
                                        'import sys, math, abel.dasch\nD = abel.dasch._bs_two_point(%d)\nref = %r\nprint(D[%d, %d], ref)\n'
                                        'sys.exit(0 if abs(D[%d, %d] - ref) <= 1e-14 else 1)\n' % (n, ref, i, j, i, j),
                                        dict(n=n, index=[i, j], value=float(Dm[i, j]), convention=ref)))
        # smooth profile, n = 60: whole rows
        n = 60
        Dm = gen(n)
        Pv = np.exp(-((np.arange(n) - 22.0) / 9.0) ** 2) + 0.3 * np.exp(-((np.arange(n) - 40.0) / 3.0) ** 2)
        d, hi, br = mkd(Pv)
        for i in [1, 2, 3, 21, 22, 40, 58, 59][:4 + 2 * budget]:
            ref, qe = Q.inv_abel_pieces(d, float(i), 0.0, hi, br)
            tol = 1e-11 + 10 * qe
            n_eval += 1
            note(kind + '_row', abs(Dm[i] @ Pv - ref), tol)
            if not abs(Dm[i] @ Pv - ref) <= tol:
                # localise: which entry of the row
                hits.append(Hit('operator-row', 'C09:%s:row-applied-to-smooth-profile' % kind,
                                '%s operator row %d applied to a smooth profile differs from the inverse Abel integral of the interpolant'
                                % (kind, i), ROW_SNIPPET % dict(tools=os.path.join(vlib.VERIF, 'tools'), kind=kind, n=n, i=i),
                                dict(row=i, n=n, value=float(Dm[i] @ Pv), quadrature=float(ref))))
    # onion peeling: W = inv(D) against the projections of the rings
    for n in (5, 40):
        Dm = da._bs_onion_peeling(n)
        W = np.array([[Q.los(*Q.daun_f(0, j)[:1], float(i), *Q.daun_f(0, j)[1:])[0] for j in range(n)] for i in range(n)])
        R = W @ Dm - np.eye(n)
        n_eval += n * n
        distinct.add(('onion', n))
        tol = 1e-10 * n
        note('onion', float(np.abs(R).max()), tol)
        if not np.abs(R).max() <= tol:
            a, b = np.unravel_index(np.argmax(np.abs(R)), R.shape)
            hits.append(mk('onion_peeling', (n,), int(a), int(b), (W @ Dm)[a, b], float(a == b), tol, n,
                           'onion_peeling: (ring projections) x D is not the identity at [%d][%d]' % (a, b)))
    # large onion-peeling operators: sampled elements of W.D and D.W (row / column of W by quadrature)
    for n in (256, 300):
        Dm = da._bs_onion_peeling(n)
        prs = [(0, 0), (1, 1), (n - 1, n - 1), (1, n - 1), (n - 1, 1), (n // 2, n // 2 + 1), (n // 2 + 1, n // 2), (0, n - 1)]
        prs += [(int(rng.integers(n)), int(rng.integers(n))) for _ in range(budget)]
        for a, b in prs:
            wd, dw = Q.onion_products(Dm, a, b)
            ref = 1.0 if a == b else 0.0
            tol = 1e-10 * n
            n_eval += 2
            distinct.add(('onion', n, index_class(a, b, n)))
            note('onion', max(abs(wd - ref), abs(dw - ref)), tol)
            if not (abs(wd - ref) <= tol and abs(dw - ref) <= tol):
                hits.append(mk('onion_peeling', (n,), a, b, wd if abs(wd - ref) > tol else dw, ref, tol, n,
                               'onion_peeling (n=%d): (ring projections) x D and D x (ring projections) must be the identity; element [%d][%d]'
                               % (n, a, b)))
    return hits, n_eval, len(distinct), worst


# ---------------------------------------------------------------------------
# search through the caching front ends (the property's observe_at: get_bs_cached)
# ---------------------------------------------------------------------------
HIST_SNIPPET = r"""
import sys, io, math, tempfile, shutil, contextlib, numpy as np
sys.path.insert(0, %(tools)r)
from oracle import c09_quad as Q
import abel, abel.dasch, abel.daun, abel.rbasex, abel.basex
T = tempfile.mkdtemp(prefix='c09-replay-', dir='/var/tmp')
try:
    with contextlib.redirect_stdout(io.StringIO()):
%(setup)s
    got = float(%(got)s)
    ref = float(%(ref)s)
finally:
    shutil.rmtree(T, ignore_errors=True)
print(%(what)r)
print('returned element', repr(got), ' defining integral', repr(ref), ' tol', %(tol)r)
sys.exit(0 if abs(got - ref) <= %(tol)r else 1)
"""


def cached_search(ctx, rng, budget):
    """Elements as returned by get_bs_cached (basex, daun, rbasex, dasch): fresh,
    cropped from a larger matrix in memory, loaded / cropped / extended from
    files in a temporary basis_dir, with verbose False and True — against the
    quadrature of the defining integral.  Every history is a few lines of
    Python executed here and, verbatim, in the replay."""
    import contextlib
    import io
    import shutil
    import tempfile
    from oracle import c09_quad as Q
    import abel, abel.dasch, abel.daun, abel.rbasex, abel.basex
    hits = []
    n_eval = 0
    distinct = set()
    worst = {}

    failed_hist = []

    def run_hist(lines):
        T = tempfile.mkdtemp(prefix='c09-', dir='/var/tmp')
        ns = dict(abel=abel, np=np, T=T)
        try:
            with contextlib.redirect_stdout(io.StringIO()):
                exec('\n'.join(lines), ns)
        except Exception as e:       # a raising front end is not a C09 matter: recorded, history skipped
            failed_hist.append((lines, '%s: %s' % (type(e).__name__, e)))
            for m in (abel.dasch, abel.daun, abel.rbasex, abel.basex):
                try:
                    m.cache_cleanup()
                except Exception:
                    pass
            return None
        finally:
            shutil.rmtree(T, ignore_errors=True)
        return ns

    SHAPE_SNIPPET = HIST_SNIPPET.replace('got = float(%(got)s)', 'got = %(got)s').replace('ref = float(%(ref)s)', 'ref = %(ref)s') \
        .replace("print('returned element', repr(got), ' defining integral', repr(ref), ' tol', %(tol)r)",
                 "print('shape(s) returned', got, 'expected', ref)") \
        .replace('sys.exit(0 if abs(got - ref) <= %(tol)r else 1)', 'sys.exit(0 if got == ref else 1)')

    def shape_hit(tag, lines, what, got_expr, expected):
        snip = SHAPE_SNIPPET % dict(tools=os.path.join(vlib.VERIF, 'tools'), setup='\n'.join('        ' + l for l in lines),
                                    got=got_expr, ref=repr(expected), what=what, tol=0)
        hits.append(Hit('cached-shape', 'C09:cached:%s:shape' % tag, what + ' (expected %r)' % (expected,), snip,
                        dict(history=lines, expected=repr(expected))))

    def judge(tag, lines, what, got_expr, ref_expr, got, ref, tol, cls):
        nonlocal n_eval
        n_eval += 1
        distinct.add((tag, cls))
        worst[tag.split(':')[0] + '_cached'] = max(worst.get(tag.split(':')[0] + '_cached', 0.0), abs(got - ref) / tol)
        if not abs(got - ref) <= tol:
            snip = HIST_SNIPPET % dict(tools=os.path.join(vlib.VERIF, 'tools'),
                                       setup='\n'.join('        ' + l for l in lines), got=got_expr, ref=ref_expr,
                                       what=what, tol=tol)
            hits.append(Hit('cached-element-equals-defining-integral', 'C09:cached:%s:%s' % (tag, cls),
                            what + ': returned %r, defining integral %r (|diff| %.3g > tol %.3g)' % (got, ref, abs(got - ref), tol),
                            snip, dict(history=lines, element=got_expr, value=got, quadrature=ref, tol=tol)))

    def pairs(n, k, lower=False):
        out = [(a, b) for a, b in sample_pairs(rng, n, k)]
        sel = out[:3] + out[10:13] + out[-k:]
        return [(a, b) for a, b in dict.fromkeys(sel)]

    verbs = (False, True)
    # ---- dasch: large fresh operator, memory crop, disk crop -------------------
    big, small = (300, 100)
    for method in ('two_point', 'three_point', 'onion_peeling'):
        for v in verbs:
            hists = [('fresh%d' % big, ["abel.dasch.cache_cleanup()",
                                       "M = abel.dasch.get_bs_cached(%r, %d, basis_dir=T, verbose=%r)" % (method, big, v)], big),
                     ('mem-crop', ["abel.dasch.cache_cleanup()",
                                   "abel.dasch.get_bs_cached(%r, %d, basis_dir=T, verbose=%r)" % (method, big, v),
                                   "M = abel.dasch.get_bs_cached(%r, %d, basis_dir=T, verbose=%r)" % (method, small, v)], small),
                     ('disk-crop', ["abel.dasch.cache_cleanup()",
                                    "abel.dasch.get_bs_cached(%r, %d, basis_dir=T, verbose=%r)" % (method, big, v),
                                    "abel.dasch.cache_cleanup()",
                                    "M = abel.dasch.get_bs_cached(%r, %d, basis_dir=T, verbose=%r)" % (method, small, v)], small)]
            if v:
                hists = hists[2:]          # the verbose flag only matters on the load path
            for tag, lines, n in hists:
                lines = lines + ["abel.dasch.cache_cleanup()"]
                ns = run_hist(lines)
                if ns is None:
                    continue
                M = np.array(ns['M'])
                if M.shape != (n, n):
                    shape_hit('%s:%s' % (method, tag), lines, 'abel.dasch.get_bs_cached(%r, %d) [%s] returned shape %r'
                              % (method, n, tag, M.shape), 'tuple(np.shape(M))', (n, n))
                    continue
                prs = [(n - 1, n - 1), (1, n - 1), (n // 2, n // 2 + 1), (n // 2 + 1, n // 2), (2, 1), (1, 1), (n - 2, n - 1)]
                prs += [(int(rng.integers(1, n)), int(rng.integers(0, n))) for _ in range(budget)]
                for a, b in prs:
                    what = 'abel.dasch.get_bs_cached(%r, %d) [%s, verbose=%r] element [%d][%d]' % (method, n, tag, v, a, b)
                    if method == 'onion_peeling':
                        wd, dw = Q.onion_products(M, a, b)
                        ref = 1.0 if a == b else 0.0
                        tol = 1e-10 * n
                        judge('%s:%s' % (method, tag), lines, what + ' of W.D (W = ring projections)',
                              'Q.onion_products(np.array(M), %d, %d)[0]' % (a, b), repr(ref), wd, ref, tol, index_class(a, b, n))
                        judge('%s:%s' % (method, tag), lines, what + ' of D.W (W = ring projections)',
                              'Q.onion_products(np.array(M), %d, %d)[1]' % (a, b), repr(ref), dw, ref, tol, index_class(a, b, n))
                    else:
                        ref, qe = Q.dasch_entry(method, n, a, b)
                        tol = 1e-11 + 10 * qe
                        judge('%s:%s' % (method, tag), lines, what, 'M[%d, %d]' % (a, b),
                              'Q.dasch_entry(%r, %d, %d, %d)[0]' % (method, n, a, b), float(M[a, b]), ref, tol,
                              index_class(a, b, n))
    # ---- daun: forward matrix, larger n -> smaller n (memory and disk), degree 3 exact size
    for deg in range(4):
        big, small = (60, 20) if deg < 3 else (12, 8)
        for v in verbs:
            call = "abel.daun.get_bs_cached(%d, %d, direction='forward', basis_dir=T, verbose=" + repr(v) + ")"
            hists = [('fresh', ["abel.daun.cache_cleanup()", "M = " + call % (big, deg)], big),
                     ('mem-after-larger', ["abel.daun.cache_cleanup()", call % (big, deg), "M = " + call % (small, deg)], small),
                     ('disk-after-larger', ["abel.daun.cache_cleanup()", call % (big, deg), "abel.daun.cache_cleanup()",
                                            "M = " + call % (small, deg)], small),
                     ('disk-same', ["abel.daun.cache_cleanup()", call % (big, deg), "abel.daun.cache_cleanup()",
                                    "M = " + call % (big, deg)], big)]
            if v:
                hists = hists[2:]
            for tag, lines, n in hists:
                lines = lines + ["abel.daun.cache_cleanup()"]
                ns = run_hist(lines)
                if ns is None:
                    continue
                M = np.array(ns['M'])
                prs = [(0, 0), (1, 0), (1, 1), (n - 1, n - 1), (n - 1, 0), (n - 1, n - 2), (n // 2, 1)]
                prs += [tuple(sorted((int(a), int(b)), reverse=True)) for a, b in rng.integers(0, n, (budget, 2))]
                if M.shape != (n, n):
                    shape_hit('daun%d:%s' % (deg, tag), lines, 'abel.daun.get_bs_cached(%d, %d, forward) [%s] returned shape %r'
                              % (n, deg, tag, M.shape), 'tuple(np.shape(M))', (n, n))
                    continue
                for j, i in prs:
                    ref, qe = Q.daun_entry(n, deg, j, i)
                    jj = n if deg == 3 else j + 1
                    tol = 1e-13 * float(jj) ** (deg + 1) + 1e-11 + 10 * qe
                    judge('daun%d:%s' % (deg, tag), lines,
                          "abel.daun.get_bs_cached(%d, %d, direction='forward') [%s, verbose=%r] element [%d][%d]" % (n, deg, tag, v, j, i),
                          'M[%d, %d]' % (j, i), 'Q.daun_entry(%d, %d, %d, %d)[0]' % (n, deg, j, i), float(M[j, i]), ref, tol,
                          index_class(j, i, n))
    # ---- rbasex: forward matrices; richer file (odd, larger order, larger Rmax) -> smaller request
    bigR, bigO = 30, 4
    for v in verbs:
        call = "abel.rbasex.get_bs_cached(%d, %d, %r, direction='forward', basis_dir=T, verbose=" + repr(v) + ")"
        reqs = [('fresh', bigR, bigO, True), ('odd-file-to-even', bigR, bigO, False), ('odd-file-to-even-lower-order', 20, 2, False),
                ('crop-Rmax-order', 20, 3, True), ('odd-file-to-order0', 12, 0, False)]
        for tag, Rm, order, odd in reqs:
            lines = ["abel.rbasex.cache_cleanup()", call % (bigR, bigO, True), "abel.rbasex.cache_cleanup()",
                     "M = " + call % (Rm, order, odd), "M = [np.array(x) for x in M]", "abel.rbasex.cache_cleanup()"]
            if tag == 'fresh':
                lines = ["abel.rbasex.cache_cleanup()", "M = " + call % (Rm, order, odd), "M = [np.array(x) for x in M]",
                         "abel.rbasex.cache_cleanup()"]
            ns = run_hist(lines)
            if ns is None:
                continue
            M = ns['M']
            orders = list(range(0, order + 1, 1 if odd else 2))
            if len(M) != len(orders) or any(m.shape != (Rm + 1, Rm + 1) for m in M):
                shape_hit('rbasex:%s' % tag, lines,
                          'abel.rbasex.get_bs_cached(%d, %d, %r, forward) [%s, verbose=%r] returned %d matrices %r (one per angular order expected)'
                          % (Rm, order, odd, tag, v, len(M), [m.shape for m in M][:3]),
                          '[tuple(m.shape) for m in M]', [(Rm + 1, Rm + 1)] * len(orders))
                continue
            for ix, n in enumerate(orders):
                prs = [(1, 1), (2, 1), (Rm, Rm), (Rm, 1), (Rm // 2, Rm // 2 - 1), (3, 0)]
                prs += [tuple(int(x) for x in sorted(rng.integers(1, Rm + 1, 2), reverse=True)) for _ in range(max(1, budget // 2))]
                for Rc, r in prs:
                    ref, qe = Q.rbasex_entry(n, Rc, r)
                    tol = 1e-12 * max(1.0, Rc) ** 2 + 1e-11 + 10 * qe
                    # forward matrices are transposed: A[n][r, R] = p_{R;n}(r)
                    judge('rbasex:%s' % tag, lines,
                          "abel.rbasex.get_bs_cached(%d, %d, %r, direction='forward') [%s, verbose=%r]: matrix %d (order %d) element p_{R=%d}(r=%d)"
                          % (Rm, order, odd, tag, v, ix, n, Rc, r),
                          'M[%d][%d, %d]' % (ix, r, Rc), 'Q.rbasex_entry(%d, %d, %d)[0]' % (n, Rc, r), float(M[ix][r, Rc]), ref, tol,
                          'order%d:%s' % (n, index_class(Rc, r, Rm + 1)))
    # ---- basex: basis sets cached by get_bs_cached (module global _bs): fresh, cropped file, extended file
    for sigma in (1.0, float(np.round(rng.uniform(0.6, 2.5), 2))):
        for v in verbs:
            call = "abel.basex.get_bs_cached(%d, %r, reg=1.0, correction=False, basis_dir=T, verbose=" + repr(v) + ", direction='forward')"
            grab = "M, Mc = [np.array(x) for x in abel.basex._bs]"
            hists = [('fresh', ["abel.basex.cache_cleanup()", call % (40, sigma), grab], 40),
                     ('disk-crop', ["abel.basex.cache_cleanup()", call % (40, sigma), "abel.basex.cache_cleanup()",
                                    call % (25, sigma), grab], 25),
                     ('disk-extend', ["abel.basex.cache_cleanup()", call % (40, sigma), "abel.basex.cache_cleanup()",
                                      call % (60, sigma), grab], 60)]
            if v:
                hists = hists[1:]
            for tag, lines, n in hists:
                lines = lines + ["abel.basex.cache_cleanup()"]
                ns = run_hist(lines)
                if ns is None:
                    continue
                M, Mc = ns['M'], ns['Mc']
                nbf = abel.basex._nbf(n, sigma)
                if M.shape != (n, nbf) or Mc.shape != (n, nbf):
                    shape_hit('basex:%s' % tag, lines, 'abel.basex.get_bs_cached(%d, %r) [%s] cached basis sets of shapes %r %r'
                              % (n, sigma, tag, M.shape, Mc.shape), '[tuple(M.shape), tuple(Mc.shape)]', [(n, nbf), (n, nbf)])
                    continue
                prs = [(0, 0), (1, 1), (n - 1, nbf - 1), (n - 1, 0), (0, nbf - 1), (n // 2, nbf // 2), (min(n - 1, 41), nbf - 1), (10, 3)]
                prs += [(int(rng.integers(n)), int(rng.integers(nbf))) for _ in range(budget)]
                for i, k in prs:
                    ref, qe = Q.basex_chi(k, sigma, i)
                    tol = (1e-9 + 4e-15 * k * k * math.log(k * k + 2.0)) * max(abs(ref), sigma) + 10 * qe
                    judge('basex:%s' % tag, lines,
                          'abel.basex.get_bs_cached(%d, %r) [%s, verbose=%r]: projected basis chi_%d(x=%d)' % (n, sigma, tag, v, k, i),
                          'M[%d, %d]' % (i, k), 'Q.basex_chi(%d, %r, %d)[0]' % (k, sigma, i), float(M[i, k]), ref, tol,
                          index_class(i, k, n))
                    r2 = Q.basex_rho(k, sigma, i)
                    judge('basex:%s' % tag, lines,
                          'abel.basex.get_bs_cached(%d, %r) [%s, verbose=%r]: basis function rho_%d(r=%d)' % (n, sigma, tag, v, k, i),
                          'Mc[%d, %d]' % (i, k), 'Q.basex_rho(%d, %r, %d)' % (k, sigma, i), float(Mc[i, k]), r2,
                          1e-9 * max(r2, 1e-300) + 1e-300, 'rho:' + index_class(i, k, n))
    if failed_hist:
        ctx.notes.append('get_bs_cached histories that raised (skipped, not a C09 clause): %d, first: %r'
                         % (len(failed_hist), failed_hist[0]))
    return hits, n_eval, len(distinct), worst


# ---------------------------------------------------------------------------
# histories with data-dependent arguments: after ANY earlier legitimate request
# ---------------------------------------------------------------------------
def history_search(ctx, rng, budget):
    """cached-element-equals-defining-integral, generalised: the elements returned
    by a caching front end (observation = a plain forward / basis request) must
    equal the defining integrals after any earlier legitimate request on the same
    module — requests that differ in the data-dependent arguments (rbasex: valid
    masks with empty radii, reg kinds, direction; daun: reg kinds / strength /
    direction; basex: reg / correction / dr / direction; dasch: method / size),
    in memory and through a basis_dir, as ordered pairs and a sample of triples.
    Sizes are small and EVERY element of the observed matrices is compared with a
    reference matrix built once per parameter set by quadrature."""
    import contextlib
    import io
    import shutil
    import tempfile
    from oracle import c09_quad as Q
    import abel, abel.dasch, abel.daun, abel.rbasex, abel.basex
    hits = []
    n_eval = 0
    n_hist = 0
    distinct = set()
    worst = {}
    failed_hist = []
    refs = {}

    def run_hist(lines):
        T = tempfile.mkdtemp(prefix='c09-', dir='/var/tmp')
        ns = dict(abel=abel, np=np, T=T)
        try:
            with contextlib.redirect_stdout(io.StringIO()):
                exec('\n'.join(lines), ns)
        except Exception as e:
            failed_hist.append((lines, '%s: %s' % (type(e).__name__, e)))
            ns = None
        finally:
            for m in (abel.dasch, abel.daun, abel.rbasex, abel.basex):
                try:
                    m.cache_cleanup()
                except Exception:
                    pass
            shutil.rmtree(T, ignore_errors=True)
        return ns

    def ref(key, build):
        if key not in refs:
            refs[key] = build()
        return refs[key]

    def compare(tag, lines, what, got, R, TOL, mask, elem_expr, ref_expr, cls):
        """got, R, TOL, mask: arrays of one shape; elem_expr/ref_expr: functions of the index -> source text"""
        nonlocal n_eval
        n_eval += int(mask.sum())
        distinct.add((tag, cls))
        with np.errstate(all='ignore'):
            ratio = np.where(mask, np.abs(got - R) / TOL, 0.0)
        ratio = np.where(np.isfinite(ratio), ratio, np.inf)
        worst[tag.split(':')[0] + '_history'] = max(worst.get(tag.split(':')[0] + '_history', 0.0), float(ratio.max()) if ratio.size else 0.0)
        mod = tag.split(':')[0]
        if ratio.size and ratio.max() > 1 and sum(1 for h in hits if h.data.get('module') == mod) >= 4:
            return          # enough distinct replays for this module; further failing histories are not listed
        if ratio.size and ratio.max() > 1:
            ix = np.unravel_index(int(np.argmax(ratio)), ratio.shape)
            g, r_, t = float(got[ix]), float(R[ix]), float(TOL[ix])
            w = what + ' element %s' % (tuple(int(x) for x in ix),)
            snip = HIST_SNIPPET % dict(tools=os.path.join(vlib.VERIF, 'tools'), setup='\n'.join('        ' + l for l in lines),
                                       got=elem_expr(ix), ref=ref_expr(ix), what=w, tol=t)
            hits.append(Hit('cached-element-equals-defining-integral', 'C09:history:%s:%s' % (tag, cls),
                            w + ': returned %r, defining integral %r (|diff| %.3g > tol %.3g; %d of %d elements differ)'
                            % (g, r_, abs(g - r_), t, int((ratio > 1).sum()), int(mask.sum())),
                            snip, dict(module=mod, history=lines, element=elem_expr(ix), value=g, quadrature=r_, tol=t)))

    def histories(clean, ops, obs, k_triples):
        """ordered pairs (memory and through the disk) and a sample of triples"""
        out = []
        for la, a in ops:
            out.append(('mem:' + la, [clean] + a + obs))
            out.append(('disk:' + la, [clean] + a + [clean] + obs))
            # a file left by an earlier process (or an explicit save), then the observed operator is generated in
            # this process, then the file is loaded, then the observation: loaded and generated operators interleave
            out.append(('file-gen-load:' + la, [clean] + a + [clean] + obs + a + obs))
            out.append(('file-load-gen:' + la, [clean] + a + [clean] + a + obs))
        for _ in range(k_triples):
            (la, a), (lb, b) = ops[int(rng.integers(len(ops)))], ops[int(rng.integers(len(ops)))]
            u = rng.random()
            if u < 0.3:
                out.append(('mem3:%s,%s' % (la, lb), [clean] + a + b + obs))
            elif u < 0.6:
                out.append(('disk3:%s,%s' % (la, lb), [clean] + a + [clean] + b + obs))
            else:
                # files of a and b from earlier processes; b generated/loaded, a loaded, b again, observation
                out.append(('files4:%s,%s' % (la, lb), [clean] + a + [clean] + b + [clean] + obs + a + b + a + obs))
        return out

    # ---- rbasex -------------------------------------------------------------------
    for Rmax, order, odd in ((20, 2, False), (16, 3, True)):
        orders = list(range(0, order + 1, 1 if odd else 2))

        def build():
            Rf = np.zeros((len(orders), Rmax + 1, Rmax + 1)); Tl = np.ones_like(Rf); Mk = np.zeros_like(Rf, dtype=bool)
            for ix, n in enumerate(orders):
                for Rc in range(Rmax + 1):
                    for r in range(Rmax + 1):
                        if r <= Rc:
                            v, qe = Q.rbasex_entry(n, Rc, r)
                            Rf[ix, r, Rc] = v
                            Tl[ix, r, Rc] = 1e-12 * max(1.0, Rc) ** 2 + 1e-11 + 10 * qe
                        else:
                            Tl[ix, r, Rc] = 1e-14
                        Mk[ix, r, Rc] = not (n > 0 and Rc == 0 and r == 0)     # [0,0] of orders > 0 is a convention
            return Rf, Tl, Mk
        Rf, Tl, Mk = ref(('rbasex', Rmax, order, odd), build)
        g = "abel.rbasex.get_bs_cached(%d, %d, %r, " % (Rmax, order, odd)
        vdef = "V = np.ones(%d, dtype=bool); V[[5, %d]] = False" % (Rmax + 1, Rmax - 3)
        ops = [('fwd', [g + "direction='forward', basis_dir=T)"]),
               ('fwd-masked', [vdef, g + "direction='forward', valid=V, basis_dir=T)"]),
               ('inv', [g + "direction='inverse', basis_dir=T)"]),
               ('inv-masked', [vdef, g + "direction='inverse', valid=V, basis_dir=T)"]),
               ('inv-L2-masked', [vdef, g + "direction='inverse', reg=('L2', 1.0), valid=V, basis_dir=T)"]),
               ('inv-diff-masked', [vdef, g + "direction='inverse', reg=('diff', 1.0), valid=V, basis_dir=T)"]),
               ('inv-SVD-masked', [vdef, g + "direction='inverse', reg=('SVD', 0.1), valid=V, basis_dir=T)"]),
               ('inv-L2', [g + "direction='inverse', reg=('L2', 1.0), basis_dir=T)"]),
               ('other-size', ["abel.rbasex.get_bs_cached(%d, %d, %r, direction='forward', basis_dir=T)" % (Rmax + 6, order + 1, True)])]
        if not odd or order <= 1:
            ops.append(('inv-pos-masked', [vdef, g + "direction='inverse', reg='pos', valid=V, basis_dir=T)"]))
        obs = ["M = np.array(" + g + "direction='forward', basis_dir=T))"]
        for tag, lines in histories("abel.rbasex.cache_cleanup()", ops, obs, 2 * budget):
            ns = run_hist(lines)
            n_hist += 1
            if ns is None:
                continue
            M = np.asarray(ns['M'])
            if M.shape != Rf.shape:
                hits.append(Hit('cached-shape', 'C09:history:rbasex:%s:shape' % tag.split(':')[0],
                                'abel.rbasex.get_bs_cached(%d, %d, %r, forward) after [%s] returned shape %r' % (Rmax, order, odd, tag, M.shape),
                                'import sys; sys.exit(1)', dict(history=lines)))
                continue
            compare('rbasex:%s' % tag, lines,
                    "abel.rbasex.get_bs_cached(%d, %d, %r, direction='forward') after [%s]: [order index, r, R]" % (Rmax, order, odd, tag),
                    M, Rf, Tl, Mk, lambda ix: 'M[%d][%d, %d]' % ix,
                    lambda ix: 'Q.rbasex_entry(%d, %d, %d)[0]' % (orders[ix[0]], ix[2], ix[1]), '%d-%d-%s' % (Rmax, order, odd))
    # ---- daun -----------------------------------------------------------------------
    for deg in range(4):
        n = 16

        def build():
            Rf = np.zeros((n, n)); Tl = np.ones((n, n))
            for j in range(n):
                for i in range(n):
                    v, qe = Q.daun_entry(n, deg, j, i)
                    Rf[j, i] = v
                    Tl[j, i] = 1e-13 * float(n if deg == 3 else j + 1) ** (deg + 1) + 1e-11 + 10 * qe
            return Rf, Tl
        Rf, Tl = ref(('daun', n, deg), build)
        g = "abel.daun.get_bs_cached(%d, %d, " % (n, deg)
        ops = []
        for rt, st in ((None, 0), ('diff', 1.0), ('L2', 1.0), ('L2c', 1.0), ('nonneg', 0)):
            for d in ('inverse', 'forward'):
                ops.append(('%s-%s' % (d[:3], rt), [g + "reg_type=%r, strength=%r, direction=%r, basis_dir=T)" % (rt, st, d)]))
        ops.append(('larger', ["abel.daun.get_bs_cached(%d, %d, reg_type='L2c', strength=0.5, direction='inverse', basis_dir=T)" % (n + 8, deg)]))
        ops.append(('smaller', ["abel.daun.get_bs_cached(%d, %d, direction='forward', basis_dir=T)" % (n - 6, deg)]))
        obs = ["M = np.array(" + g + "direction='forward', basis_dir=T))"]
        for tag, lines in histories("abel.daun.cache_cleanup()", ops, obs, 2 * budget):
            ns = run_hist(lines)
            n_hist += 1
            if ns is None:
                continue
            M = np.asarray(ns['M'])
            if M.shape != (n, n):
                hits.append(Hit('cached-shape', 'C09:history:daun%d:shape' % deg, 'abel.daun.get_bs_cached(%d, %d, forward) after [%s] returned shape %r'
                                % (n, deg, tag, M.shape), 'import sys; sys.exit(1)', dict(history=lines)))
                continue
            compare('daun%d:%s' % (deg, tag), lines, "abel.daun.get_bs_cached(%d, %d, direction='forward') after [%s]: [j, i]" % (n, deg, tag),
                    M, Rf, Tl, np.ones((n, n), bool), lambda ix: 'M[%d, %d]' % ix,
                    lambda ix: 'Q.daun_entry(%d, %d, %d, %d)[0]' % (n, deg, ix[0], ix[1]), 'deg%d' % deg)
    # ---- basex ----------------------------------------------------------------------
    n, sigma = 22, 1.0
    nbf = abel.basex._nbf(n, sigma)

    def build():
        Rm = np.zeros((n, nbf)); Tm = np.ones((n, nbf)); Rc_ = np.zeros((n, nbf))
        for i in range(n):
            for k in range(nbf):
                v, qe = Q.basex_chi(k, sigma, i)
                Rm[i, k] = v
                Tm[i, k] = (1e-9 + 4e-15 * k * k * math.log(k * k + 2.0)) * max(abs(v), sigma) + 10 * qe
                Rc_[i, k] = Q.basex_rho(k, sigma, i)
        return Rm, Tm, Rc_
    Rm, Tm, Rc_ = ref(('basex', n, sigma), build)
    g = "abel.basex.get_bs_cached(%d, %r, " % (n, sigma)
    ops = []
    for reg in (1.0, 100.0):
        for cor in (False, True):
            for dr in (1.0, 0.5):
                d = 'inverse' if (reg + cor + dr) % 2 < 1 else 'forward'
                ops.append(('%s-reg%g-cor%d-dr%g' % (d[:3], reg, cor, dr),
                            [g + "reg=%r, correction=%r, dr=%r, basis_dir=T, verbose=False, direction=%r)" % (reg, cor, dr, d)]))
    ops.append(('larger', ["abel.basex.get_bs_cached(%d, %r, reg=1.0, correction=True, dr=0.5, basis_dir=T, verbose=False)" % (n + 9, sigma)]))
    ops.append(('smaller', ["abel.basex.get_bs_cached(%d, %r, reg=1.0, correction=False, basis_dir=T, verbose=False)" % (n - 8, sigma)]))
    obs = [g + "reg=1.0, correction=False, basis_dir=T, verbose=False, direction='inverse')",
           "M, Mc = [np.array(x) for x in abel.basex._bs]"]
    for tag, lines in histories("abel.basex.cache_cleanup()", ops, obs, 2 * budget):
        ns = run_hist(lines)
        n_hist += 1
        if ns is None:
            continue
        M, Mc = np.asarray(ns['M']), np.asarray(ns['Mc'])
        if M.shape != (n, nbf) or Mc.shape != (n, nbf):
            hits.append(Hit('cached-shape', 'C09:history:basex:shape', 'abel.basex basis after [%s] has shapes %r %r' % (tag, M.shape, Mc.shape),
                            'import sys; sys.exit(1)', dict(history=lines)))
            continue
        compare('basex:%s' % tag, lines, 'abel.basex.get_bs_cached(%d, %r) after [%s]: projected basis M[i, k]' % (n, sigma, tag),
                M, Rm, Tm, np.ones((n, nbf), bool), lambda ix: 'M[%d, %d]' % ix,
                lambda ix: 'Q.basex_chi(%d, %r, %d)[0]' % (ix[1], sigma, ix[0]), 'chi')
        compare('basex:%s' % tag, lines, 'abel.basex.get_bs_cached(%d, %r) after [%s]: basis functions Mc[i, k]' % (n, sigma, tag),
                Mc, Rc_, 1e-9 * np.maximum(Rc_, 1e-300) + 1e-300, np.ones((n, nbf), bool), lambda ix: 'Mc[%d, %d]' % ix,
                lambda ix: 'Q.basex_rho(%d, %r, %d)' % (ix[1], sigma, ix[0]), 'rho')
    # ---- dasch ----------------------------------------------------------------------
    n = 24
    for method in ('two_point', 'three_point', 'onion_peeling'):
        def build():
            if method == 'onion_peeling':
                W = np.array([[Q.los(*Q.daun_f(0, j)[:1], float(i), *Q.daun_f(0, j)[1:])[0] for j in range(n)] for i in range(n)])
                return W, None, None
            Rf = np.zeros((n, n)); Tl = np.ones((n, n)); Mk = np.ones((n, n), bool)
            for i in range(n):
                for j in range(n):
                    if i == 0 and method == 'two_point' and j < 2:
                        Rf[i, j] = (2 / math.pi, math.log(2.0) / math.pi - 2 / math.pi)[j]      # documented axis convention
                        Tl[i, j] = 1e-14
                        continue
                    v, qe = Q.dasch_entry(method, n, i, j)
                    Rf[i, j] = v
                    Tl[i, j] = 1e-11 + 10 * qe
            return Rf, Tl, Mk
        Rf, Tl, Mk = ref(('dasch', method, n), build)
        others = [m for m in ('two_point', 'three_point', 'onion_peeling') if m != method]
        ops = [('other-method', ["abel.dasch.get_bs_cached(%r, %d, basis_dir=T)" % (others[0], n + 10)]),
               ('other-method-smaller', ["abel.dasch.get_bs_cached(%r, %d, basis_dir=T)" % (others[1], n - 5)]),
               ('larger', ["abel.dasch.get_bs_cached(%r, %d, basis_dir=T)" % (method, n + 16)]),
               ('smaller', ["abel.dasch.get_bs_cached(%r, %d, basis_dir=T)" % (method, n - 9)])]
        obs = ["M = np.array(abel.dasch.get_bs_cached(%r, %d, basis_dir=T))" % (method, n)]
        for tag, lines in histories("abel.dasch.cache_cleanup()", ops, obs, 2 * budget):
            ns = run_hist(lines)
            n_hist += 1
            if ns is None:
                continue
            M = np.asarray(ns['M'])
            if M.shape != (n, n):
                hits.append(Hit('cached-shape', 'C09:history:%s:shape' % method, 'abel.dasch.get_bs_cached(%r, %d) after [%s] returned shape %r'
                                % (method, n, tag, M.shape), 'import sys; sys.exit(1)', dict(history=lines)))
                continue
            what = 'abel.dasch.get_bs_cached(%r, %d) after [%s]' % (method, n, tag)
            if method == 'onion_peeling':
                compare('onion_peeling:%s' % tag, lines, what + ': (W.D)[a, b], W = ring projections', Rf @ M, np.eye(n), np.full((n, n), 1e-10 * n),
                        np.ones((n, n), bool), lambda ix: 'Q.onion_products(M, %d, %d)[0]' % ix, lambda ix: repr(float(ix[0] == ix[1])), 'WD')
            else:
                compare('%s:%s' % (method, tag), lines, what + ': D[i, j]', M, Rf, Tl, Mk, lambda ix: 'M[%d, %d]' % ix,
                        lambda ix: ('Q.dasch_entry(%r, %d, %d, %d)[0]' % (method, n, ix[0], ix[1])) if not (method == 'two_point' and ix[0] == 0 and ix[1] < 2)
                        else repr(float(Rf[ix])), 'D')
    if failed_hist:
        ctx.notes.append('histories whose front end raised (skipped, not a C09 clause): %d of %d, first: %r'
                         % (len(failed_hist), n_hist, failed_hist[0]))
    ctx.notes.append('history search: %d histories (ordered pairs in memory / through basis_dir, sampled triples), every element compared'
                     % n_hist)
    return hits, n_eval, len(distinct), worst


# ---------------------------------------------------------------------------
def run(ctx):
    warnings.simplefilter('ignore')
    rng = np.random.default_rng(ctx.seed)
    quick = ctx.quick
    notes = []
    # 0. translator (fail closed)
    tr_err = None
    fb = None
    try:
        from translate import formulas_basis as fb
        defs, info = fb.generate()
        D = {name: (params, ir) for name, kind, params, ir in defs}
    except Exception as e:                       # Unsupported or anything else
        tr_err = '%s: %s' % (type(e).__name__, e)
    # 1. theorems
    pr = vlib.coq_props('C09') if tr_err is None else dict(ok=False, theorems=vlib.theorems_in('props/C09.v'), discharged=0,
                                                            axioms=[], error='translator failed: ' + tr_err,
                                                            broken='tools/translate/formulas_basis.py')
    n_goal_ok = 0
    goal_fail = []
    goal_err = []
    struct_bad = []
    n_struct = 0
    tvs = ins = []
    sizes = ()
    if tr_err is None:
        # 2a. structure: IR in binary64 vs implementation, all entries
        sizes = (3, 4, 5, 24) if quick else (3, 4, 5, 7, 24, 60)
        t0 = time.time()
        struct_bad, n_struct = structure_check(fb, D, info, sizes, rng)
        notes.append('structure check: %d entries in %.0fs' % (n_struct, time.time() - t0))
    # 3. search on the implementation (no model)
    broken = (tr_err is not None) or (not pr['ok']) or bool(struct_bad)
    budget = (3 if quick else 10) * (3 if broken else 1)
    t0 = time.time()
    hits, n_eval, n_distinct, worst = search(ctx, rng, budget)
    notes.append('search: %d evaluations in %.0fs' % (n_eval, time.time() - t0))
    t0 = time.time()
    h2, n2, d2, w2 = cached_search(ctx, rng, budget)
    hits += h2
    n_eval += n2
    n_distinct += d2
    worst.update(w2)
    notes.append('search through get_bs_cached (memory / disk histories, verbose off and on): %d evaluations in %.0fs'
                 % (n2, time.time() - t0))
    t0 = time.time()
    h3, n3, d3, w3 = history_search(ctx, rng, budget)
    hits += h3
    n_eval += n3
    n_distinct += d3
    worst.update(w3)
    notes.append('history search (data-dependent arguments): %d element comparisons in %.0fs' % (n3, time.time() - t0))
    if os.environ.get('C09_SELFTEST_GOALS_FIRST'):
        hits = []        # self-test switch: let the Coq goals see the mutant before the search reports it
    # 2b. translation validation + 4. instances, inside Coq (skipped when the search already
    #     produced failing inputs: the verdict is decided and failing goals are slow)
    if tr_err is None and pr['ok'] and not hits:
        tvg, tvs = tv_goals(fb, D, info, rng, quick)
        ing, ins = inst_goals(fb, D, rng, quick)
        t0 = time.time()
        ok1, f1, e1 = run_goal_files('C09_tv', tvg, per_file=8 if quick else 48)
        ok2, f2, e2 = run_goal_files('C09_inst', ing, per_file=3 if quick else 6)
        n_goal_ok = ok1 + ok2
        goal_fail = f1 + f2
        goal_err = e1 + e2
        notes.append('coq goal files: %d translation-validation + %d instance goals in %.0fs'
                     % (len(tvg), len(ing), time.time() - t0))
        ctx.cov.update(tv_goals=len(tvg), instance_goals=len(ing))
        if goal_fail:
            # a goal broke and the first search found nothing: search harder
            t0 = time.time()
            hits, n2, d2, worst = search(ctx, rng, 3 * budget)
            n_eval += n2
            n_distinct = max(n_distinct, d2)
            notes.append('enlarged search after failing goals: %d evaluations in %.0fs' % (n2, time.time() - t0))
    elif hits:
        notes.append('Coq instance / translation-validation goals skipped: the search found failing inputs')
    n_thm = len(pr['theorems'])
    n_goals = len(tvs) + len(ins)
    ctx.cov.update(obligations=n_thm + n_goals, discharged=pr['discharged'] + n_goal_ok,
                   theorems=pr['theorems'], axioms=pr['axioms'],
                   checker_cmd='make -C /verif/coq props/C09.vo (coqc 8.16.1, Coquelicot 3.2, full .vo build) + Print Assumptions; '
                               'coqc coq/cases/C09_tv_*.v C09_inst_*.v (Interval 4.6: interval / integral)',
                   trusted_base=vlib.TRUSTED_COMMON + [
                       'axioms reported by Print Assumptions (classical reals of the Coq standard library, as used by Coquelicot): '
                       + ', '.join(pr['axioms']),
                       'Interval 4.6 tactics interval/integral (reflexive, checked by the kernel)',
                       'Abel/InvAbel are defined in the proper-integral parametrisation y -> sqrt(x^2+y^2); equivalence with the '
                       'singular textbook form is by substitution and not proved',
                       'scipy.integrate.quad in the search (tools/oracle/c09_quad.py)'])
    ctx.cov.update(evaluations=n_eval + n_struct + n_goals, distinct_nontrivial=n_distinct,
                   traces_validated_against_impl=n_struct + len(tvs),
                   rule='search: quadrature of the defining integral at special (k=0, i=0, i=k, i=k+-1, last row/col) and random '
                        'indices, sizes up to 300; a case is distinct by (method, degree/order/parity/sigma, index class, small/large size). '
                        'tolerances: daun 1e-13*(j+1)^(deg+1)+1e-11 (cancellation of the closed forms, measured <= 1e-14*(j+1)^(deg+1)), '
                        'rbasex 1e-12*R^2+1e-11, basex (1e-9 + 4e-15 k^2 ln k^2)*max(|chi|,sigma), dasch 1e-11',
                   search_worst_ratio_to_tol={k: round(v, 4) for k, v in worst.items()},
                   samples=(tvs[:3] + ins[:3]),
                   input_distribution=dict(structure_sizes=list(sizes),
                                           tv_goals=len(tvs), instance_goals=len(ins), search_evaluations=n_eval),
                   instances_only=[],
                   swept_only=['basex projections chi_k', 'daun degree 3: existence/accuracy of the banded solve and the index conventions of the row shuffle (theorem C09_daun3_spline_entry takes any solutions of the two tridiagonal systems)',
                               'get_bs_cached histories (crop / load / extend)'],
                   exhaustive=False)
    new = 0
    seen = set()
    for h in hits:
        if h.key in seen:
            continue
        seen.add(h.key)
        if ctx.report_hit(h):
            new += 1
    if tr_err is not None and new == 0:
        ctx.report_broken('translator', 'tools/translate/formulas_basis.py on abel/{dasch,daun,rbasex}.py', tr_err)
    elif not pr['ok'] and new == 0:
        ctx.report_broken('proof', pr['broken'] or 'props/C09.v', pr['error'] or '')
    if struct_bad and new == 0:
        b = struct_bad[0]
        ctx.report_broken('correspondence', 'translated formula %s vs implementation (%d entries differ)' % (b[0], len(struct_bad)),
                          'first: %s n=%d index (%d,%d): formula %r implementation %r' % b)
    if goal_fail and new == 0:
        ctx.report_broken('instance-goal', goal_fail[0] + (' (+%d more)' % (len(goal_fail) - 1) if len(goal_fail) > 1 else ''),
                          json.dumps(goal_err[:3]))
    ctx.notes += notes
    ctx.assumptions += [
        'theorems (all indices/sizes): daun degree 0, 1, 2 entries and the Hermite p/q projections of degree 3, onion-peeling W, two_point and three_point entries of rows i >= 1, '
        'rbasex orders 0..8 for 1 <= r <= R; they are about coq/gen/FormulasBasis.v, regenerated from abel/daun.py, abel/dasch.py, '
        'abel/rbasex.py by a fail-closed translator on every run',
        'stretch 2 theorems: daun-3 Hermite combination for any slopes + C2 <=> tridiagonal relation, Dasch axis row (every entry of '
        'two_point / three_point now has a theorem; two_point D[0][0], D[0][1] as the documented convention), prefix property of the '
        'Dasch matrices, triangular shapes, basex rho_k = documented formula',
        'per-instance machine-checked goals (labelled instances, not the unbounded claim): '
        'instances of daun 1/2/3(p,q) and rbasex tie the floats of the implementation to the integrals (tolerance 2^-30 x scale)',
        'only swept numerically (scipy quad): basex projections chi_k (infinite support, Gaussian moments), the clamped-spline solve of '
        'daun degree 3, the get_bs_cached histories',
        'Dasch axis row: two_point D[0][0], D[0][1] are the documented convention (theorem states the constants), every other entry is an integral',
        'float closed forms of daun lose accuracy by cancellation ~1e-14*(j+1)^(deg+1) (5e-5 at n=300, degree 3); tolerances scale accordingly',
        'operator statement for dasch is per entry with the interpolant of the unit vector e_j; the sum over j follows by linearity (not formalised)',
    ]
