# C19 — polar tools honour the angle convention and the integration Jacobians.
#
#   theorems   coq/props/C19.v (proofs/PolarAtan2.v, proofs/PolarProofs.v) about the
#              definitions GENERATED from the current sources by
#              tools/translate/formulas_polar.py (coq/gen/FormulasPolar.v) and the
#              hand-written coq/model/Polar.v (atan2, linspace, grids)
#   tie (a)    translation validation: every generated formula is evaluated inside Coq at
#              sampled arguments and must enclose the float returned by the real PyAbel
#              function there (goals `Rabs (f args - v) <= tol` closed by `interval`,
#              tactics in proofs/PolarTie.v, case files coq/cases/C19_*.v)
#   tie (b)    the coordinates handed to scipy's map_coordinates by
#              reproject_image_into_polar / circularize (captured by patching the module
#              attribute inside this process) against the model positions, all small shapes
#   search     the clauses of the property evaluated directly on the implementation; each
#              failure is a vlib.Hit with a stand-alone replay program
#
# toPES divided its `intensity` argument in place (reported under C18, repaired by fix 2801d91); the
# pointwise clauses pass copies, and a separate clause (toPES:repeat) hands the same arrays to two calls.
import json
import math
import re
import time
import warnings
from fractions import Fraction

import numpy as np

import vlib
from vlib import Hit

LEVEL = 'proof'
BORDER_KEY = 'C19:circularize:const:border-zeroed'

# ---------------------------------------------------------------------------
# The oracles: the property's clauses evaluated on the implementation.  This
# source text is executed here AND embedded verbatim in every replay program.
# Every oracle returns (failures, measures): failures = [(subkey, detail)],
# measures = {name: observed error / tolerance} (for the margin report).
# ---------------------------------------------------------------------------
ORACLES_SRC = r'''
import json, sys, warnings
import numpy as np
warnings.simplefilter('ignore')
import abel.tools.polar as _P
import abel.tools.vmi as _V
import abel.tools.circularize as _C

TWO_PI = 2 * np.pi
INTERP = 2e-3      # allowance for cubic-spline interpolation + Riemann sums (features >= 2.5 px wide)


class Capture:
    """records the coordinates handed to scipy.ndimage.map_coordinates by a module"""
    def __init__(self, mod):
        self.mod, self.coords, self.calls = mod, None, 0
    def __enter__(self):
        self.orig = self.mod.map_coordinates
        def fake(data, coords, *a, **kw):
            self.coords = np.array(coords, dtype=float)
            self.calls += 1
            return self.orig(data, coords, *a, **kw)
        self.mod.map_coordinates = fake
        return self
    def __exit__(self, *a):
        self.mod.map_coordinates = self.orig


def wrapped_origin(shape, origin):
    ny, nx = shape
    if origin is None:
        return (ny // 2, nx // 2)
    o0, o1 = origin
    return (o0 + ny if o0 < 0 else o0, o1 + nx if o1 < 0 else o1)


def angdiff(a, b):
    return (a - b + np.pi) % TWO_PI - np.pi


def cl_roundtrip(x, y):
    """polar2cart(cart2polar(x, y)) == (x, y)"""
    fails = []
    r, t = _P.cart2polar(np.float64(x), np.float64(y))
    X, Y = _P.polar2cart(r, t)
    tol = 1e-12 * max(1.0, abs(x), abs(y))
    err = max(abs(X - x), abs(Y - y))
    if not err <= tol:
        fails.append(('roundtrip', 'polar2cart(cart2polar(%r, %r)) = (%r, %r)' % (x, y, float(X), float(Y))))
    if not abs(r - np.hypot(x, y)) <= 1e-12 * max(1.0, np.hypot(x, y)):
        fails.append(('roundtrip:radius', 'cart2polar(%r, %r) radius %r' % (x, y, float(r))))
    return fails, {'roundtrip': err / tol}


def cl_roundtrip_inv(r, t):
    """cart2polar(polar2cart(r, t)) == (r, t) for r > 0, -pi < t <= pi"""
    fails = []
    X, Y = _P.polar2cart(np.float64(r), np.float64(t))
    r2, t2 = _P.cart2polar(X, Y)
    e = max(abs(r2 - r) / r, abs(angdiff(t2, t)))
    if not e <= 1e-12:
        fails.append(('roundtrip-inv', 'cart2polar(polar2cart(%r, %r)) = (%r, %r)' % (r, t, float(r2), float(t2))))
    return fails, {'roundtrip-inv': e / 1e-12}


def cl_angle(pts):
    """zero angle up, positive angles to the right, range (-pi, pi]"""
    fails = []
    c2p = lambda x, y: float(_P.cart2polar(np.float64(x), np.float64(y))[1])
    for name, (x, y), want in (('up', (0.0, 1.0), 0.0), ('right', (1.0, 0.0), np.pi / 2),
                               ('left', (-1.0, 0.0), -np.pi / 2), ('down', (0.0, -1.0), np.pi)):
        got = c2p(x, y)
        if not abs(got - want) <= 1e-15:
            fails.append(('angle-convention:' + name, 'cart2polar(%r, %r) angle %r, expected %r' % (x, y, got, want)))
    for x, y in pts:
        th = c2p(x, y)
        if (x > 0 and not th > 0) or (x < 0 and not th < 0):
            fails.append(('angle-convention:sign', 'cart2polar(%r, %r) angle %r has not the sign of x' % (x, y, th)))
            break
    for x, y in pts:
        th = c2p(x, y)
        if not (-np.pi < th <= np.pi):
            fails.append(('angle-convention:range', 'cart2polar(%r, %r) angle %r outside (-pi, pi]' % (x, y, th)))
            break
    for x, y in pts:       # angle grows clockwise from the upward direction: (sin, cos) decomposition
        r, th = _P.cart2polar(np.float64(x), np.float64(y))
        if not (abs(r * np.sin(th) - x) <= 1e-12 * max(1, r) and abs(r * np.cos(th) - y) <= 1e-12 * max(1, r)):
            fails.append(('angle-convention:sincos', 'cart2polar(%r, %r) = (%r, %r): x != r sin, y != r cos' % (x, y, float(r), float(th))))
            break
    return fails, {}


def cl_index_coords(shape, origin):
    """(0,0) at the requested origin (negative origins from the end), x right, y up"""
    fails = []
    ny, nx = shape
    data = np.zeros(shape)
    x, y = _P.index_coords(data, origin=None if origin is None else tuple(origin))
    o0, o1 = wrapped_origin(shape, origin)
    if x.shape != (ny, nx) or y.shape != (ny, nx):
        return [('index_coords:shape', 'shapes %r %r for data %r' % (x.shape, y.shape, shape))], {}
    J, I = np.meshgrid(np.arange(nx), np.arange(ny))
    if not (np.allclose(x, J - o1, rtol=0, atol=1e-12) and np.allclose(y, o0 - I, rtol=0, atol=1e-12)):
        fails.append(('index_coords:values', 'shape %r origin %r: x != j - %r or y != %r - i' % (shape, origin, o1, o0)))
    if float(o0).is_integer() and float(o1).is_integer() and 0 <= o0 < ny and 0 <= o1 < nx:
        if x[int(o0), int(o1)] != 0 or y[int(o0), int(o1)] != 0:
            fails.append(('index_coords:origin', 'shape %r origin %r: coordinates at the origin pixel are (%r, %r)'
                          % (shape, origin, float(x[int(o0), int(o1)]), float(y[int(o0), int(o1)]))))
    if nx > 1 and not np.all(x[:, 1:] - x[:, :-1] == 1):
        fails.append(('index_coords:x-right', 'shape %r origin %r: x does not grow by 1 per column' % (shape, origin)))
    if ny > 1 and not np.all(y[1:] - y[:-1] == -1):
        fails.append(('index_coords:y-up', 'shape %r origin %r: y does not fall by 1 per row' % (shape, origin)))
    return fails, {}


def cl_reproject(shape, origin, dr, dt, seed):
    """sample (k, l) is read at row o0 - r cos(theta), column o1 + r sin(theta), (r, theta) =
    (r_grid[k, l], theta_grid[k, l]); grids are regular, start at the pixel minima"""
    fails = []
    IM = np.random.default_rng(seed).normal(size=shape)
    with Capture(_P) as cap:
        pol, R, T = _P.reproject_image_into_polar(IM, origin=None if origin is None else tuple(origin), dr=dr, dt=dt)
    o0, o1 = wrapped_origin(shape, origin)
    if pol.size == 0:
        return fails, {}
    if cap.coords is None or cap.coords.shape != (2, pol.size):
        return [('reproject:positions', 'map_coordinates not called with a (2, nr*nt) coordinate array')], {}
    rows = cap.coords[0].reshape(pol.shape)
    cols = cap.coords[1].reshape(pol.shape)
    scale = 1 + abs(o0) + abs(o1) + np.abs(R).max()
    e = max(np.abs(rows - (o0 - R * np.cos(T))).max(), np.abs(cols - (o1 + R * np.sin(T))).max()) / scale
    if not e <= 1e-12:
        k, l = np.unravel_index(np.argmax(np.abs(rows - (o0 - R * np.cos(T))) + np.abs(cols - (o1 + R * np.sin(T)))), pol.shape)
        fails.append(('reproject:positions', 'shape %r origin %r dr %r dt %r: sample (%d, %d) read at (%r, %r), expected (%r, %r)'
                      % (shape, origin, dr, dt, k, l, float(rows[k, l]), float(cols[k, l]),
                         float(o0 - R[k, l] * np.cos(T[k, l])), float(o1 + R[k, l] * np.sin(T[k, l])))))
    # grids
    J, I = np.meshgrid(np.arange(shape[1]), np.arange(shape[0]))
    px_r = np.hypot(J - o1, o0 - I)
    px_t = np.arctan2(J - o1, o0 - I)
    ok = (np.all(R == R[:, :1]) and np.all(T == T[:1]) and abs(R[0, 0] - px_r.min()) <= 1e-12 * scale
          and abs(T[0, 0] - px_t.min()) <= 1e-12)
    if ok and R.shape[0] > 1:
        ok = np.allclose(np.diff(R[:, 0]), (px_r.max() - px_r.min()) / R.shape[0], rtol=1e-9, atol=1e-12)
    if ok and R.shape[1] > 1:
        ok = np.allclose(np.diff(T[0]), (px_t.max() - px_t.min()) / T.shape[1], rtol=1e-9, atol=1e-12)
    if not ok:
        fails.append(('reproject:grids', 'shape %r origin %r dr %r dt %r: r/theta grids are not the regular grids from the pixel minima'
                      % (shape, origin, dr, dt)))
    return fails, {'reproject:positions': e / 1e-12}


def cl_reproject_linear(shape, origin, dr, a, b, c):
    """interpolated values: the image a*x + b*y + c (x right, y up, relative to the origin) must come out
    as a r sin(theta) + b r cos(theta) + c well inside the image (cubic splines reproduce it)"""
    ny, nx = shape
    o0, o1 = wrapped_origin(shape, origin)
    J, I = np.meshgrid(np.arange(nx), np.arange(ny))
    IM = a * (J - o1) + b * (o0 - I) + c
    pol, R, T = _P.reproject_image_into_polar(IM, origin=None if origin is None else tuple(origin), dr=dr)
    rin = min(o0, o1, ny - 1 - o0, nx - 1 - o1) - 14
    m = R <= rin
    if not m.any():
        return [], {}
    want = a * R * np.sin(T) + b * R * np.cos(T) + c
    scale = (abs(a) + abs(b)) * rin + abs(c) + 1e-300
    e = np.abs(pol - want)[m].max() / scale
    fails = []
    if not e <= 1e-6:
        fails.append(('reproject:values', 'shape %r origin %r dr %r: polar image of %r*x + %r*y + %r deviates by %.3g (relative)'
                      % (shape, origin, dr, a, b, c, e)))
    return fails, {'reproject:values': e / 1e-6}


KIND_WRAPPERS = (('int2D', 'angular_integration_2D'), ('int3D', 'angular_integration_3D'),
                 ('avg2D', 'average_radial_intensity_2D'), ('avg3D', 'average_radial_intensity_3D'))


def cl_kinds(shape, origin, dr, dt, seed):
    """int2D == 2 pi r avg2D, int3D == 4 pi r^2 avg3D exactly; the four wrappers == radial_intensity(kind)"""
    fails = []
    IM = np.random.default_rng(seed).normal(size=shape) + 0.5
    org = None if origin is None else tuple(origin)
    res = {k: _V.radial_intensity(k, IM, origin=org, dr=dr, dt=dt) for k, _ in KIND_WRAPPERS}
    r = res['int2D'][0]
    meas = {}
    for k, _ in KIND_WRAPPERS:
        if not np.array_equal(res[k][0], r):
            fails.append(('kinds:radii', 'kind %s returns a different radial grid' % k))
    if r.size:
        for tag, a, b, fac in (('int2D-vs-avg2D', 'int2D', 'avg2D', TWO_PI * r), ('int3D-vs-avg3D', 'int3D', 'avg3D', 4 * np.pi * r**2)):
            lhs, rhs = res[a][1], fac * res[b][1]
            scale = max(np.abs(lhs).max(), np.abs(rhs).max(), 1e-300)
            e = np.abs(lhs - rhs).max() / scale
            meas[tag] = e / 1e-12
            if not e <= 1e-12:
                fails.append((tag, 'shape %r origin %r dr %r dt %r: %s deviates from its Jacobian times %s by %.3g (relative)'
                              % (shape, origin, dr, dt, a, b, e)))
    for k, w in KIND_WRAPPERS:
        rw, iw = getattr(_V, w)(IM, origin=org, dr=dr, dt=dt)
        if not (np.array_equal(rw, res[k][0]) and np.array_equal(iw, res[k][1])):
            fails.append(('wrapper:' + w, '%s differs from radial_intensity(%r) for shape %r origin %r dr %r dt %r'
                          % (w, k, shape, origin, dr, dt)))
    return fails, meas


def profile(prof, r):
    return sum(a * np.exp(-(r - c)**2 / (2 * s * s)) for a, c, s in prof)


def theta_deficit(shape, o0, o1):
    """2 pi minus the span of the pixel angles: what the angular grid (theta.min() .. theta.max(),
    endpoint excluded) does not cover"""
    J, I = np.meshgrid(np.arange(shape[1]), np.arange(shape[0]))
    t = np.arctan2(J - o1, o0 - I)
    return TWO_PI - (t.max() - t.min())


def cl_isotropic(shape, origin, dr, prof):
    """isotropic image f(r): avg2D, avg3D return f(r); int2D 2 pi r f(r); int3D 4 pi r^2 f(r);
    total intensity conserved.  Tolerances: 2D kinds 1.5 delta/2pi + INTERP, 3D kinds
    0.5 delta^2 + INTERP, delta = theta_deficit (see the notes of the check)."""
    fails, meas = [], {}
    ny, nx = shape
    o0, o1 = wrapped_origin(shape, origin)
    J, I = np.meshgrid(np.arange(nx), np.arange(ny))
    IM = profile(prof, np.hypot(J - o1, o0 - I))
    rin = min(o0, o1, ny - 1 - o0, nx - 1 - o1)
    d = theta_deficit(shape, o0, o1)
    tol = {2: 1.5 * d / TWO_PI + INTERP, 3: 0.5 * d * d + INTERP}
    org = None if origin is None else tuple(origin)
    for kind, jac, dim in (('avg2D', lambda r: 1 + 0 * r, 2), ('avg3D', lambda r: 1 + 0 * r, 3),
                           ('int2D', lambda r: TWO_PI * r, 2), ('int3D', lambda r: 4 * np.pi * r**2, 3)):
        r, inten = _V.radial_intensity(kind, IM, origin=org, dr=dr)
        m = (r >= 2) & (r <= rin - 2)
        want = profile(prof, r) * jac(r)
        e = np.abs(inten - want)[m].max() / np.abs(want[m]).max()
        meas['profile:' + kind] = e / tol[dim]
        if not e <= tol[dim]:
            fails.append(('profile:' + kind, 'shape %r origin %r dr %r profile %r: %s deviates from the radial profile by %.3g '
                          '(relative to its maximum; tolerance %.3g)' % (shape, origin, dr, prof, kind, e, tol[dim])))
        if kind in ('int2D', 'int3D') and r.size > 1:
            step = r[1] - r[0]                      # the actual radial spacing (<= dr: nr = ceil(range/dr))
            got = inten.sum() * step
            if kind == 'int2D':
                ref = IM.sum()
            else:
                rr = np.linspace(0, rin, 40001)
                ref = trapz(profile(prof, rr) * 4 * np.pi * rr**2, rr)
            t = tol[dim] + 3e-3 * max(1.0, dr)**2   # + quadrature in r and angular undersampling (step up to 2 px)
            e = abs(got - ref) / abs(ref)
            meas['total:' + kind] = e / t
            if not e <= t:
                fails.append(('total:' + kind, 'shape %r origin %r dr %r profile %r: sum(%s) * step = %r, image total %r (relative deviation %.3g, tolerance %.3g)'
                              % (shape, origin, dr, prof, kind, float(got), float(ref), e, t)))
    return fails, meas


def trapz(y, x):
    return float(np.sum((y[1:] + y[:-1]) * np.diff(x)) / 2)


def cl_topes(radial, intensity, c, per_energy, hv, Vrep, zoom, smooth):
    """energy axis E = c r^2 (or hv - c r^2) ascending; PES_i dE/dr_i = I_i pointwise (per energy), PES_i 2 r_i = I_i
    (per pixel); element 0 only divided by c; Vrep/zoom rescale c; integral conserved"""
    fails, meas = [], {}
    r = np.array(radial, dtype=float)
    I = np.array(intensity, dtype=float)
    kw = dict(per_energy_scaling=per_energy, photon_energy=hv)
    if Vrep is not None:
        kw.update(Vrep=Vrep, zoom=zoom)
    E, P = _V.toPES(r.copy(), I.copy(), c, **kw)
    ceff = c * abs(Vrep) / zoom**2 if Vrep is not None else c
    Es = ceff * r**2 if hv is None else hv - ceff * r**2
    order = np.argsort(Es, kind='stable')
    escale = max(np.abs(Es).max(), 1e-300)
    if not (E.shape == Es.shape and np.abs(E - Es[order]).max() <= 1e-12 * escale):
        fails.append(('toPES:energy-axis', 'energy axis is not %s for c=%r hv=%r Vrep=%r zoom=%r' %
                      ('c r^2' if hv is None else 'hv - c r^2', c, hv, Vrep, zoom)))
        return fails, meas
    if not np.all(np.diff(E) >= 0):
        fails.append(('toPES:sorted', 'energy axis not ascending'))
    Pi = np.empty_like(P)
    Pi[order] = P                                     # back to the order of `radial`
    jac = (2 * ceff * r) if per_energy else (2 * r)
    iscale = max(np.abs(I).max(), 1e-300)
    e = np.abs(Pi[1:] * jac[1:] - I[1:]).max() / iscale if r.size > 1 else 0.0
    meas['toPES:jacobian'] = e / 1e-12
    if not e <= 1e-12:
        fails.append(('toPES:jacobian', 'PES * %s != intensity (relative deviation %.3g) for c=%r per_energy_scaling=%r hv=%r Vrep=%r zoom=%r'
                      % ('dE/dr' if per_energy else '2r', e, c, per_energy, hv, Vrep, zoom)))
    e0 = abs(Pi[0] * (ceff if per_energy else 1.0) - I[0]) / iscale
    if not e0 <= 1e-12:
        fails.append(('toPES:element0', 'first element: PES[0] = %r for intensity[0] = %r, c = %r' % (float(Pi[0]), float(I[0]), ceff)))
    # the same arrays handed to a second call (what a caller looping over calibrations does) give the same spectrum
    rs, Is = r.copy(), I.copy()
    _V.toPES(rs, Is, c, **kw)
    E3, P3 = _V.toPES(rs, Is, c, **kw)
    if not (np.array_equal(E3, E) and np.array_equal(P3, P)):
        fails.append(('toPES:repeat', 'second call on the same radial / intensity arrays returns a different spectrum '
                      '(c=%r per_energy_scaling=%r hv=%r Vrep=%r zoom=%r): Jacobian applied to already divided data' % (c, per_energy, hv, Vrep, zoom)))
    if Vrep is not None:
        E2, P2 = _V.toPES(r.copy(), I.copy(), ceff, per_energy_scaling=per_energy, photon_energy=hv)
        if not (np.allclose(E2, E, rtol=1e-12, atol=0) and np.allclose(P2, P, rtol=1e-12, atol=1e-300)):
            fails.append(('toPES:vrep', 'Vrep=%r zoom=%r is not the rescaling c -> c |Vrep| / zoom^2' % (Vrep, zoom)))
    if smooth and r.size > 2:
        lhs = trapz(P, E)
        rhs = trapz(I, r) * (1.0 if per_energy else ceff)
        e = abs(lhs - rhs) / abs(rhs)
        meas['toPES:integral'] = e / 2e-3
        if not e <= 2e-3:
            fails.append(('toPES:integral', 'integral of PES over E = %r, integral of the intensity over r %s = %r'
                          % (lhs, '' if per_energy else '* c', rhs)))
    return fails, meas


def cl_circ_const(shape, seed, c, ref):
    """constant correction: the image comes back unchanged, and it is read at (i, j) itself.
    Sub-clause border-zeroed: the only change is that pixels of the outermost rows/columns became exactly 0
    while the sampling positions are the identity to 1e-9 (round-off pushes them ~1e-15 outside the image,
    where map_coordinates(mode='constant') returns 0)."""
    fails = []
    IM = np.random.default_rng(seed).normal(size=shape) + 3
    f = lambda th: c + 0 * th
    with Capture(_C) as cap:
        out = _C.circularize(IM, f, ref_angle=ref)
    I, J = np.indices(shape)
    map_ok = (cap.coords is not None and cap.coords.shape == (2,) + tuple(shape)
              and np.abs(cap.coords[0] - I).max() <= 1e-9 and np.abs(cap.coords[1] - J).max() <= 1e-9)
    changed = np.abs(out - IM) > 1e-9 * np.abs(IM).max()
    e = np.abs(out - IM).max() / np.abs(IM).max()
    e_int = e
    if changed.any():
        border = np.ones(shape, dtype=bool)
        border[1:-1, 1:-1] = False
        if map_ok and not changed[~border].any() and np.all(out[changed] == 0):
            fails.append(('circularize:const:border-zeroed',
                          'shape %r constant correction %r ref_angle %r: %d pixels of the outermost rows/columns are returned as 0 '
                          '(interior unchanged, sampling positions equal to the pixel positions to 1e-9)'
                          % (shape, c, ref, int(changed.sum()))))
            e_int = np.abs(out - IM)[~border].max() / np.abs(IM).max() if (~border).any() else 0.0
        else:
            fails.append(('circularize:const', 'shape %r constant correction %r ref_angle %r: image changed by %.3g (relative)'
                          % (shape, c, ref, e)))
    if not map_ok:
        fails.append(('circularize:const-map', 'shape %r constant correction %r ref_angle %r: pixels are not read at their own position'
                      % (shape, c, ref)))
    return fails, {'circularize:const': e_int / 1e-9}


CIRC_IMAGE_TOL = 1e-4     # unchanged tree: <= 3e-5 (lsq fit noise ~1e-5 in the scale factor), see notes


def cl_circ_image(n, c, s, method, ref):
    """an already circular image (a ring vanishing before the border) is returned (nearly) unchanged.
    method 'argmax' locates the ring only to the nearest radial grid point (documented in PyAbel), so for it the
    ring radius is moved onto a point of the radial grid (step = rmax / ceil(rmax / dr))."""
    J, I = np.meshgrid(np.arange(n), np.arange(n))
    rad = np.hypot(J - n // 2, n // 2 - I)
    if method == 'argmax':
        step = rad.max() / np.ceil(rad.max() / 0.5)
        c = round(c / step) * step
    IM = np.exp(-(rad - c)**2 / (2 * s * s))
    out = _C.circularize_image(IM, method=method, dr=0.5, dt=0.5, ref_angle=ref)
    e = np.abs(out - IM).max() / IM.max()
    fails = []
    if not e <= CIRC_IMAGE_TOL:
        fails.append(('circularize_image:' + method, 'ring r=%r width %r on %dx%d, ref_angle %r: image changed by %.3g (relative)'
                      % (c, s, n, n, ref, e)))
    return fails, {'circularize_image:' + method: e / CIRC_IMAGE_TOL}


def cl_circ_map(shape, a, phi, b, ref, seed):
    """non-constant correction f: pixel (i, j) is read at the position scaled radially by factor / f(theta)
    about (nrow // 2, ncol // 2), theta = arctan2(X, Y) measured from the upward direction"""
    IM = np.random.default_rng(seed).normal(size=shape)
    f = lambda th: 1 + a * np.cos(th - phi) + b * np.cos(2 * th)
    with Capture(_C) as cap:
        _C.circularize(IM, f, ref_angle=ref)
    nrow, ncol = shape
    I, J = np.indices(shape)
    X = J - ncol // 2
    Y = nrow // 2 - I
    th = np.arctan2(X, Y)
    fac = np.mean(f(th)) if ref is None else f(ref)
    rows = nrow // 2 - Y * fac / f(th)
    cols = X * fac / f(th) + ncol // 2
    fails = []
    scale = 1 + nrow + ncol
    if cap.coords is None or cap.coords.shape != (2,) + tuple(shape):
        return [('circularize:map', 'map_coordinates not called with one (row, col) pair per pixel')], {}
    e = max(np.abs(cap.coords[0] - rows).max(), np.abs(cap.coords[1] - cols).max()) / scale
    if not e <= 1e-12:
        fails.append(('circularize:map', 'shape %r f = 1 + %r cos(t - %r) + %r cos 2t, ref_angle %r: sampling positions deviate by %.3g'
                      % (shape, a, phi, b, ref, e)))
    return fails, {'circularize:map': e / 1e-12}


def cl_sequence(shape, calls, seed):
    """state independence: a sequence of calls on same-size images (different origins / dr / dt / kinds) made in one
    process; every call must return exactly what the same call returns when it is the first one made in a fresh state
    (abel.tools.polar and abel.tools.vmi are re-imported for the reference).  calls = [[function, origin, dr, dt], ...] with function one of the
    four kinds, the four wrappers, 'reproject' and 'reprojectJ'."""
    import importlib
    rng = np.random.default_rng(seed)
    ims = [rng.normal(size=shape) + 0.5 for _ in calls]

    def one(V, P, fn, IM, origin, dr, dt):
        org = None if origin is None else tuple(origin)
        if fn in ('int2D', 'int3D', 'avg2D', 'avg3D'):
            return V.radial_intensity(fn, IM.copy(), origin=org, dr=dr, dt=dt)
        if fn in ('reproject', 'reprojectJ'):
            return P.reproject_image_into_polar(IM.copy(), origin=org, Jacobian=(fn == 'reprojectJ'), dr=dr, dt=dt)
        return getattr(V, fn)(IM.copy(), origin=org, dr=dr, dt=dt)

    seq = [one(_V, _P, c[0], im, c[1], c[2], c[3]) for c, im in zip(calls, ims)]
    fails, worst = [], 0.0
    for k, (c, im) in enumerate(zip(calls, ims)):
        P = importlib.reload(_P)
        V = importlib.reload(_V)
        ref = one(V, P, c[0], im, c[1], c[2], c[3])
        for a, b in zip(seq[k], ref):
            a, b = np.asarray(a, dtype=float), np.asarray(b, dtype=float)
            if a.shape != b.shape:
                fails.append(('sequence:' + c[0], 'call %d of the sequence (%s, shape %r origin %r dr %r dt %r): result shape %r, %r when '
                              'made first' % (k + 1, c[0], shape, c[1], c[2], c[3], a.shape, b.shape)))
                break
            if a.size:
                e = float(np.abs(a - b).max() / max(float(np.abs(b).max()), 1e-300))
                worst = max(worst, e)
                if not e <= 1e-12:
                    fails.append(('sequence:' + c[0], 'call %d of the sequence (%s, shape %r origin %r dr %r dt %r) differs by %.3g '
                                  '(relative) from the same call made first in a fresh state; earlier calls: %r'
                                  % (k + 1, c[0], shape, c[1], c[2], c[3], e, [x[:2] for x in calls[:k]])))
                    break
    importlib.reload(_P)
    importlib.reload(_V)
    return fails, {'sequence': worst / 1e-12}


DTYPE_FUNCS = ('reproject', 'reprojectJ', 'int2D', 'int3D', 'avg2D', 'avg3D', 'angular_integration_2D',
               'angular_integration_3D', 'average_radial_intensity_2D', 'average_radial_intensity_3D',
               'radial_integration', 'circularize_const', 'circularize', 'circularize_image_argmax',
               'circularize_image_lsq')


def counts_image(shape, dtype, seed):
    """a counts-like image (ring + background noise) whose values are integers representable in dtype"""
    rng = np.random.default_rng(seed)
    ny, nx = shape
    J, I = np.meshgrid(np.arange(nx), np.arange(ny))
    rad = np.hypot(J - nx // 2, I - ny // 2)
    top = 200 if dtype == 'uint8' else 5000
    base = top * np.exp(-(rad - 0.3 * min(ny, nx))**2 / (2 * (1 + 0.06 * min(ny, nx))**2)) + rng.integers(0, top // 10 + 1, size=shape)
    return np.round(base).astype(dtype)


def cl_dtype(func, shape, dtype, origin, dr, dt, seed):
    """dtype independence: the result for an image stored as uint8 / uint16 / int32 / int64 / float32 equals the
    result for its float64 copy (every such value is exactly representable in float64).  circularize with a
    non-constant correction and circularize_image return the dtype of the input (scipy), so for them only
    floating-point dtypes are compared (float32: to single precision); integer dtypes are compared for the
    constant-correction case, where the samples are the pixel values themselves."""
    IM = counts_image(shape, dtype, seed)
    org = None if origin is None else tuple(origin)
    kw = dict(origin=org, dr=dr, dt=dt)
    tol = 1e-12
    if func in ('reproject', 'reprojectJ'):
        f = lambda X: _P.reproject_image_into_polar(X, Jacobian=(func == 'reprojectJ'), **kw)
    elif func in ('int2D', 'int3D', 'avg2D', 'avg3D'):
        f = lambda X: _V.radial_intensity(func, X, **kw)
    elif func in ('angular_integration_2D', 'angular_integration_3D', 'average_radial_intensity_2D',
                  'average_radial_intensity_3D'):
        f = lambda X: getattr(_V, func)(X, **kw)
    elif func == 'radial_integration':
        rmax = max(2, min(shape) // 2 - 1)
        f = lambda X: _V.radial_integration(X, [(1, rmax), (rmax // 2, rmax)])
    elif func == 'circularize_const':
        f = lambda X: _C.circularize(X, lambda th: 1.25 + 0 * th)
    elif func == 'circularize':
        f = lambda X: _C.circularize(X, lambda th: 1 + 0.05 * np.cos(th))
        tol = 1e-5 if dtype == 'float32' else 1e-12
    else:
        f = lambda X: _C.circularize_image(X, method=func.rsplit('_', 1)[1], dr=0.5, dt=0.5)
        tol = 1e-5 if dtype == 'float32' else 1e-12
    ref = f(IM.astype(np.float64))
    out = f(IM)
    flat = lambda x: [np.asarray(a) for a in (x if isinstance(x, (tuple, list)) else (x,))]
    fails, worst = [], 0.0
    A, B = flat(out), flat(ref)
    if len(A) != len(B):
        return [('dtype:' + func, 'dtype %s: different number of results' % dtype)], {}
    for k, (a, b) in enumerate(zip(A, B)):
        if a.shape != b.shape:
            fails.append(('dtype:' + func, 'shape %r dtype %s origin %r: result %d has shape %r, %r for the float64 copy'
                          % (shape, dtype, origin, k, a.shape, b.shape)))
            continue
        if a.size == 0:
            continue
        if func.startswith('circularize') and func != 'circularize_const':
            ok_kind = True
        else:
            ok_kind = func.startswith('circularize') or a.dtype.kind == 'f'
        e = float(np.abs(a.astype(float) - b.astype(float)).max() / max(float(np.abs(b).max()), 1e-300))
        worst = max(worst, e)
        if not (e <= tol and ok_kind):
            fails.append(('dtype:' + func, 'shape %r dtype %s origin %r dr %r dt %r: result %d (dtype %s) differs from the result for the '
                          'float64 copy of the same image by %.3g (relative)' % (shape, dtype, origin, dr, dt, k, a.dtype, e)))
    return fails, {'dtype:' + func: worst / tol}
'''

ORA = {}
exec(compile(ORACLES_SRC, '<C19 oracles>', 'exec'), ORA)


def snippet(clause, args):
    return (ORACLES_SRC + '\nargs = json.loads(%r)\nfails, meas = cl_%s(**args)\n'
            'for k, d in fails:\n    print("C19 clause fails:", k, "--", d)\n'
            'if not fails:\n    print("clause %s holds for", args)\n'
            'sys.exit(1 if fails else 0)\n' % (json.dumps(args), clause, clause))


class Search:
    def __init__(self):
        self.hits = []
        self.n_eval = 0
        self.distinct = set()
        self.margin = {}          # measure -> worst observed error / tolerance
        self.samples = []

    def run(self, clause, cls, **args):
        """evaluate one oracle; cls = the class of this input for the distinct count"""
        self.n_eval += 1
        self.distinct.add((clause,) + tuple(cls))
        try:
            fails, meas = ORA['cl_' + clause](**args)
        except Exception as e:      # an exception on a valid request is a failure of the clause
            fails, meas = [(clause + ':exception', '%s: %s' % (type(e).__name__, e))], {}
        for k, v in meas.items():
            if v == v:
                self.margin[k] = max(self.margin.get(k, 0.0), float(v))
        if len(self.samples) < 12 and len([s for s in self.samples if s['clause'] == clause]) < 1:
            short = {k: (v[:6] + ['...'] if isinstance(v, list) and len(v) > 8 else v) for k, v in args.items()}
            self.samples.append(dict(clause=clause, args=short, failures=[k for k, _ in fails]))
        for sub, detail in fails:
            self.hits.append(Hit(sub, 'C19:' + sub, detail, snippet(clause, args), dict(clause=clause, args=args)))
        return not fails


# ---------------------------------------------------------------------------
# input generators
# ---------------------------------------------------------------------------
def rand_origin(rng, shape, big=False):
    """(origin, class): None / integer / negative / fractional"""
    ny, nx = shape
    u = rng.random()
    if u < 0.25:
        return None, 'none'
    if big:
        o = (ny // 2 + float(rng.integers(-4, 5)), nx // 2 + float(rng.integers(-4, 5)))
    else:
        o = (float(rng.integers(0, ny)), float(rng.integers(0, nx)))
    if u < 0.5:
        return [o[0], o[1]], 'int'
    if u < 0.75:
        return [o[0] - ny, o[1] - nx], 'neg'
    f = [min(max(o[0] + float(rng.integers(-3, 4)) / 4, 0.0), ny - 1.0), min(max(o[1] + float(rng.integers(-3, 4)) / 8, 0.0), nx - 1.0)]
    return f, 'frac'


def rand_profile(rng, rin):
    ng = int(rng.integers(1, 4))
    prof = []
    for _ in range(ng):
        s = max(2.5, float(rng.uniform(0.08, 0.2)) * rin)
        c = min(float(rng.uniform(0.2, 0.75)) * rin, rin - 4 * s - 1)
        prof.append([round(float(rng.uniform(0.3, 1.0)), 3), round(max(c, 0.0), 3), round(s, 3)])
    return prof


def search(ctx, rng, mult):
    S = Search()
    q = ctx.quick
    # round trips, angle convention
    pts = [[0.0, 1.0], [1.0, 0.0], [-1.0, 0.0], [0.0, -1.0], [0.0, 0.0], [3.0, 4.0], [-3.0, 4.0], [-3.0, -4.0], [3.0, -4.0],
           [1e-8, -1.0], [-1e-8, -1.0], [1e6, 1e-6]]
    for _ in range((60 if q else 900) * mult):
        sc = 10.0 ** rng.integers(-3, 4)
        pts.append([float(rng.normal() * sc), float(rng.normal() * sc)])
    for x, y in pts:
        S.run('roundtrip', (np.sign(x), np.sign(y)), x=x, y=y)
    for i in range((60 if q else 900) * mult):
        t = float(rng.uniform(-np.pi, np.pi)) if i > 6 else [np.pi, -np.pi / 2, np.pi / 2, 0.0, 3.0, -3.0, 1e-9][i]
        r = float(10.0 ** rng.uniform(-3, 3))
        S.run('roundtrip_inv', (int(np.floor(t / (np.pi / 2))),), r=r, t=t)
    S.run('angle', ('all',), pts=pts)
    # index_coords
    shapes_small = [(n, m) for n in range(1, 10) for m in range(1, 10)]
    for it in range((120 if q else 1200) * mult):
        sh = shapes_small[int(rng.integers(len(shapes_small)))] if it % 5 else (int(rng.integers(10, 60)), int(rng.integers(10, 60)))
        org, oc = rand_origin(rng, sh)
        S.run('index_coords', (oc, sh[0] % 2, sh[1] % 2), shape=list(sh), origin=org)
    # reprojection positions and values; relations between the kinds
    DRS = [1, 0.5, 2, 0.75]
    DTS = [None, None, 0.5, 0.3, 1.0]
    for it in range((100 if q else 1200) * mult):
        sh = shapes_small[int(rng.integers(len(shapes_small)))] if it % 4 else (int(rng.integers(10, 40)), int(rng.integers(10, 40)))
        org, oc = rand_origin(rng, sh)
        dr = DRS[int(rng.integers(len(DRS)))]
        dt = DTS[int(rng.integers(len(DTS)))]
        seed = int(rng.integers(1 << 30))
        S.run('reproject', (oc, dr, dt is None, sh[0] % 2, sh[1] % 2), shape=list(sh), origin=org, dr=dr, dt=dt, seed=seed)
        if min(sh) >= 2:
            S.run('kinds', (oc, dr, dt is None, sh[0] % 2, sh[1] % 2), shape=list(sh), origin=org, dr=dr, dt=dt, seed=seed)
    for it in range((12 if q else 120) * mult):
        sh = (int(rng.integers(61, 100)), int(rng.integers(61, 100)))
        org, oc = rand_origin(rng, sh, big=True)
        S.run('reproject_linear', (oc,), shape=list(sh), origin=org, dr=DRS[it % 3],
              a=round(float(rng.normal()), 3), b=round(float(rng.normal()), 3), c=round(float(rng.normal()), 3))
    # isotropic images
    sizes = [51, 61, 71, 81, 101, 121, 151, 201]
    for it in range((32 if q else 360) * mult):
        n = sizes[int(rng.integers(len(sizes)))]
        m = n + int(rng.choice([0, 0, 10, -10, 1]))
        org, oc = rand_origin(rng, (n, m), big=True)
        o0, o1 = ORA['wrapped_origin']((n, m), org)
        rin = min(o0, o1, n - 1 - o0, m - 1 - o1)
        S.run('isotropic', (oc, n, DRS[it % 3]), shape=[n, m], origin=org, dr=DRS[it % 3], prof=rand_profile(rng, rin))
    # toPES
    for it in range((80 if q else 900) * mult):
        smooth = bool(it % 2)
        if smooth:
            n = int(rng.integers(150, 400))
            r = np.arange(n) * float(rng.choice([1.0, 0.5]))
            c0, s0 = float(rng.uniform(0.3, 0.7)) * r[-1], float(rng.uniform(0.05, 0.12)) * r[-1]
            inten = np.exp(-(r - c0)**2 / (2 * s0 * s0)) * float(rng.uniform(0.5, 3))
        else:
            n = int(rng.integers(2, 12))
            r = np.sort(rng.uniform(0.1, 50, n))
            if rng.random() < 0.7:
                r[0] = 0.0
            inten = rng.normal(size=n)
        c = float(10.0 ** rng.uniform(-6, 1))
        per = bool(rng.random() < 0.6)
        hv = None if rng.random() < 0.5 else float(c * r[-1]**2 * rng.uniform(1.0, 2.0))
        Vrep = None if rng.random() < 0.5 else float(rng.choice([-2200.0, 1500.0, -350.5]))
        zoom = 1 if rng.random() < 0.5 else float(rng.choice([2.0, 0.5, 1.5]))
        S.run('topes', (per, hv is None, Vrep is None, zoom == 1, smooth), radial=[float(v) for v in r],
              intensity=[float(v) for v in inten], c=c, per_energy=per, hv=hv, Vrep=Vrep, zoom=zoom, smooth=smooth)
    # circularize (the first case is fixed: it exercises the recorded border finding on every run)
    S.run('circ_const', (0.9, True, 1, 1, 'fixed'), shape=[7, 13], seed=0, c=0.9, ref=None)
    for it in range((48 if q else 450) * mult):
        sh = (int(rng.integers(2, 40)), int(rng.integers(2, 40)))
        c = float(rng.choice([0.5, 1.0, 1.7, 2.0, 0.9, -2.0]))
        ref = None if rng.random() < 0.4 else float(rng.uniform(-np.pi, np.pi))
        S.run('circ_const', (c, ref is None, sh[0] % 2, sh[1] % 2), shape=list(sh), seed=int(rng.integers(1 << 30)), c=c, ref=ref)
    for it in range((12 if q else 120) * mult):
        n = int(rng.choice([51, 71, 101, 151]))
        rin = n // 2
        s = max(2.5, float(rng.uniform(0.05, 0.09)) * rin)
        c = min(float(rng.uniform(0.35, 0.6)) * rin, rin - 6.5 * s)
        S.run('circ_image', (n, ['argmax', 'lsq'][it % 2], it % 4 < 2), n=n, c=round(c, 3), s=round(s, 3),
              method=['argmax', 'lsq'][it % 2], ref=None if it % 4 < 2 else round(float(rng.uniform(-3, 3)), 3))
    # state independence: sequences of calls on same-size images with different origins / grids / kinds
    SEQ_FUNCS = ['int2D', 'int3D', 'avg2D', 'avg3D', 'angular_integration_2D', 'angular_integration_3D',
                 'average_radial_intensity_2D', 'average_radial_intensity_3D', 'reproject', 'reprojectJ']
    for it in range((10 if q else 120) * mult):
        sh = (int(rng.integers(8, 36)), int(rng.integers(8, 36)))
        corners = [[0.0, 0.0], [0.0, sh[1] - 1.0], [sh[0] - 1.0, 0.0], [-1.0, -1.0], [float(-sh[0]), float(-sh[1])], None,
                   [sh[0] // 2 + 0.0, sh[1] // 2 + 0.0]]
        calls = []
        same_grid = bool(rng.random() < 0.6)
        dr0, dt0 = DRS[int(rng.integers(len(DRS)))], DTS[int(rng.integers(len(DTS)))]
        for _ in range(int(rng.integers(2, 6))):
            org = corners[int(rng.integers(len(corners)))] if rng.random() < 0.7 else rand_origin(rng, sh)[0]
            fn = SEQ_FUNCS[int(rng.integers(len(SEQ_FUNCS)))] if rng.random() < 0.5 else ['int3D', 'avg3D'][int(rng.integers(2))]
            calls.append([fn, org, dr0 if same_grid else DRS[int(rng.integers(len(DRS)))],
                          dt0 if same_grid else DTS[int(rng.integers(len(DTS)))]])
        S.run('sequence', (len(calls), same_grid, tuple(sorted(set(c[0] for c in calls)))), shape=list(sh), calls=calls,
              seed=int(rng.integers(1 << 30)))
    # dtype independence: every public function of the property on integer and single-precision images
    FUNCS = ORA['DTYPE_FUNCS']
    DTYPES = ['uint8', 'uint16', 'int32', 'int64', 'float32', 'float64']
    k = 0
    for it in range((2 if q else 8) * mult):
        for func in FUNCS:
            for dtype in DTYPES:
                if func in ('circularize', 'circularize_image_argmax', 'circularize_image_lsq') and dtype[0] != 'f':
                    continue            # scipy returns the input dtype there: outside the property (see the oracle)
                k += 1
                slow = func.startswith('circularize_image')
                if slow and (k + it) % 3:
                    continue
                sh = (int(rng.integers(31, 50)), int(rng.integers(31, 50))) if slow else \
                    (int(rng.integers(6, 40)), int(rng.integers(6, 40)))
                org, oc = rand_origin(rng, sh, big=True) if not func.startswith('circ') else (None, 'none')
                S.run('dtype', (func, dtype, oc), func=func, shape=list(sh), dtype=dtype, origin=org,
                      dr=DRS[int(rng.integers(len(DRS)))], dt=DTS[int(rng.integers(len(DTS)))], seed=int(rng.integers(1 << 30)))
    return S


# ---------------------------------------------------------------------------
# tie (b): captured sampling coordinates against the model of coq/model/Polar.v
# ---------------------------------------------------------------------------
def model_positions(shape, origin, dr, dt):
    """Python mirror of model/Polar.v: wrap_origin, grid_r/grid_t (linspace without endpoint between the
    pixel minima and maxima), sample_row/sample_col."""
    from abel.tools.polar import index_coords, cart2polar
    ny, nx = shape
    o0, o1 = ORA['wrapped_origin'](shape, origin)
    x, y = index_coords(np.zeros(shape), origin=None if origin is None else tuple(origin))
    r, th = cart2polar(x, y)
    rmin, rmax, tmin, tmax = r.min(), r.max(), th.min(), th.max()
    nr = int(math.ceil((rmax - rmin) / dr))
    nt = max(nx, ny) if dt is None else int(math.ceil((tmax - tmin) / dt))
    if nr == 0 or nt == 0:
        return nr, nt, None, None, None, None, (rmin, rmax, tmin, tmax)
    rk = rmin + np.arange(nr) * ((rmax - rmin) / nr)
    tl = tmin + np.arange(nt) * ((tmax - tmin) / nt)
    T, R = np.meshgrid(tl, rk)
    return nr, nt, o0 - R * np.cos(T), o1 + R * np.sin(T), R, T, (rmin, rmax, tmin, tmax)


def tie_coordinates(ctx, rng):
    import abel.tools.polar as P
    import abel.tools.circularize as C
    shapes = [(n, m) for n in range(1, 10) for m in range(1, 10)]
    DRS = [1, 0.5, 2]
    DTS = [None, 0.5, 0.3]
    cfgs = []
    for sh in shapes:
        ny, nx = sh
        origins = [None, [float(ny // 2), float(nx // 3)], [-1.0, -float(nx)], [-(ny / 2.0), -1.0],
                   [ny / 4.0, (nx - 1) * 3 / 8.0]]
        for o in origins:
            for dr in DRS:
                for dt in DTS:
                    cfgs.append((sh, o, dr, dt))
    if ctx.quick:
        idx = rng.choice(len(cfgs), size=400, replace=False)
        cfgs = [cfgs[i] for i in sorted(idx)]
    bad, n_cmp, n_ok = [], 0, 0
    dist = {}
    for (sh, o, dr, dt) in cfgs:
        IM = rng.normal(size=sh)
        with ORA['Capture'](P) as cap:
            pol, R, T = P.reproject_image_into_polar(IM, origin=None if o is None else tuple(o), dr=dr, dt=dt)
        nr, nt, rows, cols, Rm, Tm, _ = model_positions(sh, o, dr, dt)
        key = 'reproject/origin=%s/dt=%s' % ('None' if o is None else ('neg' if min(o) < 0 else ('frac' if any(v % 1 for v in o) else 'int')),
                                             'None' if dt is None else 'given')
        dist[key] = dist.get(key, 0) + 1
        ok = pol.shape == (nr, nt)
        if ok and pol.size:
            c = cap.coords
            scale = 1 + np.abs(Rm).max() + abs(rows).max()
            ok = (c is not None and c.shape == (2, nr * nt)
                  and np.abs(c[0].reshape(nr, nt) - rows).max() <= 1e-12 * scale
                  and np.abs(c[1].reshape(nr, nt) - cols).max() <= 1e-12 * scale
                  and np.abs(R - Rm).max() <= 1e-12 * scale and np.abs(T - Tm).max() <= 1e-12)
            n_cmp += 4 * nr * nt
        if ok:
            n_ok += 1
        else:
            bad.append('reproject_image_into_polar shape=%r origin=%r dr=%r dt=%r' % (sh, o, dr, dt))
    # circularize: constant and non-constant corrections
    ncirc = 60 if ctx.quick else 400
    for it in range(ncirc):
        sh = shapes[int(rng.integers(len(shapes)))]
        if it % 3 == 0:
            a, b, phi = 0.0, 0.0, 0.0
        else:
            a, b, phi = round(float(rng.uniform(-0.3, 0.3)), 3), round(float(rng.uniform(-0.2, 0.2)), 3), round(float(rng.uniform(-3, 3)), 3)
        ref = None if it % 2 else round(float(rng.uniform(-np.pi, np.pi)), 3)
        fails, _ = ORA['cl_circ_map'](list(sh), a, phi, b, ref, int(rng.integers(1 << 30)))
        key = 'circularize/%s/ref=%s' % ('const' if it % 3 == 0 else 'nonconst', 'None' if ref is None else 'given')
        dist[key] = dist.get(key, 0) + 1
        n_cmp += 2 * sh[0] * sh[1]
        if fails:
            bad.append('circularize shape=%r f=1+%r cos(t-%r)+%r cos 2t ref_angle=%r' % (sh, a, phi, b, ref))
        else:
            n_ok += 1
    return dict(configs=len(cfgs) + ncirc, ok=n_ok, bad=bad, comparisons=n_cmp, dist=dist)


# ---------------------------------------------------------------------------
# tie (a): per-instance interval goals on the generated definitions
# ---------------------------------------------------------------------------
def rl(x):
    """exact Coq real literal of a Python float / int"""
    f = Fraction(x)
    s = '%d' % abs(f.numerator) if f.denominator == 1 else '(%d / %d)' % (abs(f.numerator), f.denominator)
    return '(- %s)' % s if f < 0 else s


def zl(n):
    return '(%d)%%Z' % n if n < 0 else '%d%%Z' % n


def goal(expr, v, n1=0, n2=0, rel=2.0 ** -40):
    tol = Fraction(rel) * max(1, abs(Fraction(float(v))))
    return 'Goal Rabs (%s - %s) <= %s.\nProof. tie %s %s. Qed.\n' % (expr, rl(float(v)), rl(tol), zl(n1), zl(n2))


CASE_HEADER = ('From Coq Require Import Reals ZArith List.\nFrom Interval Require Import Tactic.\n'
               'From PA Require Import model.Polar gen.FormulasPolar proofs.PolarAtan2 proofs.PolarTie.\n'
               'Import ListNotations.\nOpen Scope R_scope.\n')


def interval_goals(ctx, rng):
    """[(tag, description, goal text)] — every value v comes from a call of the real function."""
    import abel.tools.polar as P
    import abel.tools.vmi as V
    import abel.tools.circularize as C
    G = []
    k = 1 if ctx.quick else 3
    f64 = np.float64
    # cart2polar / polar2cart
    pts = [(0.0, 1.0), (1.0, 0.0), (-1.0, 0.0), (0.0, -1.0), (0.0, 0.0), (-2.0, -3.0)]
    pts += [(float(rng.normal() * 10.0 ** rng.integers(-2, 3)), float(rng.normal() * 10.0 ** rng.integers(-2, 3))) for _ in range(8 * k)]
    for x, y in pts:
        r, t = P.cart2polar(f64(x), f64(y))
        G.append(('cart2polar', 'cart2polar(%r, %r)[0]' % (x, y), goal('fst (cart2polar %s %s)' % (rl(x), rl(y)), r)))
        G.append(('cart2polar', 'cart2polar(%r, %r)[1]' % (x, y), goal('snd (cart2polar %s %s)' % (rl(x), rl(y)), t)))
    for _ in range(6 * k):
        r, t = float(10.0 ** rng.uniform(-2, 2)), float(rng.uniform(-np.pi, np.pi))
        X, Y = P.polar2cart(f64(r), f64(t))
        G.append(('polar2cart', 'polar2cart(%r, %r)[0]' % (r, t), goal('fst (polar2cart %s %s)' % (rl(r), rl(t)), X)))
        G.append(('polar2cart', 'polar2cart(%r, %r)[1]' % (r, t), goal('snd (polar2cart %s %s)' % (rl(r), rl(t)), Y)))
    # index_coords
    for it in range(8 * k):
        sh = (int(rng.integers(1, 10)), int(rng.integers(1, 10)))
        org, oc = rand_origin(rng, sh)
        if it == 0:
            org = None
        x, y = P.index_coords(np.zeros(sh), origin=None if org is None else tuple(org))
        i, j = int(rng.integers(sh[0])), int(rng.integers(sh[1]))
        if org is None:
            a = '%s %s %d %d' % (zl(sh[0]), zl(sh[1]), i, j)
            G.append(('index_coords', 'index_coords(%r, None) x[%d,%d]' % (sh, i, j), goal('index_coords_x_oN ' + a, x[i, j])))
            G.append(('index_coords', 'index_coords(%r, None) y[%d,%d]' % (sh, i, j), goal('index_coords_y_oN ' + a, y[i, j])))
        else:
            a = '%s %s %s %s %d %d' % (zl(sh[0]), zl(sh[1]), rl(org[0]), rl(org[1]), i, j)
            G.append(('index_coords', 'index_coords(%r, %r) x[%d,%d]' % (sh, org, i, j), goal('index_coords_x_oG ' + a, x[i, j])))
            G.append(('index_coords', 'index_coords(%r, %r) y[%d,%d]' % (sh, org, i, j), goal('index_coords_y_oG ' + a, y[i, j])))
    # reproject_image_into_polar: captured coordinates and returned grids
    skipped = 0
    n_rep = 0
    tries = 0
    while n_rep < 6 * k and tries < 200:
        tries += 1
        sh = (int(rng.integers(2, 10)), int(rng.integers(2, 10)))
        org, oc = rand_origin(rng, sh)
        if tries <= 2:
            org = None
        dr = [1, 0.5, 2, 0.75][int(rng.integers(4))]
        dt = [None, 0.5, 0.375, 1.0][int(rng.integers(4))] if tries % 2 else None
        IM = rng.normal(size=sh)
        with ORA['Capture'](P) as cap:
            pol, R, T = P.reproject_image_into_polar(IM, origin=None if org is None else tuple(org), dr=dr, dt=dt)
        nr, nt = pol.shape
        if nr == 0 or nt == 0:
            continue
        _, _, _, _, _, _, (rmin, rmax, tmin, tmax) = model_positions(sh, org, dr, dt)
        # np.ceil is applied to a rounded float quotient; the model applies it to the exact quotient of the same
        # floats: skip the (measure-zero) cases where an integer lies between the two
        exact_nr = math.ceil((Fraction(float(rmax)) - Fraction(float(rmin))) / Fraction(dr))
        exact_nt = nt if dt is None else math.ceil((Fraction(float(tmax)) - Fraction(float(tmin))) / Fraction(dt))
        if exact_nr != nr or exact_nt != nt:
            skipped += 1
            continue
        n_rep += 1
        cfg = '%s_%s' % ('oN' if org is None else 'oG', 'tN' if dt is None else 'tG')
        o = org or [0.0, 0.0]
        for _ in range(2):
            kk, ll = int(rng.integers(nr)), int(rng.integers(nt))
            a = '%s %s %s %s %s %s %s %s %s %s %d %d' % (zl(sh[0]), zl(sh[1]), rl(o[0]), rl(o[1]), rl(rmin), rl(rmax), rl(tmin), rl(tmax),
                                                         rl(dr), rl(dt if dt is not None else 0.0), kk, ll)
            d = 'reproject_image_into_polar(%r, origin=%r, dr=%r, dt=%r) sample (%d,%d)' % (sh, org, dr, dt, kk, ll)
            G.append(('reproject', d + ' row', goal('reproject_row_%s %s' % (cfg, a), cap.coords[0].reshape(nr, nt)[kk, ll], nr, nt)))
            G.append(('reproject', d + ' col', goal('reproject_col_%s %s' % (cfg, a), cap.coords[1].reshape(nr, nt)[kk, ll], nr, nt)))
        G.append(('reproject', d + ' r_grid', goal('reproject_R_%s %s' % (cfg, a), R[kk, ll], nr, nt)))
        G.append(('reproject', d + ' theta_grid', goal('reproject_T_%s %s' % (cfg, a), T[kk, ll], nr, nt)))
    # radial_intensity and its wrappers: one row of the real output against ri_<kind> on the real polar row
    wr = dict(ORA['KIND_WRAPPERS'])
    for it in range(3 * k):
        sh = (int(rng.integers(2, 6)), int(rng.integers(2, 6)))
        org, oc = rand_origin(rng, sh)
        dr = [1, 0.5, 2][it % 3]
        IM = rng.normal(size=sh)
        o = None if org is None else tuple(org)
        pol, R, T = P.reproject_image_into_polar(IM, origin=o, dr=dr)
        if pol.shape[0] == 0 or pol.shape[1] < 2:
            continue
        for kind in ('int2D', 'int3D', 'avg2D', 'avg3D'):
            use_wrapper = bool(rng.random() < 0.5)
            if use_wrapper:
                r, inten = getattr(V, wr[kind])(IM, origin=o, dr=dr)
                fn = wr[kind]
            else:
                r, inten = V.radial_intensity(kind, IM, origin=o, dr=dr)
                fn = 'ri_' + kind
            for kk in sorted(set([0, int(rng.integers(pol.shape[0]))])):
                samples = '[' + '; '.join('(%s, %s)' % (rl(v), rl(t)) for v, t in zip(pol[kk], T[kk])) + ']'
                G.append(('radial_intensity', '%s(%r, origin=%r, dr=%r)[%d]' % (fn, sh, org, dr, kk),
                          goal('%s %s %s %s %s' % (fn, rl(R[kk, 0]), rl(T[0, 0]), rl(T[0, 1]), samples), inten[kk])))
    # toPES
    for vc in 'nV':
        for pc in 'nP':
            for sc in 'tf':
                n = 4
                r = np.sort(rng.uniform(0.5, 30, n))
                r[0] = 0.0 if rng.random() < 0.7 else r[0]
                inten = rng.normal(size=n)
                c = float(10.0 ** rng.uniform(-5, 0))
                hv = None if pc == 'n' else float(c * 1000 * rng.uniform(1, 2))
                Vr = None if vc == 'n' else float(rng.choice([-2200.0, 1500.0]))
                z = 1.0 if vc == 'n' else float(rng.choice([1.0, 2.0, 1.5]))
                kw = dict(per_energy_scaling=(sc == 't'), photon_energy=hv)
                if Vr is not None:
                    kw.update(Vrep=Vr, zoom=z)
                E, Pes = V.toPES(r.copy(), inten.copy(), c, **kw)
                ceff = c * abs(Vr) / z**2 if Vr is not None else c
                order = np.argsort(ceff * r**2 if hv is None else hv - ceff * r**2, kind='stable')
                for m in sorted(set([int(np.where(order == 0)[0][0]), int(rng.integers(n))])):
                    i = int(order[m])
                    a = '%s %s %s %s %s %s' % (rl(r[i]), rl(inten[i]), rl(c), rl(hv or 0.0), rl(Vr or 0.0), rl(z))
                    d = 'toPES(r, I, %r, per_energy_scaling=%r, photon_energy=%r, Vrep=%r, zoom=%r) element of radial[%d]' % (c, sc == 't', hv, Vr, z, i)
                    G.append(('toPES', d + ' energy', goal('toPES_E_%s%s %s' % (vc, pc, a), E[m])))
                    G.append(('toPES', d + ' PES', goal('toPES_I%s_%s%s %s' % ('0' if i == 0 else '', vc, sc, a), Pes[m])))
    # circularize: captured coordinates, f(theta) = 1 + cos(theta)/8
    f = lambda th: 1 + np.cos(th) / 8
    fcoq = '(fun t : R => 1 + cos t / 8)'
    circ_cfgs = [((3, 4), False), ((4, 3), False), ((5, 5), False), ((2, 3), True)]
    if k > 1:
        circ_cfgs += [((4, 6), False), ((3, 2), True), ((2, 2), True)]
    for sh, mean in circ_cfgs:
        ref = None if mean else round(float(rng.uniform(-3, 3)) * 8) / 8
        IM = rng.normal(size=sh)
        with ORA['Capture'](C) as cap:
            C.circularize(IM, f, ref_angle=ref)
        for _ in range(2):
            i, j = int(rng.integers(sh[0])), int(rng.integers(sh[1]))
            if mean:
                pix = '[' + '; '.join('(%d, %d)' % (a, b) for a in range(sh[0]) for b in range(sh[1])) + ']'
                a = '%s %s %s %s %d %d' % (fcoq, pix, zl(sh[0]), zl(sh[1]), i, j)
                cfg = 'mean'
            else:
                a = '%s %s %s %s %d %d' % (fcoq, rl(ref), zl(sh[0]), zl(sh[1]), i, j)
                cfg = 'ref'
            d = 'circularize(%r image, f = 1 + cos/8, ref_angle=%r) pixel (%d,%d)' % (sh, ref, i, j)
            G.append(('circularize', d + ' row', goal('circ_row_%s %s' % (cfg, a), cap.coords[0][i, j])))
            G.append(('circularize', d + ' col', goal('circ_col_%s %s' % (cfg, a), cap.coords[1][i, j])))
    return G, skipped


def tie_interval(ctx, rng):
    G, skipped = interval_goals(ctx, rng)
    nshard = 8 if ctx.quick else 16
    shards = [[] for _ in range(nshard)]
    for n, g in enumerate(G):
        shards[n % nshard].append(g)
    texts = [('C19_%03d' % s, CASE_HEADER + ''.join('(* %s *)\n%s' % (d, t) for _, d, t in sh)) for s, sh in enumerate(shards) if sh]
    outs = vlib.coq_eval_many(texts, timeout=900)
    n_ok, failed = 0, []
    for s, (name, text) in enumerate(texts):
        rc, out = outs[name]
        if rc == 0:
            n_ok += len(shards[s])
            continue
        m = re.search(r'line (\d+), characters', out)
        if m:
            line = int(m.group(1))
            upto = text.split('\n')[:line]
            done = sum(1 for l in upto if l.startswith('Goal ')) - 1
            n_ok += max(done, 0)
            desc = shards[s][max(done, 0)][1] if 0 <= done < len(shards[s]) else '?'
            failed.append('%s: goal for %s fails: %s' % (name, desc, ' '.join(out.split())[-300:]))
        else:
            failed.append('%s: %s' % (name, ' '.join(out.split())[-300:]))
    dist = {}
    for tag, _, _ in G:
        dist[tag] = dist.get(tag, 0) + 1
    return dict(goals=len(G), ok=n_ok, failed=failed, dist=dist, skipped=skipped,
                samples=[d for _, d, _ in G[:3]])


# ---------------------------------------------------------------------------
def run(ctx):
    warnings.simplefilter('ignore')
    rng = np.random.default_rng(ctx.seed)
    t0 = time.time()
    # 0. regenerate the model from the current sources (fail closed)
    translator_error = None
    try:
        from translate import formulas_polar
        formulas_polar.generate()
    except Exception as e:      # noqa
        translator_error = '%s: %s' % (type(e).__name__, e)
    # 1. theorems (+ the tactics the case files need)
    pr = vlib.coq_props('C19', extra_targets=['proofs/PolarTie.vo'])
    tie_tactics_ok = pr['ok'] or ('proofs/PolarTie.v' not in (pr.get('error') or '') and
                                  __import__('os').path.exists(vlib.COQ + '/proofs/PolarTie.vo'))
    # 2. ties
    if translator_error is None and tie_tactics_ok:
        ti = tie_interval(ctx, rng)
    else:
        ti = dict(goals=0, ok=0, failed=['not run: ' + (translator_error or 'proofs/PolarTie.vo not built')], dist={}, skipped=0, samples=[])
    tc = tie_coordinates(ctx, rng)
    broken = (not pr['ok']) or translator_error or ti['failed'] or tc['bad']
    # 3. search on the implementation (4x budget when something above is broken)
    S = search(ctx, rng, 4 if broken else 1)

    nthm = len(pr['theorems'])
    ctx.cov.update(
        obligations=nthm + ti['goals'], discharged=pr['discharged'] + ti['ok'],
        theorems=pr['theorems'], axioms=pr['axioms'],
        checker_cmd='make -C /verif/coq props/C19.vo proofs/PolarTie.vo (coqc 8.16.1, full .vo build) + Print Assumptions; '
                    'coqc cases/C19_*.v (interval goals, each closed by Qed)',
        trusted_base=vlib.TRUSTED_COMMON + [
            'axioms reported by Print Assumptions (the classical real numbers of the Coq standard library): ' + ', '.join(pr['axioms']),
            'tools/translate/formulas_polar.py (Python ast -> Coq; validated on every run by the interval goals)',
            'atan2 of model/Polar.v is np.arctan2 without signed zeros (validated by the interval goals on cart2polar / circularize)',
            'Coq Interval 4.6 (proof-producing, inside the kernel)',
            'scipy.ndimage.map_coordinates (spline evaluation) is outside the model: the model ends at the coordinates handed to it',
        ],
        interval_goals=ti['goals'], interval_goals_proved=ti['ok'], interval_goal_kinds=ti['dist'],
        interval_goals_skipped_ceil_rounding=ti['skipped'],
        traces_validated_against_impl=tc['ok'], coordinate_configs=tc['configs'], coordinates_compared=tc['comparisons'],
        correspondence_disagreements=len(tc['bad']),
        evaluations=S.n_eval + tc['configs'] + ti['goals'], distinct_nontrivial=len(S.distinct),
        rule='search: every oracle call is one evaluation; two inputs are distinct when they differ in (clause, class) where the '
             'class is: sign pattern of (x, y) / quadrant of theta for the round trips; (origin kind None|int|neg|frac, row parity, '
             'column parity) for index_coords; (origin kind, dr, dt given?, parities) for reprojection and the relations between kinds; '
             '(origin kind, size, dr) for isotropic images; (per_energy_scaling, photon_energy given?, Vrep given?, zoom==1, smooth?) '
             'for toPES; (constant, ref_angle given?, parities) for circularize; (size, method, ref given?) for circularize_image',
        samples=S.samples, exhaustive=False,
        input_distribution=dict(coordinate_tie=tc['dist'], interval_goals=ti['dist'],
                                search={c: sum(1 for d in S.distinct if d[0] == c) for c in sorted({d[0] for d in S.distinct})}),
        worst_error_over_tolerance={k: float('%.3g' % v) for k, v in sorted(S.margin.items())},
    )
    ctx.notes += [
        'DECISION on the angular grid (DESIGN F23): reproject_image_into_polar builds theta_i = linspace(theta.min(), theta.max(), nt, '
        'endpoint=False) from the PIXEL angles, so the Riemann sum of radial_intensity covers 2 pi - delta, delta = 2 pi - (theta.max() - '
        'theta.min()) ~ atan(1/half-height) (theorem theta_span_partial states the span from the model). int2D/avg2D of an isotropic '
        'image come out low by delta/2pi (3.2e-3 at 101x101, 6.4e-3 at 51x51, 1.6e-3 at 201x201), the 3D kinds by ~delta^2/3 (|sin| '
        'weight; 1.5e-4 at 101 px off-centre).  This is treated as a discretisation tolerance, not as a defect: it is O(1/size), '
        'vanishes with the image size like the interpolation and Riemann-sum errors, and the property sets no tolerance for the '
        'clauses that are not "exactly".  Sweep tolerances: 2D kinds 1.5 delta/2pi + 2e-3, 3D kinds 0.5 delta^2 + 2e-3 (delta '
        'computed from the actual image and origin), totals + 3e-3 max(1, dr)^2 for the radial quadrature; a lost Jacobian factor (r, 2 pi, '
        'pi, sin, 1/4) changes the result by >= 20 percent.  worst_error_over_tolerance records the margin of this run.',
        'total intensity is computed as sum(int2D) * (r[1] - r[0]): the radial grid step is (rmax - rmin)/ceil((rmax - rmin)/dr) <= dr',
        'circularize_image of a circular image: rings vanishing before the border (pixels whose sampling position falls 1e-15 outside '
        'the image are returned as 0 by map_coordinates); tolerance 1e-4 relative (unchanged tree <= 3e-5: lsq scale-factor noise ~1e-5)',
        'toPES: c < 0 flips the sign of dE/dr; the theorem states PES dE/dr = I (kinetic) / -I (binding, axis sorted ascending) for '
        'c <> 0 and the |dE/dr| form for c > 0; toPES is always called with intensity.copy() (in-place division reported under C18)',
        'wall: ties %.0fs' % (time.time() - t0),
    ]
    ctx.assumptions += [
        'theorems (all inputs, over R, about the definitions generated from the current sources): polar round trip both ways, angle '
        'convention, index_coords origin/negative origin/orientation, reproject sampling positions and their polar coordinates, '
        'angular-grid span (theta_span_partial), int2D = 2 pi r avg2D, int3D = 4 pi r^2 avg3D (any row of samples), the four Jacobians, '
        'toPES pointwise Jacobian identity with Vrep/zoom, circularize with a constant correction is the identity map',
        'per-instance machine-checked goals (interval): each generated formula encloses the float returned by the real function at '
        'sampled arguments (cart2polar, polar2cart, index_coords, captured map_coordinates coordinates and returned grids of '
        'reproject_image_into_polar, rows of radial_intensity and its wrappers, toPES, captured coordinates of circularize)',
        'numerical comparison only (1e-12): all captured sampling coordinates for shapes 1..9 x 1..9 against the Python mirror of model/Polar.v',
        'swept only (no theorem; spline interpolation and Riemann sums are outside the model): isotropic image -> radial profile, total '
        'intensity, toPES integral, circularize_image of a circular image, interpolated values of a linear image',
        'np.arctan2 signed-zero cases and non-finite inputs are outside the model; origins are assumed in [-n, n)',
        'np.mean over the pixels in circularize (ref_angle=None) is modelled as mean_list over the list of pixel coordinates',
    ]
    # 4. verdict
    new = 0
    seen = set()
    for h in S.hits:
        if h.key in seen:
            continue
        seen.add(h.key)
        if ctx.report_hit(h) and h.key != BORDER_KEY:
            new += 1        # the recorded border finding does not explain a broken proof / tie
    if new == 0:
        if translator_error:
            ctx.report_broken('translator', 'tools/translate/formulas_polar.py', translator_error)
        if not pr['ok']:
            ctx.report_broken('proof', pr['broken'] or 'props/C19.v', pr['error'] or '')
        if ti['failed'] and not translator_error and tie_tactics_ok:
            ctx.report_broken('translation-validation', 'gen/FormulasPolar.v vs abel/tools (%d of %d interval goals not proved)'
                              % (ti['goals'] - ti['ok'], ti['goals']), '; '.join(ti['failed'][:3]))
        if tc['bad']:
            ctx.report_broken('correspondence', 'model/Polar.v sampling positions vs abel/tools (%d of %d configurations disagree)'
                              % (len(tc['bad']), tc['configs']), '; '.join(tc['bad'][:5]))
