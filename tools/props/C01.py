# C01 — inverse transforms recover the true source of a smooth projection.
#
#   theorems   coq/props/C01.v (proofs in coq/proofs/AbelPairs.v, AbelPairsGauss.v;
#              definitions in coq/model/AbelPairs.v): the ground-truth pairs of the
#              sweep are true Abel pairs (bumps: all p, all R; Gaussians: exact
#              factorisation + Interval enclosure of the finite-range integral).
#   tie        tools/oracle/pairs.py (the oracle the sweep compares with) is
#              enclosed by those Coq terms at sampled arguments on every run
#              (`interval` / `integral` goals generated into coq/cases).
#   sweep      NOT a proof: the envelope and refinement clauses are evaluated on
#              the implementation against the oracles (tools/oracle/runner.py,
#              sweep.py; envelopes: tools/oracle/envelopes.json).
from oracle import runner

LEVEL = 'proof'


def run(ctx):
    runner.run(ctx, 'C01', 'inverse')
