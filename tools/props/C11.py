# C11 — shipped analytical pairs and sample images are true Abel pairs.
#
#   theorems   coq/props/C11.v (proofs: PairsClosed, PairsProfile4,
#              PairsStepGauss, PairsGrid, on top of the C10 development)
#   tie        translator tools/translate/formulas_pairs.py (Python ast -> Coq
#              real expressions; gen/FormulasPairs.v regenerated on every run)
#              + translation validation: Interval goals |formula(r) - python
#              float| <= tol at sampled r for every translated formula;
#              correspondence of .r/.dr/.mask_valid (Q model, model/Pairs.v),
#              .func/.abel (translated formulas; C10 model for the Polynomial
#              wrappers) for n in {5..12, 101, 1001}
#   search     tools/props/C11_oracle.py: scipy quadrature of the line-of-sight
#              integral of func against .abel for every class/profile/sample image
import json
import os
import re
from fractions import Fraction

import numpy as np

import vlib
from vlib import Hit

LEVEL = 'proof'
HERE = os.path.dirname(os.path.abspath(__file__))
ORACLE_SRC = open(os.path.join(HERE, 'C10_oracle.py')).read() + '\n' + open(os.path.join(HERE, 'C11_oracle.py')).read()
exec(compile(ORACLE_SRC, os.path.join(HERE, 'C11_oracle.py'), 'exec'))

from props import C10 as c10          # generators, poly_scales, literals

Q = vlib.q_lit


def rlit(x):
    f = Fraction(x)
    if f.denominator == 1:
        return '(%d)' % f.numerator
    return '(%d / %d)' % (f.numerator, f.denominator)


TV_HEADER = ('From Coq Require Import Reals List ZArith QArith Qreals Bool Lra.\n'
             'From Interval Require Import Tactic.\n'
             'From PA Require Import base.QClose model.Poly model.AbelPoly model.Pairs proofs.PolyEvalTac gen.FormulasPairs.\n'
             'Import ListNotations.\nOpen Scope R_scope.\n'
             '(* exact decision of comparisons with |.| (samples exactly on a bound: Interval cannot decide equality) *)\n'
             'Ltac rabs_lra := unfold Rabs in *;\n'
             '  repeat match goal with\n'
             '  | H : context [Rcase_abs ?x] |- _ => destruct (Rcase_abs x)\n'
             '  | |- context [Rcase_abs ?x] => destruct (Rcase_abs x)\n'
             '  end; lra.\n'
             'Ltac tv := unfold prof1_source, prof1_proj, prof3_source, prof3_proj, prof4_source, prof4_proj,\n'
             '  prof1_brk, prof3_brk, prof4_brk, prof1_source_l, prof1_source_r, prof1_proj_l, prof1_proj_r,\n'
             '  prof3_source_l, prof3_source_r, prof3_proj_l, prof3_proj_r, prof4_source_l, prof4_source_r,\n'
             '  prof4_proj_l, prof4_proj_r, prof2_source, prof2_proj, prof5_source, prof5_proj, prof6_source,\n'
             '  prof6_proj, prof7_source, prof7_proj, gauss_func, gauss_abel, step_func, step_abel, step_mask_valid;\n'
             '  repeat match goal with\n'
             '  | |- context [Rle_dec ?a ?b] => let H := fresh in destruct (Rle_dec a b) as [H|H];\n'
             '      try (exfalso; first [ lra | rabs_lra | apply (Rle_not_lt b a H); interval | apply H; interval ])\n'
             '  | |- context [Rlt_dec ?a ?b] => let H := fresh in destruct (Rlt_dec a b) as [H|H];\n'
             '      try (exfalso; first [ lra | rabs_lra | apply (Rlt_not_le b a H); interval | apply H; interval ])\n'
             '  end; interval with (i_prec 80).\n')


def tv_goal(name, expr, v, tol):
    return 'Lemma %s : Rabs (%s - %s) <= %s.\nProof. tv. Qed.' % (name, expr, rlit(float(v)), rlit(tol))


def tol_of(v, rel=1e-9):
    return c10.tol_q(abs(float(v)) + 1.0, rel)


def run_goal_files(prefix, goals, shard=10, header=TV_HEADER):
    """goals: list of (tag, lemma text).  Returns (n_ok, bad tags, errors)."""
    texts = []
    line_of = {}
    for k in range(0, len(goals), shard):
        name = '%s_%03d' % (prefix, k // shard)
        lines = header.rstrip('\n').split('\n')
        for tag, g in goals[k:k + shard]:
            for ln in g.split('\n'):
                lines.append(ln)
                line_of[(name, len(lines))] = tag
        texts.append((name, '\n'.join(lines) + '\n'))
    outs = vlib.coq_eval_many(texts, timeout=1500)
    n_ok = 0
    bad = []
    errors = []
    for k, (name, _) in enumerate(texts):
        rc, out = outs[name]
        chunk = [t for t, _ in goals[k * shard:(k + 1) * shard]]
        if rc == 0:
            n_ok += len(chunk)
            continue
        m = re.search(r'File "[^"]*%s\.v", line (\d+)' % name, out)
        if m and (name, int(m.group(1))) in line_of:
            tag = line_of[(name, int(m.group(1)))]
            n_ok += chunk.index(tag)
            bad.append(tag)
        else:
            errors.append((name, out[-400:]))
    return n_ok, bad, errors


# ---------------------------------------------------------------------------
# translation validation
# ---------------------------------------------------------------------------

def translation_validation(ctx, rng, per_profile):
    from abel.tools import transform_pairs as tp
    from abel.tools.analytical import GaussianAnalytical, StepAnalytical
    goals = []
    brk = {1: 0.25, 3: 0.5, 4: 0.7}
    for k in range(1, 8):
        xs = list(rng.uniform(0.005, 0.995, per_profile))
        if k in brk:
            xs += [brk[k], float(np.nextafter(brk[k], 1)), brk[k] * 0.5, (1 + brk[k]) / 2]
        xs += [1.0e-8 if k not in () else 0.01, 1 - 1.0e-8]          # the end points TransformPair uses
        for i, x in enumerate(xs):
            s, p = getattr(tp, 'profile%d' % k)(np.array([x]))
            goals.append((('profile%d source' % k, x), tv_goal('tv_p%d_s%d' % (k, i), 'prof%d_source %s' % (k, rlit(x)), s[0], tol_of(s[0]))))
            goals.append((('profile%d projection' % k, x), tv_goal('tv_p%d_p%d' % (k, i), 'prof%d_proj %s' % (k, rlit(x)), p[0], tol_of(p[0]))))
    for i in range(per_profile):
        A0 = float(rng.uniform(-3, 3)); sg = float(rng.uniform(0.3, 4)); x = float(rng.uniform(0.01, 6))
        # the class evaluates its expressions on self.r: take the values it produced at r = x
        G2 = GaussianAnalytical(3, x, sg, A0, symmetric=False)
        f2, a2 = G2.func[-1], G2.abel[-1]
        xx = float(G2.r[-1])
        goals.append((('gauss_func', (A0, sg, xx)), tv_goal('tv_gf%d' % i, 'gauss_func %s %s %s' % (rlit(A0), rlit(sg), rlit(xx)), f2, tol_of(f2))))
        goals.append((('gauss_abel', (A0, sg, xx)), tv_goal('tv_ga%d' % i, 'gauss_abel %s %s %s' % (rlit(A0), rlit(sg), rlit(xx)), a2, tol_of(a2))))
    for i in range(per_profile):
        A0 = float(rng.uniform(-3, 3)); r1 = float(rng.uniform(0, 4)); r2 = r1 + float(rng.uniform(0.2, 4))
        rmax = r2 + float(rng.uniform(0, 2)); n = int(rng.integers(5, 12))
        S = StepAnalytical(n, rmax, r1, r2, A0, 1.0, symmetric=False)
        j = int(rng.integers(0, n)); x = float(S.r[j])
        if min(abs(x - r1), abs(x - r2)) < 1e-6:
            continue
        goals.append((('step_func', (A0, r1, r2, x)), tv_goal('tv_sf%d' % i, 'step_func %s %s %s %s' % (rlit(A0), rlit(r1), rlit(r2), rlit(x)), S.func[j], tol_of(S.func[j]))))
        goals.append((('step_abel', (A0, r1, r2, x)), tv_goal('tv_sa%d' % i, 'step_abel %s %s %s %s' % (rlit(A0), rlit(r1), rlit(r2), rlit(x)), S.abel[j], tol_of(S.abel[j]))))
    n_ok, bad, errors = run_goal_files('C11_tv', goals, shard=12)
    return dict(goals=len(goals), ok=n_ok, bad=bad, errors=errors)


# ---------------------------------------------------------------------------
# correspondence of the objects: r, dr, mask_valid (Q model), func, abel
# ---------------------------------------------------------------------------

NS = [5, 6, 7, 8, 9, 10, 11, 12, 101, 1001]


def qlist(v):
    return vlib.list_lit([Q(float(x)) for x in v]) + '%Q'


def blist(v):
    return vlib.list_lit([vlib.bool_lit(bool(x)) for x in v])


def away(r, vals, eps=1e-7):
    r = np.abs(np.asarray(r, float))
    return all(np.min(np.abs(r - v)) > eps for v in vals)


def pick_rmax(rng, n, choices):
    return float(rng.choice(choices + [float(rng.uniform(1, 50))]))


def correspondence_objects(ctx, rng, ns, n_idx):
    from abel.tools import analytical as an
    qitems = []       # (tag, coq bool expr) evaluated by vm_compute
    goals = []        # (tag, interval lemma)
    gi = 0
    for n in ns:
        # ---- StepAnalytical
        for sym in ([True, False] if n % 2 else [False]):
            for _ in range(20):
                rmax = pick_rmax(rng, n, [1.0, 2.5, 10.0])
                r1 = float(rng.uniform(0, 0.6 * rmax)); r2 = r1 + float(rng.uniform(0.1, 0.39)) * rmax
                ratio = float(rng.choice([1.0, 0.8, 0.5])); A0 = float(rng.uniform(-2, 3))
                S = an.StepAnalytical(n, rmax, r1, r2, A0, ratio, sym)
                mid, half = 0.5 * (r1 + r2), 0.5 * (r2 - r1)
                if away(S.r, [r1, r2, mid - ratio * half, mid + ratio * half]):
                    break
            tag = ('StepAnalytical', n, rmax, r1, r2, A0, ratio, sym)
            qitems.append((tag + ('r',), 'row_close (base_rQ %s%%Q %s %d) %s' % (Q(rmax), vlib.bool_lit(sym), n, qlist(S.r))))
            qitems.append((tag + ('dr',), 'qclose (base_drQ %s) %s%%Q' % (qlist(S.r), Q(float(S.dr)))))
            qitems.append((tag + ('mask_valid',), 'bools_eq (map (step_maskQ %s%%Q %s%%Q %s%%Q (1#2)%%Q) %s) %s'
                           % (Q(ratio), Q(r1), Q(r2), qlist(S.r), blist(S.mask_valid))))
            qitems.append((tag + ('func mask',), 'bools_eq (map (step_maskQ 1%%Q %s%%Q %s%%Q (1#2)%%Q) %s) %s'
                           % (Q(r1), Q(r2), qlist(S.r), blist(S.func != 0) if A0 else blist(np.abs(np.abs(S.r) - mid) < half))))
            for i in sorted(set(int(v) for v in rng.choice(n, size=min(n, n_idx), replace=False))):
                x = abs(float(S.r[i])); gi += 1
                goals.append((tag + ('func', i), tv_goal('g%d' % gi, 'step_func %s %s %s %s' % (rlit(A0), rlit(r1), rlit(r2), rlit(x)), S.func[i], tol_of(S.func[i])))); gi += 1
                goals.append((tag + ('abel', i), tv_goal('g%d' % gi, 'step_abel %s %s %s %s' % (rlit(A0), rlit(r1), rlit(r2), rlit(x)), S.abel[i], tol_of(S.abel[i]))))
        # ---- StepAnalytical with samples exactly on the inner / outer bound and on the mask bounds (exact dyadic grids)
        for sym in ([True, False] if n % 2 else [False]):
            h = float(rng.choice([0.25, 0.5, 1.0]))
            k = (n - 1) // 2 if sym else n - 1
            rmax = k * h
            i = int(rng.integers(0, k)); j = int(rng.integers(i + 1, k + 1))
            r1, r2 = i * h, j * h
            ratio = float(rng.choice([1.0, 0.5])); A0 = float(rng.choice([1.0, -1.5, 2.25]))
            S = an.StepAnalytical(n, rmax, r1, r2, A0, ratio, sym)
            tag = ('StepAnalytical exact landing', n, rmax, r1, r2, A0, ratio, sym)
            qitems.append((tag + ('mask_valid',), 'bools_eq (map (step_maskQ %s%%Q %s%%Q %s%%Q (1#2)%%Q) %s) %s'
                           % (Q(ratio), Q(r1), Q(r2), qlist(S.r), blist(S.mask_valid))))
            qitems.append((tag + ('func mask',), 'bools_eq (map (step_maskQ 1%%Q %s%%Q %s%%Q (1#2)%%Q) %s) %s'
                           % (Q(r1), Q(r2), qlist(S.r), blist(S.func != 0))))
            ar = np.abs(S.r)
            on = [int(np.argmin(np.abs(ar - r1))), int(np.argmin(np.abs(ar - r2))), int(np.argmin(ar))]
            for ii in sorted(set(on + [int(v) for v in rng.choice(n, size=min(n, 2), replace=False)])):
                x = abs(float(S.r[ii])); gi += 1
                goals.append((tag + ('func', ii), tv_goal('g%d' % gi, 'step_func %s %s %s %s' % (rlit(A0), rlit(r1), rlit(r2), rlit(x)), S.func[ii], tol_of(S.func[ii])))); gi += 1
                goals.append((tag + ('abel', ii), tv_goal('g%d' % gi, 'step_abel %s %s %s %s' % (rlit(A0), rlit(r1), rlit(r2), rlit(x)), S.abel[ii], tol_of(S.abel[ii]))))
        # ---- GaussianAnalytical
        for sym in [True, False]:
            for _ in range(20):
                rmax = pick_rmax(rng, n, [1.0, 5.0])
                sg = float(rng.uniform(0.1, 0.5)) * rmax; A0 = float(rng.uniform(-2, 3)); ratio = float(rng.choice([2.0, 1.0, 3.5]))
                G = an.GaussianAnalytical(n, rmax, sg, A0, ratio, sym)
                if away(G.r, [ratio * sg]):
                    break
            tag = ('GaussianAnalytical', n, rmax, sg, A0, ratio, sym)
            qitems.append((tag + ('r',), 'row_close (base_rQ %s%%Q %s %d) %s' % (Q(rmax), vlib.bool_lit(sym), n, qlist(G.r))))
            qitems.append((tag + ('dr',), 'qclose (base_drQ %s) %s%%Q' % (qlist(G.r), Q(float(G.dr)))))
            qitems.append((tag + ('mask_valid',), 'bools_eq (map (gauss_maskQ %s%%Q %s%%Q) %s) %s'
                           % (Q(ratio), Q(sg), qlist(G.r), blist(G.mask_valid))))
            for i in sorted(set(int(v) for v in rng.choice(n, size=min(n, n_idx), replace=False))):
                x = float(G.r[i]); gi += 1
                goals.append((tag + ('func', i), tv_goal('g%d' % gi, 'gauss_func %s %s %s' % (rlit(A0), rlit(sg), rlit(x)), G.func[i], tol_of(G.func[i])))); gi += 1
                goals.append((tag + ('abel', i), tv_goal('g%d' % gi, 'gauss_abel %s %s %s' % (rlit(A0), rlit(sg), rlit(x)), G.abel[i], tol_of(G.abel[i]))))
        # ---- TransformPair
        for k in ([int(rng.integers(1, 8))] if n > 12 else range(1, 8)):
            T = an.TransformPair(n, k)
            tag = ('TransformPair', n, k)
            rr = T.r.copy(); rr[0] = 1.0e-8; rr[-1] -= 1.0e-8
            qitems.append((tag + ('r',), 'row_close (base_rQ 1%%Q false %d) %s' % (n, qlist(T.r))))
            qitems.append((tag + ('dr',), 'qclose (base_drQ %s) %s%%Q' % (qlist(T.r), Q(float(T.dr)))))
            qitems.append((tag + ('r offsets',), 'row_close (tp_rQ %d %s%%Q %s%%Q) %s' % (n, Q(1.0e-8), Q(float(rr[-1])), qlist(rr))))
            for i in sorted(set([0, n - 1] + [int(v) for v in rng.choice(n, size=min(n, max(1, n_idx - 2)), replace=False)])):
                x = float(rr[i]); gi += 1
                goals.append((tag + ('func', i), tv_goal('g%d' % gi, 'prof%d_source %s' % (k, rlit(x)), T.func[i], tol_of(T.func[i])))); gi += 1
                goals.append((tag + ('abel', i), tv_goal('g%d' % gi, 'prof%d_proj %s' % (k, rlit(x)), T.abel[i], tol_of(T.abel[i]))))
        # ---- Polynomial wrapper (odd n symmetric: mirrored; any n not symmetric) against the C10 model
        if n <= 101:
            for sym in ([True, False] if n % 2 else [False]):
                rmax = pick_rmax(rng, n, [4.0, 10.0])
                half = np.linspace(-rmax, rmax, n)[n // 2:] if sym else np.linspace(0, rmax, n)
                for _ in range(50):
                    a, b = sorted(float(v) for v in rng.uniform(-0.1 * rmax, 1.05 * rmax, 2))
                    if b - a > 0.1 * rmax and away(half, [a, b], 1e-3 * rmax):
                        break
                K = int(rng.integers(0, 5)); c = rng.normal(size=K + 1)
                r0 = 0.0 if rng.random() < 0.4 else float(rng.uniform(0, rmax)); s = 1.0 if rng.random() < 0.4 else float(rng.uniform(0.5, 3))
                red = bool(rng.random() < 0.5)
                P = an.Polynomial(n, rmax, a, b, c, r0, s, red, symmetric=sym)
                tag = ('Polynomial', n, rmax, a, b, c.tolist(), r0, s, red, sym)
                hr = P.r[n // 2:] if sym else P.r
                fs, as_ = c10.poly_scales(hr, a, b, c, r0, s, red)
                call = c10.poly_call((hr, a, b, c, r0, s, red))
                if sym:
                    tols = np.concatenate([fs[:0:-1], fs])
                    model = 'mirror (poly_funcQ %s)' % call
                else:
                    tols = fs
                    model = 'poly_funcQ %s' % call
                qitems.append((tag + ('r',), 'row_close (base_rQ %s%%Q %s %d) %s' % (Q(rmax), vlib.bool_lit(sym), n, qlist(P.r))))
                qitems.append((tag + ('func',), 'all_within %s (%s) %s'
                               % (vlib.list_lit([Q(c10.tol_q(v, c10.REL_FUNC)) for v in tols]) + '%Q', model, qlist(P.func))))
                for i in sorted(set(int(v) for v in rng.choice(n, size=min(n, 2), replace=False))):
                    j = abs(i - n // 2) if sym else i
                    gi += 1
                    goals.append((tag + ('abel', i),
                                  'Lemma g%d : Rabs (poly_abelQ_at %s %d - Q2R %s%%Q) <= Q2R %s%%Q.\nProof. evalQ. Qed.'
                                  % (gi, call, j, Q(float(P.abel[i])), Q(c10.tol_q(as_[j], c10.REL_ABEL)))))
    # evaluate
    shard = 30
    texts = []
    for k in range(0, len(qitems), shard):
        texts.append(('C11_q_%03d' % (k // shard),
                      TV_HEADER + 'Open Scope Q_scope.\nDefinition res : list bool := %s.\n'
                      'Eval vm_compute in (count_true res, false_idx 0 res).\n'
                      % vlib.list_lit([e for _, e in qitems[k:k + shard]])))
    outs = vlib.coq_eval_many(texts, timeout=1500)
    q_ok = 0
    q_bad = []
    errors = []
    for k, (name, _) in enumerate(texts):
        rc, out = outs[name]
        r = vlib.parse_eval_lists(out)
        m = re.match(r'\((\d+), (.*)\)$', r[0]) if (rc == 0 and r) else None
        if not m:
            errors.append((name, out[-400:]))
            continue
        q_ok += int(m.group(1))
        q_bad += [qitems[k * shard + i][0] for i in vlib.parse_nat_list(m.group(2))]
    g_ok, g_bad, g_err = run_goal_files('C11_obj', goals, shard=12)
    return dict(q_items=len(qitems), q_ok=q_ok, q_bad=q_bad, goals=len(goals), g_ok=g_ok, g_bad=g_bad,
                errors=errors + g_err)


def profile6_random(ctx, rng, k):
    from translate import profile6_inst as p6
    goals = []
    for i in range(k):
        x = Fraction(int(rng.integers(5, 96)), 100)
        goals.append((('profile6 instance', float(x)), 'Lemma p6r_%d : %s.\n%s' % (i, p6.goal_stmt(x), p6.PROOF.strip())))
    n_ok, bad, errors = run_goal_files('C11_p6', goals, shard=1, header=p6.HEADER)
    return dict(goals=len(goals), ok=n_ok, bad=bad, errors=errors)


# ---------------------------------------------------------------------------
# search
# ---------------------------------------------------------------------------

SNIPPET_TAIL = '''
if __name__ == '__main__':
    name = %(name)r
    args = json.loads(%(args)r)
    ok, detail = run_clause(name, args)
    print('C11 clause', name, 'holds' if ok else 'FAILS: ' + detail)
    sys.exit(0 if ok else 1)
'''


def make_hit(name, args, detail, key):
    args = c10.jsonable(args)
    snippet = ORACLE_SRC + SNIPPET_TAIL % dict(name=name, args=json.dumps(args))
    return Hit(name, key, '%s: %s' % (name, detail), snippet, dict(clause=name, args=args, detail=detail))


def p4_key(name, args, detail):
    """profile 4 deviations up to 1.5e-6 (absolute) are the recorded finding"""
    k = args[0] if name == 'profile' else args[1]
    m = re.search(r'\|diff\| = ([0-9.eE+-]+)', detail)
    if k == 4 and m and float(m.group(1)) <= P4_ABS:
        return 'C11:profile4-rounded-constants'
    return 'C11:%s:%s:%s' % (name, k, re.sub(r'\[.*?\]|\(.*?\)', '', detail.split('=')[0])[:30].strip())


def exact_grid(rng, symmetric):
    """(n, r_max, h) with every grid value an exact multiple of the dyadic step h (so that parameters can be put exactly on
    grid points): symmetric -> n = 2k+1 (odd) or 2k (even, half-step layout), else any n"""
    h = float(rng.choice([0.25, 0.5, 1.0, 2.0]))
    if symmetric:
        k = int(rng.integers(3, 40))
        return 2 * k + 1, k * h, h
    n = int(rng.integers(5, 60))
    return n, (n - 1) * h, h


def exact_landing_sweep(rng, run, gen_key, p4_key):
    """Parameters chosen so that samples land EXACTLY on every breakpoint of the closed forms: inner and outer bound of the
    step (also r1 = 0: the disk, and r2 = r_max), r = 0, the mask bounds, the branch points of the piecewise profiles;
    symmetric on/off, odd/even n; next to each an off-grid variant."""
    fixed = [(21, 10.0, 3.0, 6.0, True), (129, 8.0, 3.0, 5.0, True), (141, 7.0, 3.0, 5.0, True), (11, 10.0, 0.0, 4.0, False),
             (21, 10.0, 0.0, 5.0, True), (11, 10.0, 2.0, 10.0, False), (10, 9.0, 2.0, 5.0, False), (8, 7.0, 0.0, 7.0, False)]
    cases = list(fixed)
    for _ in range(6):
        sym = bool(rng.random() < 0.5)
        n, rmax, h = exact_grid(rng, sym)
        k = int(round(rmax / h))
        i = int(rng.integers(0, k)); j = int(rng.integers(i + 1, k + 1))
        cases.append((n, rmax, i * h, j * h, sym))
        cases.append((n, rmax, i * h + 0.3 * h, j * h, sym))           # inner bound off the grid, outer on it
        cases.append((n, rmax, i * h, j * h - 0.3 * h, sym))           # inner on, outer off
    for (n, rmax, r1, r2, sym) in cases:
        if r2 <= r1:
            continue
        A0 = float(rng.choice([1.0, -2.5, float(rng.uniform(0.2, 3))]))
        ratio = float(rng.choice([1.0, 0.5, 0.75]))
        run('step', (n, rmax, r1, r2, A0, ratio, sym), gen_key, ('step-exact', n % 2, sym, r1 == 0, r2 == rmax))
    # Gaussian: r = 0 on the grid, |r| exactly ratio * sigma
    for _ in range(4):
        sym = bool(rng.random() < 0.5)
        n, rmax, h = exact_grid(rng, sym)
        ratio = float(rng.choice([2.0, 1.0, 4.0]))
        j = int(rng.integers(1, max(2, int(round(rmax / h)))))
        run('gaussian', (n, rmax, j * h / ratio, float(rng.uniform(-2, 3)), ratio, sym), gen_key, ('gauss-exact', n % 2, sym))
    # profiles: samples exactly on the branch points 0.25, 0.5, 0.7 (and just next to them), TransformPair sizes whose grid
    # contains them
    for k, b in ((1, 0.25), (3, 0.5), (4, 0.7)):
        xs = sorted([b, float(np.nextafter(b, 0)), float(np.nextafter(b, 1)), b / 2, (1 + b) / 2])   # a grid: ascending
        run('profile', (k, xs), p4_key, ('profile-branch', k))
    for n in (5, 9, 11, 21, 41, 101):
        for k in (1, 3, 4, int(rng.integers(1, 8))):
            run('transform_pair', (n, k), p4_key, ('tp-branch', n, k))


def search(ctx, rng, budget):
    hits = []
    n_eval = 0
    distinct = set()

    def run(name, args, keyf, dkey):
        nonlocal n_eval
        n_eval += 1
        distinct.add(dkey)
        ok, detail = run_clause(name, c10.jsonable(args))
        if not ok:
            hits.append(make_hit(name, args, detail, keyf(name, args, detail)))
    def gen_key(name, args, d):
        return 'C11:%s:%s' % (name, d.split('[')[0].split('=')[0][:40])
    names = ['Dribinski', 'Gaussian', 'Gerber', 'O2', 'Ominus']
    exact_landing_sweep(rng, run, gen_key, p4_key)
    for it in range(budget):
        n = int(rng.choice([5, 6, 7, 8, 9, 10, 11, 12, 25, 40, 101]))
        sym = bool(n % 2 and rng.random() < 0.6)
        rmax = float(rng.uniform(1, 30))
        r1 = float(rng.uniform(0, 0.6 * rmax)); r2 = r1 + float(rng.uniform(0.1, 0.39)) * rmax
        run('step', (n, rmax, r1, r2, float(rng.uniform(-2, 3)), float(rng.choice([1.0, 0.7])), sym), gen_key, ('step', n % 2, sym))
        symg = bool(rng.random() < 0.5)
        run('gaussian', (n, rmax, float(rng.uniform(0.05, 0.6)) * rmax, float(rng.uniform(-2, 3)), 2.0, symg), gen_key, ('gauss', n % 2, symg))
        # Polynomial wrappers
        pw = bool(rng.random() < 0.5)
        half = np.linspace(-rmax, rmax, n)[n // 2:] if sym else np.linspace(0, rmax, n)
        ranges = []
        for _ in range(int(rng.integers(1, 4)) if pw else 1):
            for _ in range(50):
                a, b = sorted(float(v) for v in rng.uniform(-0.1 * rmax, 1.05 * rmax, 2))
                if b - a > 0.05 * rmax and away(half, [a, b], 1e-3 * rmax):
                    break
            K = int(rng.integers(0, 7))
            ranges.append((a, b, rng.normal(size=K + 1), 0.0 if rng.random() < 0.4 else float(rng.uniform(0, rmax)),
                           1.0 if rng.random() < 0.4 else float(rng.choice([-1, 1]) * rng.uniform(0.5, 3)), bool(rng.random() < 0.5)))
        run('poly_wrapper', (n, rmax, ranges, sym, pw), gen_key, ('polyw', n % 2, sym, pw))
        # profiles at random r, TransformPair objects
        k = 1 + it % 7
        xs = np.sort(rng.uniform(0.003, 0.997, 6))
        run('profile', (k, xs), p4_key, ('profile', k))
        run('transform_pair', (int(rng.choice([5, 8, 12, 33, 101, 1001])), 1 + (it // 7 + it) % 7), p4_key, ('tp', 1 + (it // 7 + it) % 7))
        # sample images
        if it % 2 == 0:
            nm = names[(it // 2) % 5]
            ns = int(rng.choice([21, 41, 61, 101, 40]))
            tol = float(rng.choice([4.8e-3, 1e-4, 1e-5]))
            sigma = None if rng.random() < 0.6 else float(rng.uniform(0.5, 3.0)) * (ns / 100 if nm in ('Dribinski', 'Ominus') else 1.0)
            temp = float(rng.choice([200, 50, 1000]))
            px = [(int(a), int(b)) for a, b in rng.integers(0, ns, size=(6, 2))] + [(ns // 2, ns // 2)]
            run('sample_image', (nm, ns, sigma, temp, tol, px), gen_key, ('sample', nm, tol, sigma is None))
        # histories on one SampleImage object: reads and transform(tol) in any order
        nm = names[it % 5]
        ns = int(rng.choice([21, 41, 61]))
        tols = [4.8e-3, 3e-2, 1e-3, 1e-4, 1e-5, float(10 ** rng.uniform(-5, -1.5))]
        kind = it % 4
        m = int(rng.integers(2, 5))
        seq = [float(t) for t in rng.choice(tols, size=m)]
        if kind == 0:
            seq = sorted(seq, reverse=True)          # refining
        elif kind == 1:
            seq = sorted(seq)                        # coarsening
        elif kind == 2:
            seq = seq + [seq[0]]                     # a repeated tolerance
        ops = []
        if rng.random() < 0.5:
            ops.append(('read',))
        for t in seq:
            ops.append(('transform', t))
            if rng.random() < 0.4:
                ops.append(('read',))
            if rng.random() < 0.2:
                ops.append(('func',))
        px = [(int(a), int(b)) for a, b in rng.integers(0, ns, size=(4, 2))] + [(ns // 2, ns // 2)]
        run('sample_history', (nm, ns, None, 200.0, ops, px),
            lambda name, args, d: 'C11:sample_history:%s' % re.sub(r'step \d+|[0-9.eE+-]{3,}|\[.*?\]|\(.*?\)', '', d)[:50].strip(),
            ('hist', nm, kind, ops[0][0]))
    return hits, n_eval, len(distinct)


# ---------------------------------------------------------------------------

def run(ctx):
    rng = np.random.default_rng(ctx.seed)
    from translate import formulas_pairs, profile6_inst
    gen_err = []
    try:
        formulas_pairs.generate()
    except Exception as e:
        gen_err.append(('formulas_pairs', repr(e)))
    try:
        n_p6 = profile6_inst.generate()
    except Exception as e:
        n_p6 = 0
        gen_err.append(('profile6_inst', repr(e)))
    # the per-instance theorems (Interval `integral`) live outside props/C11.v (coqchk closure); recompiled on every run
    inst = 'proofs/C11Instances.v'
    try:
        os.remove(os.path.join(vlib.COQ, inst + 'o'))
    except OSError:
        pass
    if not ctx.quick:        # thorough: re-prove the fixed profile 6 instances too (35 s)
        try:
            os.remove(os.path.join(vlib.COQ, 'gen', 'Profile6Inst.vo'))
        except OSError:
            pass
    pr = vlib.coq_props('C11', extra_targets=['proofs/PolyEvalTac.vo', inst + 'o'])
    # instance goals are counted only when they were really compiled in this run
    inst_thms = vlib.theorems_in(inst) if ('COQC ' + inst) in pr['log'] else []
    n_p6_run = n_p6 if 'COQC gen/Profile6Inst.v' in pr['log'] else 0
    ctx.cov['instance_goals_from_an_earlier_build_not_counted'] = n_p6 - n_p6_run
    n_p6_total, n_p6 = n_p6, n_p6_run
    ctx.cov.update(obligations=len(pr['theorems']) + len(inst_thms) + n_p6,
                   discharged=(pr['discharged'] + len(inst_thms) + n_p6) if pr['ok'] else 0,
                   theorems=pr['theorems'], instance_theorems=inst_thms, axioms=pr['axioms'],
                   checker_cmd='make -C /verif/coq props/C11.vo (coqc 8.16.1, full .vo build) + Print Assumptions; '
                               'per-instance goals: coqc cases/C11_*.v (Interval 4.6: interval, integral; vm_compute)',
                   trusted_base=vlib.TRUSTED_COMMON + [
                       'axioms reported by Print Assumptions (classical reals; Interval primitive integers): ' + ', '.join(pr['axioms']),
                       'translator tools/translate/formulas_pairs.py (validated at sampled arguments on every run)',
                       'Abel f Rm x is the proper-integral form (see C10); the Gaussian integral 2 int_0^inf exp(-t^2) = sqrt(pi) '
                       'is trusted (enclosed on [0,6] to 1e-12)',
                       'scipy.integrate.quad (search oracle)'])
    broken = (not pr['ok']) or bool(gen_err)
    tv = cb = p6 = None
    corr_bad = False
    if not gen_err:
        tv = translation_validation(ctx, rng, 4 if ctx.quick else 25)
        cb = correspondence_objects(ctx, rng, [5, 8, 11, 12, 101] if ctx.quick else NS, 3 if ctx.quick else 6)
        p6 = profile6_random(ctx, rng, 1 if ctx.quick else 6)
        corr_bad = bool(tv['bad'] or tv['errors'] or cb['q_bad'] or cb['g_bad'] or cb['errors'] or p6['bad'] or p6['errors'])
        ctx.cov.update(traces_validated_against_impl=tv['ok'] + cb['q_ok'] + cb['g_ok'],
                       correspondence=dict(translation_validation_goals=tv['goals'], translation_validation_ok=tv['ok'],
                                           object_q_checks=cb['q_items'], object_q_ok=cb['q_ok'], object_goals=cb['goals'],
                                           object_goals_ok=cb['g_ok'], profile6_random_instances=p6['goals'],
                                           profile6_fixed_instances=n_p6_total, profile6_fixed_instances_compiled_this_run=n_p6),
                       per_instance_goals=tv['goals'] + cb['goals'] + p6['goals'] + n_p6)
    budget = (8 if ctx.quick else 70) * (4 if (broken or corr_bad) else 1)
    hits, n_eval, n_distinct = search(ctx, rng, budget)
    ctx.cov.update(evaluations=n_eval + (tv['goals'] + cb['q_items'] + cb['goals'] if tv else 0), distinct_nontrivial=n_distinct,
                   rule='search: per iteration one StepAnalytical, GaussianAnalytical, Polynomial or PiecewisePolynomial wrapper '
                        '(n in 5..12, 25, 40, 101; symmetric only for odd n as documented), one profile at 6 random r, one '
                        'TransformPair (n in 5..1001), every second iteration one SampleImage (5 names, n in 21..101, default or '
                        'random sigma, 3 temperatures, tol in {4.8e-3, 1e-4, 1e-5}) at 7 pixels; abel compared with scipy '
                        'quadrature of the line-of-sight integral of func: 1e-9 relative for closed forms, the ApproxGaussian '
                        'tol-derived bound sum_k |A_k| sum|c_n| 1.08 tol (chord + 4 w_k) for sample images; distinct = option classes',
                   input_distribution=dict(ns=NS if not ctx.quick else [5, 8, 11, 12, 101]),
                   samples=[dict(clause=h.clause, key=h.key, what=h.what[:200]) for h in hits[:3]] or
                           [dict(object='TransformPair', n=8, profile=4, note='see replays for failing inputs; none new in this run')],
                   exhaustive=False)
    new = 0
    seen = set()
    for h in hits:
        if h.key in seen:
            continue
        seen.add(h.key)
        if ctx.report_hit(h):
            new += 1
    if gen_err and new == 0:
        ctx.report_broken('translator', gen_err[0][0], gen_err[0][1])
    if not pr['ok'] and new == 0:
        ctx.report_broken('proof', pr['broken'] or 'props/C11.v', pr['error'] or '')
    if corr_bad and new == 0:
        det = []
        if tv['bad']:
            det.append('translated formula disagrees with the Python value: %r' % (tv['bad'][0],))
        if cb['q_bad']:
            det.append('grid/mask/func check fails: %r' % (cb['q_bad'][0],))
        if cb['g_bad']:
            det.append('object value not within tolerance of the formula: %r' % (cb['g_bad'][0],))
        if p6['bad']:
            det.append('profile 6 instance: %r' % (p6['bad'][0],))
        for e in (tv['errors'] + cb['errors'] + p6['errors'])[:1]:
            det.append('coq error in %s: %s' % e)
        ctx.report_broken('correspondence', 'gen/FormulasPairs.v, model/Pairs.v vs abel/tools/analytical.py, transform_pairs.py',
                          '; '.join(det))
    ctx.assumptions += [
        'THEOREMS (every r in range): step pair; profiles 1, 2, 3, 5, 7 exact pairs; profile 4 exact deviation formula, bound 1.2e-6 '
        'and refutation of exactness; Gaussian constant ratio and factorisation (partial: improper Gaussian integral trusted); '
        'grid layout, mirroring, mask symmetry',
        'PER-INSTANCE machine-checked goals: profile 6 at 4 fixed + sampled r (integral truncated at radius 199/200, tail not '
        'covered); translation validation and object values by Interval at sampled arguments',
        'ONLY SWEPT NUMERICALLY: SampleImage (all names) against quadrature within the tolerance-derived bound; '
        'the Polynomial wrappers are covered by the C10 theorems plus the mirroring lemma',
        'Polynomial/PiecewisePolynomial wrappers with symmetric=True and even n return arrays of length n-1 (documented: n should '
        'be odd); StepAnalytical raises for them; not generated',
    ]
